#!/usr/bin/env python3
"""Rewrite the table of DESIGN.md section 0.2 from manifest/Cxx.json (technique) so that the
design document and MANIFEST.json cannot drift apart."""
import json
import os
import re

VERIF = os.path.dirname(os.path.dirname(os.path.abspath(__file__)))
p = os.path.join(VERIF, "DESIGN.md")
s = open(p).read()
rows = ["| id | technique (MANIFEST.technique) | as built |", "|---|---|---|"]
for i in range(1, 21):
    pid = f"C{i:02d}"
    m = json.load(open(os.path.join(VERIF, "manifest", pid + ".json")))
    rows.append(f"| {pid} | {m.get('technique', '').replace('|', '/')} | design/{pid}.md |")
pat = re.compile(r"\| id \| technique \(MANIFEST\.technique\) \| as built \|\n(?:\|.*\n)+")
assert pat.search(s)
s = pat.sub("\n".join(rows) + "\n", s, count=1)
open(p, "w").write(s)
print("DESIGN.md 0.2 table rewritten:", len(rows) - 2, "rows")
