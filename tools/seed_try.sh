#!/bin/bash
# usage: seed_try.sh <patch.diff> <check id>...   — apply a patch to a scratch worktree of /repo
# (never to /repo itself), run the named checks against it, print their summary, clean up
patch=$1; shift
wt=/work/try-$$
git -C /repo worktree add -q --detach $wt HEAD || exit 2
git -C $wt apply "$patch" || { echo "patch does not apply"; git -C /repo worktree remove --force $wt; exit 2; }
cd "$(dirname "$0")/.."
for c in "$@"; do
  out=$(VERIF_REPO=$wt VERIF_EVIDENCE_DIR=/tmp/seed_evidence/try ./check $c 2>&1); rc=$?
  echo "$(echo "$out" | grep "^\[$c\]" | tail -1) rc=$rc"
  echo "$out" | grep "^VIOLATION\|no longer checks\|  -> " | cut -c1-260 | head -${SEED_TRY_LINES:-4}
done
/venv/bin/python -c "from harness import common; common.drop_builds_for('$wt')"
git -C /repo worktree remove --force $wt
