#!/usr/bin/env python3
"""(Re)write the round-2 seeded-change table of DESIGN.md (section 0.7) from seeded/*/meta.json
and seeded/notes_round2.json."""
import json
import os
import re

V = os.path.dirname(os.path.dirname(os.path.abspath(__file__)))
import sys
rnd = sys.argv[1] if len(sys.argv) > 1 else "2"
ks = {"2": ("3", "4"), "3": ("5", "6"), "4": ("7", "8")}[rnd]
notes = json.load(open(os.path.join(V, "seeded", f"notes_round{rnd}.json")))
rows = ["| seed | what it changes (needs) | reported by | first result before strengthening |", "|---|---|---|---|"]
for d in sorted(os.listdir(os.path.join(V, "seeded"))):
    mp = os.path.join(V, "seeded", d, "meta.json")
    if not os.path.exists(mp) or d.split("-")[1] not in ks:
        continue
    m = json.load(open(mp))
    c = m.get("confirmed_by_lead", {})
    rep = []
    for cid, v in c.get("check_results", {}).items():
        if v["exit"] == 1:
            viol = [l for l in v["lines"] if l.startswith("VIOLATION")]
            rep.append(f"{cid} ({'replay' if any('no-failing-input-found' not in l for l in viol) else 'no-failing-input-found'})")
    rows.append(f"| {d} | {str(m.get('summary', ''))[:150].replace('|', '/')} | {', '.join(rep) or '-'} | {notes.get(d, '')} |")
p = os.path.join(V, "DESIGN.md")
s = open(p).read()
begin, end = f"<!-- seeds{rnd}:begin -->", f"<!-- seeds{rnd}:end -->"
block = begin + "\n" + "\n".join(rows) + "\n" + end
if begin in s:
    s = re.sub(re.escape(begin) + r".*?" + re.escape(end), lambda _: block, s, flags=re.S)
else:
    raise SystemExit("markers missing in DESIGN.md")
open(p, "w").write(s)
print(len(rows) - 2, "rows")
