#!/usr/bin/env python3
"""Regression over the stored seeded changes: apply each /verif/seeded/<id>-<k>/patch.diff to
a scratch worktree of /repo (never to /repo itself), run the check(s) that are recorded as
catching it, undo the change.

usage: seed_regress.py [<id-k> ...]        (default: all)

Evidence of these runs goes to /tmp/seed_evidence (never to /verif/evidence).  The result table
is written to seeded/regress.json and printed.
"""
import json
import os
import subprocess
import sys

VERIF = os.path.dirname(os.path.dirname(os.path.abspath(__file__)))
# a dedicated scratch worktree (outside /repo and /verif) so that /repo itself stays untouched;
# `VERIF_REPO` makes the harness build and test that tree
REPO = os.environ.get("SEED_WT", "/work/seedwt")


def sh(cmd, cwd=None, env=None, timeout=3600):
    r = subprocess.run(cmd, shell=True, cwd=cwd, env=env, stdout=subprocess.PIPE,
                       stderr=subprocess.STDOUT, text=True, timeout=timeout)
    return r.returncode, r.stdout


def main():
    want = sys.argv[1:]
    seeds = sorted(d for d in os.listdir(os.path.join(VERIF, "seeded"))
                   if os.path.isdir(os.path.join(VERIF, "seeded", d)))
    if want:
        seeds = [s for s in seeds if s in want]
    sh(f"git -C /repo worktree remove --force {REPO}")
    rc, out = sh(f"git -C /repo worktree add --detach {REPO} HEAD")
    if rc != 0:
        print("cannot create scratch worktree:", out)
        return 2
    res = {}
    env = dict(os.environ, VERIF_EVIDENCE_DIR="/tmp/seed_evidence", VERIF_REPO=REPO)
    for s in seeds:
        d = os.path.join(VERIF, "seeded", s)
        meta = json.load(open(os.path.join(d, "meta.json")))
        lead = meta.get("confirmed_by_lead", {})
        checks = [c for c, v in lead.get("check_results", {}).items() if v.get("exit") == 1] \
            or [meta.get("breaks_property", s.split("-")[0])]
        rc, out = sh(f"git -C {REPO} apply {d}/patch.diff")
        if rc != 0:
            res[s] = {"applies": False, "detail": out[-300:]}
            print(s, "PATCH DOES NOT APPLY")
            continue
        try:
            r = {}
            for c in checks:
                rcc, outc = sh(f"./check {c}", cwd=VERIF, env=env)
                viol = [l for l in outc.split("\n") if l.startswith("VIOLATION")]
                r[c] = {"exit": rcc, "violations": len(viol),
                        "with_replay": sum("no-failing-input-found" not in l for l in viol)}
        finally:
            sh(f"git -C {REPO} checkout -- .")
        res[s] = {"applies": True, "checks": r,
                  "detected": any(v["exit"] == 1 for v in r.values()),
                  "detected_with_replay": any(v["exit"] == 1 and v["with_replay"] > 0 for v in r.values())}
        print(s, json.dumps(res[s]["checks"]), "OK" if res[s]["detected_with_replay"] else "MISSED")
        sys.stdout.flush()
    sh(f"/venv/bin/python -c \"from harness import common; common.drop_builds_for('{REPO}')\"", cwd=VERIF)
    sh(f"git -C /repo worktree remove --force {REPO}")
    out = os.path.join(VERIF, "seeded", "regress.json")
    if want and os.path.exists(out):      # a partial run updates the stored table
        old = json.load(open(out))
        old.update(res)
        json.dump(old, open(out, "w"), indent=1)
    else:
        json.dump(res, open(out, "w"), indent=1)
    missed = [s for s, v in res.items() if not v.get("detected_with_replay")]
    print(f"{len(res) - len(missed)}/{len(res)} reported with a replay; missed: {missed}")
    return 1 if missed else 0


if __name__ == "__main__":
    sys.exit(main())
