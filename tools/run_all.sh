#!/bin/bash
# run every claimed check and print the summary line of each
# usage: tools/run_all.sh [quick|thorough] [parallel jobs, default 1]
# (checks of different properties may run side by side: lake builds take a lock, every property
#  has its own generated files, driver and run lock)
cd "$(dirname "$0")/.."
tier=${1:-quick}
jobs=${2:-1}
one() {
  id=$1; tier=$2
  out=$(./check $id --tier $tier 2>&1); rc=$?
  {
    echo "$(echo "$out" | grep "^\[$id\]" | tail -1) rc=$rc"
    echo "$out" | grep "^VIOLATION\|no longer checks\|  -> " | head -5
  }
}
export -f one
python3 -c "import json;print('\n'.join(c['property_id'] for c in json.load(open('MANIFEST.json'))['checks']))" \
  | xargs -P "$jobs" -I{} bash -c "one {} $tier"
