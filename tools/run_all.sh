#!/bin/bash
# run every claimed check (quick) and print the summary line of each
cd "$(dirname "$0")/.."
tier=${1:-quick}
for id in $(python3 -c "import json;print(' '.join(c['property_id'] for c in json.load(open('MANIFEST.json'))['checks']))"); do
  out=$(./check $id --tier $tier 2>&1); rc=$?
  echo "$(echo "$out" | grep "^\[$id\]" | tail -1) rc=$rc"
  echo "$out" | grep "^VIOLATION\|no longer checks\|  -> " | head -5
done
