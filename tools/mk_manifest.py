#!/usr/bin/env python3
"""Regenerate MANIFEST.json from the table below (keeps it schema-valid)."""
import json, os, subprocess
HERE = os.path.dirname(os.path.dirname(os.path.abspath(__file__)))

TRUST = ("Lean 4.33 kernel with axioms propext/Classical.choice/Quot.sound only (audited each run, no sorry/native_decide); "
         "the hand-written model is tied to the code by the correspondence harness, whose generators bound what it sees; "
         "numpy/scipy/igraph/CPython/Cython bounds checks are modelled, not verified.")

def load_claimed():
    """manifest/<id>.json: {"technique", "text", "note", "design_ref"[, "level"]}"""
    out = {}
    d = os.path.join(HERE, "manifest")
    for fn in sorted(os.listdir(d)):
        if fn.endswith(".json"):
            out[fn[:-5]] = json.load(open(os.path.join(d, fn)))
    return out


def aggregate_findings():
    out = {"_comment": "aggregated from findings/<id>.json by tools/mk_manifest.py; read-only for the checks. "
           "findings: genuine defects recorded, not repaired (signature-matched, never a wildcard). "
           "fixed: defects repaired by a fix: commit in /repo (these suppress nothing).",
           "findings": [], "fixed": []}
    d = os.path.join(HERE, "findings")
    for fn in sorted(os.listdir(d)):
        if fn.endswith(".json"):
            j = json.load(open(os.path.join(d, fn)))
            out["findings"] += j.get("findings", [])
            out["fixed"] += j.get("fixed", [])
    json.dump(out, open(os.path.join(HERE, "known_findings.json"), "w"), indent=1)


PENDING = {}

def main():
    props = [json.loads(l) for l in open(os.path.join(HERE, "properties.jsonl"))]
    try:
        hooks = subprocess.run(["git", "-C", "/repo", "log", "--format=%H %s"], capture_output=True, text=True).stdout.split("\n")
        hook_commits = [l.split()[0] for l in hooks if "verif hook" in l]
    except Exception:
        hook_commits = []
    checks, na = [], []
    CLAIMED = load_claimed()
    aggregate_findings()
    for p in props:
        pid = p["id"]
        if pid in CLAIMED:
            c = CLAIMED[pid]
            tech, text, note, ref = c["technique"], c["text"], c.get("note", "") or TRUST, c.get("design_ref", "5/" + pid)
            if c.get("note_extra"):
                note = TRUST + " " + c["note_extra"]
            checks.append({
                "property_id": pid,
                "quick_cmd": f"./check {pid} --tier quick",
                "thorough_cmd": f"./check {pid} --tier thorough",
                "evidence_file": f"evidence/{pid}.json",
                "replay_cmd_template": f"./check {pid} --replay {{path}}",
                "engine": "lean4+correspondence",
                "level_claimed": {"category": c.get("level", "proof"), "text": text, "design_ref": f"DESIGN.md section {ref}"},
                "level_note": note,
                "technique": tech,
            })
        else:
            na.append({"property_id": pid, "reason": PENDING.get(pid, "check not built yet in this round (model and theorems planned in DESIGN.md section 5); not claimed")})
    man = {
        "version": 1,
        "setup_cmd": "./setup.sh",
        "hooks": {
            "guard": "PYUNICORN_VERIF",
            "enable": "checks set PYUNICORN_VERIF=1 in their own process and import pyunicorn from a build of /repo's working tree under /verif/.build/",
            "baseline_off_cmd": "cd /repo && env -u PYUNICORN_VERIF /venv/bin/python -m pytest -ra -q -p no:cacheprovider --timeout=900 --continue-on-collection-errors",
            "source_commits": hook_commits,
            "add_only": True,
        },
        "engines": [{
            "name": "lean4+correspondence", "path": "lean/ harness/ translate/",
            "serves_properties": sorted(CLAIMED),
            "kind_free_text": "Lean 4 models + theorems (lake build, #print axioms audit), tied to /repo by translators and by differential correspondence through a compiled line-protocol driver",
        }],
        "checks": checks,
        "not_applicable": na,
        "notes": "See DESIGN.md. Exit codes: 0 held, 1 VIOLATION, 2 machinery/build problem (never a verdict).",
    }
    json.dump(man, open(os.path.join(HERE, "MANIFEST.json"), "w"), indent=1)
    print("claimed:", sorted(CLAIMED), "pending:", len(na))

if __name__ == "__main__":
    main()
