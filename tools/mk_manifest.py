#!/usr/bin/env python3
"""Regenerate MANIFEST.json from the table below (keeps it schema-valid)."""
import json, os, subprocess
HERE = os.path.dirname(os.path.dirname(os.path.abspath(__file__)))

TRUST = ("Lean 4.33 kernel with axioms propext/Classical.choice/Quot.sound only (audited each run, no sorry/native_decide); "
         "the hand-written model is tied to the code by the correspondence harness, whose generators bound what it sees; "
         "numpy/scipy/igraph/CPython/Cython bounds checks are modelled, not verified.")

# id -> (technique, level text, level note, design ref)
CLAIMED = {
 "C08": ("Lean 4 proof (kernel fold = run-length specification, accounting identities) + exact kernel-boundary correspondence",
         "Theorems vert/white/diag(_mv)_eq_runs, diagCoords_mem/count, *_accounts_*, vert_white_account_all, sequential_eq_matrix, "
         "partialWsum_le_wsum are proved for every matrix size about the Lean model of _line_dist; the model is compared output-for-output "
         "with the compiled kernels on all small symmetric matrices, random matrices and missing-value masks, and RecurrencePlot's "
         "histograms / scalar RQA measures are compared with an independent run-length counter in both storage modes.",
         TRUST + " Entropies (log) are compared numerically only.", "5/C08"),
}

PENDING = {}

def main():
    props = [json.loads(l) for l in open(os.path.join(HERE, "properties.jsonl"))]
    try:
        hooks = subprocess.run(["git", "-C", "/repo", "log", "--format=%H %s"], capture_output=True, text=True).stdout.split("\n")
        hook_commits = [l.split()[0] for l in hooks if "verif hook" in l]
    except Exception:
        hook_commits = []
    checks, na = [], []
    for p in props:
        pid = p["id"]
        if pid in CLAIMED:
            tech, text, note, ref = CLAIMED[pid]
            checks.append({
                "property_id": pid,
                "quick_cmd": f"./check {pid} --tier quick",
                "thorough_cmd": f"./check {pid} --tier thorough",
                "evidence_file": f"evidence/{pid}.json",
                "replay_cmd_template": f"./check {pid} --replay {{path}}",
                "engine": "lean4+correspondence",
                "level_claimed": {"category": "proof", "text": text, "design_ref": f"DESIGN.md section {ref}"},
                "level_note": note,
                "technique": tech,
            })
        else:
            na.append({"property_id": pid, "reason": PENDING.get(pid, "check not built yet in this round (model and theorems planned in DESIGN.md section 5); not claimed")})
    man = {
        "version": 1,
        "setup_cmd": "./setup.sh",
        "hooks": {
            "guard": "PYUNICORN_VERIF",
            "enable": "checks set PYUNICORN_VERIF=1 in their own process and import pyunicorn from a build of /repo's working tree under /verif/.build/",
            "baseline_off_cmd": "cd /repo && env -u PYUNICORN_VERIF /venv/bin/python -m pytest -ra -q -p no:cacheprovider --timeout=900 --continue-on-collection-errors",
            "source_commits": hook_commits,
            "add_only": True,
        },
        "engines": [{
            "name": "lean4+correspondence", "path": "lean/ harness/ translate/",
            "serves_properties": sorted(CLAIMED),
            "kind_free_text": "Lean 4 models + theorems (lake build, #print axioms audit), tied to /repo by translators and by differential correspondence through a compiled line-protocol driver",
        }],
        "checks": checks,
        "not_applicable": na,
        "notes": "See DESIGN.md. Exit codes: 0 held, 1 VIOLATION, 2 machinery/build problem (never a verdict).",
    }
    json.dump(man, open(os.path.join(HERE, "MANIFEST.json"), "w"), indent=1)
    print("claimed:", sorted(CLAIMED), "pending:", len(na))

if __name__ == "__main__":
    main()
