#!/usr/bin/env python3
"""seeded/README.md: table of the seeded changes and which check reported them."""
import json, os
V = os.path.dirname(os.path.dirname(os.path.abspath(__file__)))
rows = ["# Seeded changes", "",
        "Each directory holds one realistic breaking change written by an independent sub-agent that saw only the",
        "property text and a scratch worktree of pyunicorn (`patch.diff`, `demo.py` failing with / passing without the",
        "change, `meta.json`).  Confirmed by the lead in a scratch worktree (demo, full test suite), then applied to",
        "/repo, checked, and undone.", "",
        "| seed | property | what it changes | needs | tests still pass | check result |", "|---|---|---|---|---|---|"]
for d in sorted(os.listdir(os.path.join(V, "seeded"))):
    mp = os.path.join(V, "seeded", d, "meta.json")
    if not os.path.exists(mp):
        continue
    m = json.load(open(mp))
    c = m.get("confirmed_by_lead", {})
    res = []
    for cid, v in c.get("check_results", {}).items():
        viol = [l for l in v["lines"] if l.startswith("VIOLATION")]
        kind = "no VIOLATION (missed)" if v["exit"] == 0 else (
            "VIOLATION with replay" if any("no-failing-input-found" not in l for l in viol) else
            "VIOLATION no-failing-input-found") if v["exit"] == 1 else f"exit {v['exit']}"
        res.append(f"{cid}: {kind}")
    rows.append(f"| {d} | {m.get('breaks_property')} | {str(m.get('summary',''))[:160].replace('|','/')} | "
                f"{str(m.get('needs',''))[:140].replace('|','/')} | {c.get('test_suite_with_change','')[-40:].replace('|','/')} | {'; '.join(res)} |")
open(os.path.join(V, "seeded", "README.md"), "w").write("\n".join(rows) + "\n")
print(len(rows) - 9, "seeds")
