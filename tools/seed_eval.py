#!/usr/bin/env python3
"""Evaluate one seeded change (written by an independent sub-agent) against the checks.

usage: seed_eval.py <property-id> <dir with patch.diff demo.py meta.json> [--all-checks]

1. confirms the change in a scratch worktree of /repo (outside /repo and /verif):
   patch applies, demo.py exits 1 with it and 0 without it, the repository's test suite
   still passes with it;
2. applies it to /repo, runs ./check <id> (quick), records exit code / VIOLATION lines,
   and undoes it straight afterwards (git checkout -- .);
3. stores patch.diff, demo.py, meta.json (extended with what was run and observed) under
   /verif/seeded/<id>-<k>/.
"""
import json
import os
import shutil
import subprocess
import sys

VERIF = os.path.dirname(os.path.dirname(os.path.abspath(__file__)))
REPO = "/repo"
PY = "/venv/bin/python"
SCRATCH = "/tmp/seedwt"   # replaced per seed in main(): several evaluations may run in parallel


def sh(cmd, cwd=None, env=None, timeout=3600):
    r = subprocess.run(cmd, shell=True, cwd=cwd, env=env, stdout=subprocess.PIPE,
                       stderr=subprocess.STDOUT, text=True, timeout=timeout)
    return r.returncode, r.stdout


def main():
    global SCRATCH
    pid, d = sys.argv[1], sys.argv[2].rstrip("/")
    k = os.path.basename(d)
    SCRATCH = f"/tmp/seedwt-{pid}-{k}"
    on_repo = "--on-repo" in sys.argv      # run the checks against /repo itself (serial use only)
    patch = os.path.join(d, "patch.diff")
    demo = os.path.join(d, "demo.py")
    meta = json.load(open(os.path.join(d, "meta.json"))) if os.path.exists(os.path.join(d, "meta.json")) else {}
    res = {"property": pid, "seed": k}
    if not (os.path.exists(patch) and os.path.getsize(patch) > 0 and os.path.exists(demo)):
        print("incomplete seed:", d)
        return 2
    touches_ext = any(x in open(patch).read() for x in (".pyx", ".c b/", "src_numerics.c", ".pxd"))
    # ---- 1. confirm in a scratch worktree ---------------------------------------------
    sh(f"git -C {REPO} worktree remove --force {SCRATCH}")
    shutil.rmtree(SCRATCH, ignore_errors=True)
    rc, out = sh(f"git -C {REPO} worktree add -q --detach {SCRATCH} HEAD")
    # reuse the repo's compiled extensions (HEAD state)
    sh(f"for p in climate core funcnet timeseries; do cp {REPO}/src/pyunicorn/$p/_ext/*.so {SCRATCH}/src/pyunicorn/$p/_ext/; done")
    env = dict(os.environ, PYTHONPATH=f"{SCRATCH}/src", OMP_NUM_THREADS="1")
    rc0, out0 = sh(f"{PY} {demo}", cwd="/tmp", env=env, timeout=900)
    res["demo_without_change"] = rc0
    rc, out = sh(f"git -C {SCRATCH} apply {patch}")
    res["patch_applies"] = rc == 0
    if rc != 0:
        print("patch does not apply:", out[-500:])
        json.dump(res, open(os.path.join(d, "eval.json"), "w"), indent=1)
        return 2
    if touches_ext:
        rcb, outb = sh(f"{PY} setup.py build_ext --inplace -j8", cwd=SCRATCH)
        res["rebuild_rc"] = rcb
    rc1, out1 = sh(f"{PY} {demo}", cwd="/tmp", env=env, timeout=900)
    res["demo_with_change"] = rc1
    res["demo_output_with_change"] = out1[-600:]
    rct, outt = sh(f"{PY} -m pytest -q -p no:cacheprovider --timeout=900 -x --deselect "
                   f"tests/test_climate/test_map_plot.py 2>&1 | tail -3", cwd=SCRATCH, env=env,
                   timeout=3000)
    res["tests_tail"] = outt.strip()[-300:]
    res["tests_pass"] = (" failed" not in outt) and ("error" not in outt.lower().replace("1 error", "")) \
        and "passed" in outt
    if on_repo:
        sh(f"git -C {REPO} worktree remove --force {SCRATCH}")
        shutil.rmtree(SCRATCH, ignore_errors=True)
    confirmed = res["demo_without_change"] == 0 and res["demo_with_change"] not in (0,) and res["tests_pass"]
    res["confirmed"] = confirmed
    # ---- 2. run the check against it ---------------------------------------------------
    checks = [pid] + [a for a in sys.argv[3:] if a.startswith("C")]
    cenv = dict(os.environ, VERIF_EVIDENCE_DIR=f"/tmp/seed_evidence/{pid}-{k}")
    if on_repo:
        rc, out = sh(f"git -C {REPO} status --porcelain --untracked-files=no")
        if out.strip():
            print("REPO NOT CLEAN, aborting:", out)
            return 2
        rc, out = sh(f"git -C {REPO} apply {patch}")
    else:
        # the scratch worktree still has the change applied: point the harness at it
        # (same code path as /repo: harness/common.py REPO = $VERIF_REPO or /repo)
        cenv["VERIF_REPO"] = SCRATCH
    try:
        res["checks"] = {}
        for c in checks:
            rcc, outc = sh(f"./check {c}", cwd=VERIF, timeout=3000, env=cenv)
            viol = [l for l in outc.split("\n") if l.startswith("VIOLATION")][:4] + \
                [l for l in outc.split("\n") if l.startswith("  ->")][:5]
            res["checks"][c] = {"exit": rcc, "lines": viol,
                                "summary": [l for l in outc.split("\n") if l.startswith(f"[{c}]")][-1:]}
    finally:
        if on_repo:
            sh(f"git -C {REPO} checkout -- .")
        else:
            sh(f"{PY} -c \"from harness import common; common.drop_builds_for('{SCRATCH}')\"", cwd=VERIF)
            sh(f"git -C {REPO} worktree remove --force {SCRATCH}")
            shutil.rmtree(SCRATCH, ignore_errors=True)
    res["detected"] = any(v["exit"] == 1 for v in res["checks"].values())
    res["detected_with_replay"] = any(
        v["exit"] == 1 and any("no-failing-input-found" not in l for l in v["lines"] if l.startswith("VIOLATION"))
        for v in res["checks"].values())
    # ---- 3. store ----------------------------------------------------------------------
    if confirmed:
        dst = os.path.join(VERIF, "seeded", f"{pid}-{k}")
        os.makedirs(dst, exist_ok=True)
        shutil.copy(patch, os.path.join(dst, "patch.diff"))
        shutil.copy(demo, os.path.join(dst, "demo.py"))
        m = dict(meta)
        m.update({"breaks_property": pid, "confirmed_by_lead": {
            "demo_exit_with_change": res["demo_with_change"],
            "demo_exit_without_change": res["demo_without_change"],
            "test_suite_with_change": res["tests_tail"],
            "check_results": res["checks"], "detected": res["detected"],
            "detected_with_replay": res["detected_with_replay"]}})
        json.dump(m, open(os.path.join(dst, "meta.json"), "w"), indent=1)
    json.dump(res, open(os.path.join(d, "eval.json"), "w"), indent=1)
    print(json.dumps({k2: res[k2] for k2 in ("property", "seed", "confirmed", "demo_without_change",
                                             "demo_with_change", "tests_pass", "detected",
                                             "detected_with_replay")}))
    for c, v in res["checks"].items():
        print("   ", c, v["exit"], v["summary"], *(v["lines"][:3]))
    return 0


if __name__ == "__main__":
    sys.exit(main())
