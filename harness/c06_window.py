"""C06 round 5 — the window between a temporary in-place edit of a shared array and its restore.

static : translate/windows_C06.py -> `windows` of Generated/StructC06.lean; theorems
         `window_invisible`, `window_mask_invisible`, `window_diag_invisible`, `windows_preserve`,
         `windows_ok`, `restores_have_windows`, `generated_*_windows_invisible`.
tie    : every translated block is executed on real objects under `sys.settrace`; before every
         line of the method the content of the very object its local variable refers to (the
         lru-cached path-length matrix) is recorded.  The compiled model (driver request `wtrace`:
         `setMask` / `fillDiag` on the same integer content, steps of the generated table) must
         predict the content before every statement and at the return, exactly.  Every call the
         method frame makes into package code must be a `call` step of the statement it comes
         from (completeness of the translator's classification).
oracle : independent of the model — while the method runs, whenever any frame of package code
         starts (any depth) the shared array must hold its original content
         (`temporary-content-visible`), and it must hold it when the method returns or raises
         (`edit-left-behind`); the object must be the cached one.  Every case is run under the
         default numpy error state and under `np.errstate(all="raise")`, on networks that include
         zero-length links (`1 / path_lengths` divides by zero) and lengths near the largest double
         (the sums overflow), so that the computations inside the window do raise.
"""
import importlib
import sys

import numpy as np

from . import common
from .c01 import quiet

LETTER = {"mask": "m", "edit": "e", "restore": "r", "comp": "c", "call": "k", "exit": "x",
          "other": "o", "tryB": "t", "fin": "f", "tryE": "y"}


def code_of(cls, func):
    f = getattr(cls, func)
    while hasattr(f, "__wrapped__"):
        f = f.__wrapped__
    return getattr(f, "__code__", None)


def encode(a):
    """integer content with +inf coded as -1 (None if not representable)"""
    a = np.asarray(a, dtype=float)
    if a.ndim != 2 or np.isnan(a).any() or np.isneginf(a).any():
        return None
    fin = a[np.isfinite(a)]
    if np.any(fin != np.round(fin)) or np.any(fin < 0):
        return None
    return [[-1 if np.isinf(v) else int(v) for v in row] for row in a]


def flat(m):
    return ",".join(str(v) for row in m for v in row) or "-"


def mat(m):
    return ";".join(",".join(str(v) for v in row) for row in m)


def traced(obj, func, args, code, var):
    """run obj.func(*args); return (events, outcome).  events: ("line" | "return", lineno, content
    of the method's local `var`) and ("call", caller lineno, callee name, depth, content)"""
    events = []
    state = {"frame": None}

    def content():
        fr = state["frame"]
        v = fr.f_locals.get(var) if fr is not None else None
        return None if v is None else np.array(v, dtype=float, copy=True)

    def local(frame, event, arg):
        if event == "line":
            events.append(("line", frame.f_lineno, content()))
        elif event == "exception":
            events.append(("exception", frame.f_lineno, content()))
        elif event == "return":
            events.append(("return", frame.f_lineno, content()))
            state["done"] = True
        return local

    def tracer(frame, event, arg):
        if event != "call":
            return None
        if frame.f_code is code and state["frame"] is None:
            state["frame"] = frame
            return local
        if state["frame"] is not None and not state.get("done") and \
                "/pyunicorn/" in frame.f_code.co_filename.replace("\\", "/"):
            depth, fr = 0, frame
            while fr is not None and fr is not state["frame"]:
                fr = fr.f_back
                depth += 1
            if fr is state["frame"]:
                direct = frame.f_back is state["frame"]
                events.append(("call", state["frame"].f_lineno, frame.f_code.co_name,
                               1 if direct else depth, content()))
        return None

    old = sys.gettrace()
    outcome = ("ok", None)
    sys.settrace(tracer)
    try:
        try:
            res = getattr(obj, func)(*args)
            outcome = ("ok", res)
        except Exception as ex:  # noqa
            outcome = ("raised", f"{type(ex).__name__}: {ex}")
    finally:
        sys.settrace(old)
    held = None
    if state["frame"] is not None:
        held = state["frame"].f_locals.get(var)
    return events, outcome, held


def networks(ctx, quick):
    from pyunicorn.core import Network
    rng = ctx.rng
    for rep in range(10 if quick else 60):
        n = rng.choice([2, 3, 4, 5, 6, 7, 8]) if rep > 1 else 2 + rep
        directed = rng.random() < 0.3
        kind = rng.choice(["ring", "split", "random", "random", "hub", "sparse"])
        A = np.zeros((n, n), dtype=int)
        if kind in ("ring", "split"):
            for i in range(n):
                j = (i + 1) % n
                if kind == "split" and i in (n // 2 - 1, n - 1):
                    continue
                if i != j:
                    A[i, j] = 1
        elif kind == "hub":
            A[0, 1:] = 1
        else:
            p = 0.5 if kind == "random" else 0.15
            for i in range(n):
                for j in range(n):
                    if i != j and rng.random() < p:
                        A[i, j] = 1
        if not directed:
            A = ((A + A.T) > 0).astype(int)
        W = np.zeros((n, n))
        for i in range(n):
            for j in range(n):
                if A[i, j] and (directed or i < j):
                    W[i, j] = float(rng.choice([1, 1, 2, 3, 4, 5, n, n - 1 if n > 2 else 1]))
        if not directed:
            W = W + W.T
        extreme = rng.choice([None, None, "zero-length", "huge"])
        if extreme == "zero-length" and A.any():
            i, j = [tuple(e) for e in np.argwhere(A)][rng.randrange(int(A.sum()))]
            W[i, j] = 0.0
            if not directed:
                W[j, i] = 0.0
        elif extreme == "huge":
            W = np.where(A > 0, 8e307, 0.0)

        def mk(A=A, W=W, directed=directed):
            net = Network(adjacency=A.copy(), directed=directed, silence_level=3)
            if A.any():
                net.set_link_attribute("len", W.copy())
            return net
        yield {"n": n, "directed": directed, "kind": kind, "adjacency": A.tolist(),
               "lengths": W.tolist(), "has_links": bool(A.any()), "extreme": extreme}, mk


def window_tie(ctx, eff, quick):
    wins = eff.get("windows", [])
    # ---- the generated table as the compiled model sees it --------------------------------
    reqs = ["wok", "woffenders"] + [f'wsteps {w["site"]}' for w in wins]
    impl = ["1", "-"] + ["".join(LETTER[s["kind"]] for s in w["steps"]) for w in wins]
    ctx.correspond("window tables of the restored temporary edits pass the decidable check in the "
                   "compiled model; steps as regenerated", reqs, impl)
    restored = {f'{r["module"]}:{r["cls"]}.{r["func"]}:{r["var"]}' for r in eff["table"]
                if r["verdict"] == "restored"}
    ctx.obligation(f"every restored temporary edit has a translated block ({len(restored)} edited "
                   f"variables, {len(wins)} blocks)", "translator",
                   restored == {w["site"] for w in wins}, str(sorted(restored ^ {w["site"] for w in wins})))
    reqs, impl, missed, undriven = [], [], [], []
    rreqs, rimpl = [], []
    n_calls_seen = 0
    for w in wins:
        modname = "pyunicorn." + w["module"][:-3].replace("/", ".")
        try:
            cls = getattr(importlib.import_module(modname), w["cls"])
        except Exception:  # noqa
            cls = None
        code = code_of(cls, w["func"]) if cls is not None else None
        if cls is None or code is None or cls.__name__ != "Network":
            # a block in a class this driver has no recipe for: the static check still applies
            undriven.append(w["site"])
            ctx.count(f'window-not-driven:{w["site"]}')
            continue
        params = list(code.co_varnames[1:code.co_argcount])
        steps = w["steps"]
        stmts = []                      # (first step index, line, end) per statement, in order
        for i, s in enumerate(steps):
            if s.get("marker"):
                continue                # `try:` / `finally:` — no statement of their own
            if not stmts or (stmts[-1][1], stmts[-1][2]) != (s["line"], s["end"]):
                stmts.append((i, s["line"], s["end"]))
        for desc, mk in networks(ctx, quick):
            for arg, err in [(a, e) for a in (["len"] if desc["has_links"] else []) + [None]
                             for e in ("ignore", "raise")]:
                if params != ["link_attribute"]:
                    undriven.append(w["site"])
                    break
                net = quiet(mk)
                warm = ctx.rng.random() < 0.5
                if warm:            # the path lengths are already cached / are computed inside
                    try:
                        quiet(net.path_lengths, arg)
                    except Exception:  # noqa
                        pass
                with np.errstate(all=err):
                    events, outcome, held = quiet(traced, net, w["func"], [arg], code, w["var"])
                if outcome[0] == "raised":
                    ctx.count(f'window:{w["func"]}:raises-under-errstate-{err}:' + outcome[1].split(":")[0])
                lines = [e for e in events if e[0] == "line" and e[2] is not None]
                block_lines = [e for e in lines if any(a <= e[1] <= b for _, a, b in stmts)]
                key = f'{w["func"]}({"len" if arg else None})'
                if not block_lines or held is None:
                    ctx.count(f"window:{key}:block-not-entered")
                    continue
                x0 = lines[0][2]
                ctx.count(f"window:{key}:executed")
                ctx.count("window:path-lengths-" + ("cached-before" if warm else "computed-inside"))
                if np.isinf(x0).any():
                    ctx.count("window:content-has-inf")
                ctx.case(("window", w["site"], arg, err, desc["adjacency"], desc["lengths"]), True,
                         {"method": w["func"], "link_attribute": arg, "n": desc["n"],
                          "kind": desc["kind"], "directed": desc["directed"]})
                replay = dict(desc, method=w["func"], link_attribute=arg, site=w["site"],
                              numpy_errstate=err,
                              how="net = Network(adjacency, directed); net.set_link_attribute('len', "
                                  "lengths); net.<method>(link_attribute)")
                # ---- oracle (no model involved) ---------------------------------------------
                try:
                    cached = quiet(net.path_lengths, arg)
                except Exception:  # noqa
                    cached = None
                if cached is not None and cached is held:
                    ctx.count("window:edited-object-is-the-cached-one")
                for e in events:
                    if e[0] == "call" and e[4] is not None:
                        n_calls_seen += 1
                        if not np.array_equal(e[4], x0):
                            ctx.fail({"kind": "temporary-content-visible", "class": "Network",
                                      "method": w["func"], "callee": e[2]},
                                     f'Network.{w["func"]}: {e[2]}() runs (line {e[1]}) while the '
                                     f'cached path-length matrix holds a temporary content',
                                     dict(replay, callee=e[2], line=e[1]))
                            break
                final = np.array(held, dtype=float)
                if not np.array_equal(final, x0):
                    ctx.fail({"kind": "edit-left-behind", "class": "Network", "method": w["func"],
                              "outcome": outcome[0]},
                             f'Network.{w["func"]}({arg!r}) leaves the cached path-length matrix '
                             f'modified ({outcome[0]})', dict(replay, outcome=str(outcome[1])[:200]))
                # ---- completeness of the classification: calls into package code -------------
                for e in events:
                    if e[0] == "call" and e[3] == 1:
                        st = [i for i, a, b in stmts if a <= e[1] <= b]
                        if st and not any(s["kind"] == "call" and (s["line"], s["end"]) ==
                                          (steps[st[0]]["line"], steps[st[0]]["end"]) for s in steps):
                            missed.append(f'{w["site"]}: line {e[1]} calls {e[2]}()')
                # ---- model: content before every statement and at the end -------------------
                enc0 = encode(x0)
                try:
                    cval = eval(w["consts"][0], {"np": np, "numpy": np, "self": net})  # noqa
                    cval = -1 if np.isinf(cval) else int(cval)
                except Exception:  # noqa
                    cval = None
                if enc0 is not None and cval is not None and outcome[0] == "raised":
                    # the model run with the same statement raising: final content, control left
                    exc = [e for e in events if e[0] == "exception"]
                    ks = [k for k, s in enumerate(steps) if exc and not s.get("marker")
                          and s["line"] <= exc[0][1] <= s["end"] and s["kind"] in ("comp", "call", "exit")]
                    encf = encode(final)
                    if ks and encf is not None:
                        rreqs.append(f'wraise {w["site"]} {cval} {ks[0]} {mat(enc0)}')
                        rimpl.append(flat(encf) + "|1")
                        ctx.count(f"window:{key}:raising-run-compared")
                if enc0 is None or cval is None or outcome[0] != "ok":
                    ctx.count(f"window:{key}:not-encodable")
                    continue
                seen = {}
                for e in events:
                    if e[0] != "line":
                        continue
                    for i, a, b in stmts:
                        if a <= e[1] <= b and i not in seen:
                            # before the variable is bound the object is not yet in the method's
                            # hands: the cache (if it holds it) has the original content
                            seen[i] = x0 if e[2] is None else e[2]
                ret = [e for e in events if e[0] == "return"]
                if len(seen) != len(stmts) or not ret or ret[-1][2] is None:
                    ctx.count(f"window:{key}:statement-not-observed")
                    continue
                # the content changes only at an edit, which is the last step of its statement:
                # every step of a statement sees what the statement's first line saw
                out = []
                for k, s in enumerate(steps):
                    if s.get("marker"):
                        # a marker changes nothing: it sees what the next statement sees
                        nxt = [t for t in steps[k + 1:] if not t.get("marker")]
                        s = nxt[0] if nxt else None
                    if s is None:
                        content = ret[-1][2]
                    else:
                        first = [i for i, a, b in stmts if (a, b) == (s["line"], s["end"])][0]
                        content = seen[first]
                    enc = encode(content)
                    if enc is None:
                        out = None
                        break
                    out.append(flat(enc))
                encr = encode(ret[-1][2])
                if out is None or encr is None:
                    ctx.count(f"window:{key}:not-encodable")
                    continue
                reqs.append(f'wtrace {w["site"]} {cval} {mat(enc0)}')
                impl.append("|".join(out + [flat(encr)]))
    ctx.correspond("content of the cached array before every statement of the blocks with a "
                   "temporary edit, and at the return: compiled model (setMask / fillDiag over the "
                   "regenerated steps) = real execution traced line by line", reqs, impl)
    ctx.correspond("runs in which a computation inside the block raises: compiled model (the same "
                   "step raising) = real execution: content of the cached array afterwards, control "
                   "has left", rreqs, rimpl)
    ctx.obligation(f"every call into package code made from a block with a temporary edit is a "
                   f"`call` step of its statement ({n_calls_seen} package frames observed while the "
                   f"methods ran)", "correspondence", not missed, "\n".join(sorted(set(missed))[:8]))
    ctx.extra["windows"] = {"blocks": [w["site"] for w in wins], "not_driven": sorted(set(undriven)),
                            "traces_compared": len(reqs)}
