"""C16 — Event synchronisation / coincidence follow their counting rules.

proof  : lean/Pyunicorn/Properties/C16.lean about the model
         lean/Pyunicorn/Model/Events.lean of eventseries/event_series.py
tie    : exact correspondence (rational canonical forms) of the Lean model *and* of the Lean
         published formulas (esSpec / ecaFormula / ecaRateFormula) with
         `event_synchronization`, `event_coincidence_analysis`,
         `_eca_coincidence_rate`, `event_series_analysis` and
         `make_event_matrix` of the working tree; translate/arith_C16.json regenerates the
         source's guards / comparisons / count arithmetic / denominators into
         Generated/ArithC16.lean, the gen_* theorems state the model in terms of them
         round 4: the float64 strengths / ES matrices bit for bit (esf64, esmatf64: model sqrt53 +
         rn53), thresholding also through NumPy's own quantile / median algorithm (mkevnp);
         translate/gen_C16.py additionally regenerates the dtype / stores of the threshold array
         and the 'linear' quantile expressions of the installed NumPy
         round 5: the float arithmetic inside the ES counting (esfl: model esR rn53s, every
         operation on times rounded to double) bit for bit, also on time stamps whose sums /
         differences are not representable (stream `rounding`)
search : the published counting formulas as plain loops in `Fraction`, the
         range / exchange / shift / rescaling relations on the implementation,
         the N×N matrix against the static pairwise calls, thresholding against
         an independent quantile, long series (int16), EventSeriesClimateNetwork;
         round 5: the published ES double sum evaluated in IEEE double (es_formula_float) on the
         rounding stream, bit-identical power-of-two rescaling and exchange at lag 0 there
"""
import itertools
import math
import warnings
from fractions import Fraction as Fr

import numpy as np

from . import common  # noqa: F401

SYMMS_ES = ["directed", "symmetric", "antisym", "mean", "max", "min"]
SYMMS_ECA = ["directed", "mean", "max", "min"]
WINDOWS = ["advanced", "retarded", "symmetric"]


# --------------------------------------------------------------------------
# encoding / canonical forms
# --------------------------------------------------------------------------

def fr(x):
    if isinstance(x, Fr):
        return x
    if isinstance(x, np.floating):
        return Fr(float(x))
    if isinstance(x, np.integer):
        return Fr(int(x))
    return Fr(x)


def enc_rat(x):
    if x is None:
        return "none"
    if isinstance(x, float) and math.isinf(x):
        return "inf"
    f = fr(x)
    return str(f.numerator) if f.denominator == 1 else f"{f.numerator}/{f.denominator}"


def enc_rats(xs):
    return ",".join(enc_rat(x) for x in xs) or "-"


def enc_bools(xs):
    return ",".join(str(int(bool(x))) for x in xs) or "-"


def enc_mat(M, enc=enc_bools):
    return ";".join(enc(r) for r in M) or "-"


def canon_rate(v, tol=3e-7, den=900):
    """float (float32 precision) -> canonical small rational string.  Rates are k/d with
    d <= T <= 20, their `mean` has a denominator <= 2*20*20; two fractions with denominators
    <= 900 differ by > 1.2e-6, float32 rounding of a value <= 1 is < 1.3e-7."""
    v = float(v)
    if math.isnan(v):
        return "nan"
    if math.isinf(v):
        return "inf"
    f = Fr(v).limit_denominator(den)
    if abs(float(f) - v) > tol:
        return repr(v)
    return enc_rat(f)


def canon_sq(v, tol=1e-9, den=40000):
    """float v = c/sqrt(n) -> canonical string of sign(v)·v² (a small rational)"""
    v = float(v)
    if math.isnan(v):
        return "nan"
    w = v * abs(v)
    f = Fr(w).limit_denominator(den)
    if abs(float(f) - w) > tol:
        return repr(v)
    return enc_rat(f)


def exact_f32(v):
    """a float32 result as the exact rational it is (`-0.0` is 0); anything that is not a
    float32 scalar is shown as it is, so that it cannot match the model"""
    if not isinstance(v, np.float32):
        return f"not-float32:{type(v).__name__}:{v!r}"
    if math.isnan(float(v)):
        return "nan"
    if math.isinf(float(v)):
        return repr(float(v))
    return enc_rat(Fr(float(v)))


def exact_f64(v):
    v = float(v)
    if math.isinf(v):
        return repr(v)
    return "nan" if math.isnan(v) else enc_rat(Fr(v))


def show_fr(f):
    return "nan" if f is None else enc_rat(f)


def call(f):
    with warnings.catch_warnings():
        warnings.simplefilter("ignore")
        with np.errstate(all="ignore"):
            try:
                return f()
            except Exception as e:  # noqa
                return e


# --------------------------------------------------------------------------
# oracles: published counting formulas as plain loops over event times
# --------------------------------------------------------------------------

def es_formula(tx, ty, taumax, lag):
    """[Quiroga2002] / [Odenweller2020]: c(x|y) = sum_ij J_ij over inner events,
    J = 1 if 0 < tx_i - ty_j <= tau_ij, 1/2 if tx_i == ty_j; tau_ij = half the
    smallest of the four neighbouring waiting times, at most taumax; a pair one
    of whose events also takes part in a pair of the other direction counts 1/2.
    Returns (Qxy², Qyx²) as Fractions, None for NaN."""
    tx = [fr(t) for t in tx]
    ty = [fr(t) + fr(lag) for t in ty]
    lx, ly = len(tx), len(ty)
    if lx == 0 or ly == 0:
        return None, None
    if lx <= 2 or ly <= 2:
        return Fr(0), Fr(0)
    xy, yx, same = [], [], 0
    for i in range(1, lx - 1):
        for j in range(1, ly - 1):
            tau = min(tx[i + 1] - tx[i], tx[i] - tx[i - 1],
                      ty[j + 1] - ty[j], ty[j] - ty[j - 1]) / 2
            if not (isinstance(taumax, float) and math.isinf(taumax)):
                tau = min(tau, fr(taumax))
            d = tx[i] - ty[j]
            if d == 0:
                same += 1
            elif 0 < d <= tau:
                xy.append((i, j))
            elif 0 < -d <= tau:
                yx.append((i, j))

    def strength(mine, other):
        oi = {i for i, _ in other}
        oj = {j for _, j in other}
        c = Fr(same, 2)
        for i, j in mine:
            c += Fr(1, 2) if (i in oi or j in oj) else 1
        return c * c / ((lx - 2) * (ly - 2))
    return strength(xy, yx), strength(yx, xy)


def es_formula_float(tx, ty, taumax, lag):
    """the same published double sum evaluated in IEEE double (Python floats), every operation on
    times in the order the paper writes it: t_y + lag, t_x - t_y, the four waiting times, their
    minimum halved (exact), `0 < d <= tau`.  Independent of the Lean model and of the vectorised
    code; agrees with `es_formula` whenever no operation rounds.  Returns the pair of doubles
    (count / sqrt(norm), Python's correctly rounded math.sqrt and /)."""
    tx = [float(t) for t in tx]
    ty = [float(t) + float(lag) for t in ty]
    lx, ly = len(tx), len(ty)
    if lx == 0 or ly == 0:
        return float("nan"), float("nan")
    if lx <= 2 or ly <= 2:
        return 0.0, 0.0
    xy, yx, same = [], [], 0
    for i in range(1, lx - 1):
        for j in range(1, ly - 1):
            tau = min(tx[i + 1] - tx[i], tx[i] - tx[i - 1],
                      ty[j + 1] - ty[j], ty[j] - ty[j - 1]) / 2
            tau = min(tau, float(taumax))
            d = tx[i] - ty[j]
            if d == 0:
                same += 1
            elif 0 < d <= tau:
                xy.append((i, j))
            elif 0 < -d <= tau:
                yx.append((i, j))

    def strength(mine, other):
        oi = {i for i, _ in other}
        oj = {j for _, j in other}
        c = 0.5 * same
        for i, j in mine:
            c += 0.5 if (i in oi or j in oj) else 1.0
        return c / math.sqrt((lx - 2) * (ly - 2))
    return strength(xy, yx), strength(yx, xy)


def eca_formula(t1, t2, taumax, lag, window=None):
    """[Odenweller2020] coincidence rates, r = (1/(N - n)) sum_i Theta[sum_j 1_[dT1,dT2](…)],
    boundary events excluded by their *times*.  window None: the four rates of
    `event_coincidence_analysis`; else the pair of `_eca_coincidence_rate`.
    A rate is a Fraction or None (NaN); returns 'raise' for an empty series."""
    t1 = [fr(t) for t in t1]
    t2 = [fr(t) for t in t2]
    taumax, lag = fr(taumax), fr(lag)
    if not t1 or not t2:
        return "raise"
    inst = (lag == 0 and taumax == 0)

    def early(ts, t):
        return (not inst) and t <= ts[0] + lag + taumax

    def late(ts, t):
        return (not inst) and t >= ts[-1] - lag - taumax

    def frac(flags, excluded):
        # code's normalisation: N - n_start - n_end (the two sets may overlap)
        den = len(flags) - sum(excluded)
        if den == 0:
            return None
        return Fr(sum(1 for f, e in zip(flags, excluded) if f and not e), den)

    lo = -taumax if window == "symmetric" else Fr(0)

    def follows(a, bs):     # a has a b in its window: lo <= a - b - lag <= taumax
        return any(lo <= a - b - lag <= taumax for b in bs)

    def followed(b, as_):   # b lies in the window of some a
        return any(lo <= a - b - lag <= taumax for a in as_)

    if window == "symmetric":
        out = []
        for a, b in ((t1, t2), (t2, t1)):
            ns = sum(early(a, t) for t in a)
            ne = sum(late(a, t) for t in a)
            den = len(a) - ns - ne
            if den == 0:
                out.append(None)
            elif den < 0:
                out.append(Fr(0))
            else:
                out.append(Fr(sum(1 for t in a if not early(a, t) and not late(a, t)
                                  and follows(t, b)), den))
        return tuple(out)
    p12 = frac([follows(t, t2) for t in t1], [early(t1, t) for t in t1])
    g12 = frac([followed(t, t1) for t in t2], [late(t2, t) for t in t2])
    p21 = frac([follows(t, t1) for t in t2], [early(t2, t) for t in t2])
    g21 = frac([followed(t, t2) for t in t1], [late(t1, t) for t in t1])
    if window == "advanced":
        return p12, p21
    if window == "retarded":
        return g12, g21
    return p12, g12, p21, g21


def symm_formula(s, a, b):
    """entry [i,j] from a = D[i,j], b = D[j,i] (floats, NaN propagates)"""
    if s == "directed":
        return a
    if math.isnan(a) or math.isnan(b):
        return float("nan")
    return {"symmetric": a + b, "antisym": a - b, "mean": (a + b) / 2,
            "max": max(a, b), "min": min(a, b)}[s]


def quantile_formula(col, q):
    """Hyndman–Fan type 7 (NumPy's default 'linear') in exact arithmetic"""
    s = sorted(fr(x) for x in col)
    h = (len(s) - 1) * fr(q)
    lo = math.floor(h)
    hi = min(lo + 1, len(s) - 1)
    return s[lo] + (s[hi] - s[lo]) * (h - lo)


# --------------------------------------------------------------------------
# generators
# --------------------------------------------------------------------------

TAUS = [np.inf, 0.0, 0.5, 1.0, 1.5, 2.0, 3.0, 5.0]
LAGS = [0.0, 0.0, 0.5, -0.5, 1.0, -1.0, 2.0, -1.5]
# wide parameter ranges (rare draws): windows far below / above every gap, lags beyond the record
TAUS_WIDE = [2.0 ** -10, 2.0 ** -4, 64.0, 2048.0, np.inf]
LAGS_WIDE = [0.0, 2.0 ** -10, -(2.0 ** -4), 100.0, -64.0, 4096.0]
# extreme-but-exact changes of the time unit
SCALES = [0.5, 2.0, 3.0, 8.0, 2.0 ** -34, 2.0 ** -20, 2.0 ** 30]
X_DTYPES = ["int", "int", "bool", "int8", "float"]


def gen_timestamps(rng, T):
    kind = rng.choice(["index", "index", "quarter", "irregular", "offset", "wide"])
    if kind == "index":
        return None, kind
    if kind == "wide":
        # gaps spread over 20 binary orders of magnitude
        t, out = rng.choice([0.0, -1024.0]), []
        for _ in range(T):
            out.append(t)
            t += rng.choice([2.0 ** -10, 2.0 ** -3, 1.0, 1.0, 32.0, 1024.0])
        return out, kind
    if kind == "offset":
        o = rng.choice([-7.0, 3.5, 100.0])
        return [o + i for i in range(T)], kind
    if kind == "quarter":
        return [i * 0.25 for i in range(T)], kind
    t, out = rng.choice([0.0, -2.0, 10.0]), []
    for _ in range(T):
        out.append(t)
        t += rng.choice([0.25, 0.5, 1.0, 1.0, 1.5, 2.0, 4.0])
    return out, kind


def gen_series(rng, T):
    kind = rng.choice(["bern", "bern", "fewevents", "dense", "ends", "copy", "full"])
    if kind == "full":
        return [1] * T
    if kind == "fewevents":
        k = rng.randrange(0, 4)
        idx = set(rng.sample(range(T), min(k, T)))
        return [int(i in idx) for i in range(T)]
    if kind == "dense":
        return [int(rng.random() < 0.8) for _ in range(T)]
    p = rng.choice([0.3, 0.5, 0.6])
    x = [int(rng.random() < p) for _ in range(T)]
    if kind == "ends" and T >= 2:
        x[0] = x[-1] = 1
    return x


def gen_pair(rng, T):
    x = gen_series(rng, T)
    if rng.random() < 0.2:
        # simultaneous / shifted copies provoke ties and double counts
        k = rng.choice([0, 0, 1, 2])
        y = ([0] * k + x)[:T]
        for _ in range(rng.randrange(0, 3)):
            y[rng.randrange(T)] ^= 1
    else:
        y = gen_series(rng, T)
    return x, y


# --------------------------------------------------------------------------

def run(ctx):
    from pyunicorn.eventseries import EventSeries
    rng = ctx.rng
    quick = ctx.tier == "quick"
    ctx.rule = ("pair level: all pairs of binary series on "
                f"{'6' if quick else '8'} slots (default options) + random pairs on 3-16 slots with "
                "index / offset / quarter / irregular / wide (gaps 2^-10..2^10) dyadic timestamps given as "
                "float64 / float32 / int64 arrays, event series as int / bool / int8 / float arrays, "
                "taumax in {inf,0,.5,...,5} or wide {2^-10,2^-4,64,2048}, lag in {0,+-.5,+-1,2,-1.5} or "
                "wide {2^-10,-2^-4,100,-64,4096}; each request answered by the Lean model and by the Lean "
                "published formula and (ES) by the rounded model esFl; stream `rounding`: ES on time stamps "
                "0.1*i, i/3, i/7, random doubles, offsets 1e6..2^52, cumulative sums, int64 indices with "
                "non-representable lags, float32 arrays, dense tie-rich series — esFl bit for bit; matrix level: EventSeries objects N=1..6, T<=20 x all symmetrisations / "
                "windows, default arguments, multi-step histories; thresholding: float64 (incl. values needing 30+ bits) / "
                "float32 / int64..int8 / uint8 / uint16 data x "
                "quantiles k/8, k/16 / values / types / defaults, scalar / array / list parameters, static "
                "call and constructor (both axis orders); distinct = distinct canonical request; non-trivial "
                "= both series have >= 3 events (ES) / >= 1 event (ECA) / data not constant (thresholding)")
    ctx.assumptions = [
        "event times / time stamps strictly increasing; event matrices binary",
        "correspondence inputs of the pair / matrix / threshold streams are dyadic rationals (theorem "
        "es_float_lattice: on such data the float path of event_synchronization is the exact model; for ECA "
        "exactness of the float operations on dyadic data is still assumed); on the `rounding` stream the "
        "operations on times do round and the rounded model esFl (rn53s: round to nearest even, no sub-normals "
        "/ overflow; placement of the roundings modelled by hand from dtype='float') is compared bit for bit; "
        "float results compared as canonical small rationals under tolerance 1e-9 (ES, squared) / 3e-7 "
        "(ECA, float32) and, in separate requests, bit for bit (esf64 / esmatf64 / ecaf32 / ecamatf32)",
        "float64 strengths: np.sqrt and / are correctly rounded (IEEE 754); the model's sqrt53 (double nearest "
        "to sqrt n, from the integer square root of n*4^54) and rn53 are compared bit for bit with the "
        "implementation; the float-level [0,1] theorem (es_f64_range) needs (lx-2)(ly-2) <= 2^48; the "
        "real-number theorems (es_strength_range, esSymmOp_value) remain",
        "np.quantile / np.median are modelled from the installed NumPy's source (regenerated by "
        "translate/gen_C16.py, theorem np_quantile_is_model); partition is modelled as a sort; NumPy's float "
        "_lerp is exact on the dyadic generator data; integer data are compared with float64 thresholds after "
        "conversion to float64 (exact below 2^53)",
        "event_series_analysis(method='ES', symmetrization='directed') returns the memoised matrix itself "
        "(the library's convention for cached results); histories in which the *caller* writes into a returned "
        "array are outside the statement, histories in which the *library* does are checked (theorem "
        "es_history_independent, held-array oracle)",
        "float32 rates: the model's rn24 (round to nearest even, 24-bit significand, normal range) is "
        "compared bit for bit with the implementation's np.float32 quotient",
    ]
    ctx.proofs()
    ES = EventSeries

    def ts_arr(ts, T, dtype=float):
        return None if ts is None else np.array(ts, dtype=dtype)

    def ts_dtype(ts, kind):
        """caller arrays in both float widths / as integers where every value is exact"""
        if ts is None or kind == "wide":
            return float
        c = [float]
        if all(abs(v) < 2048 for v in ts):
            c += [np.float32, np.float32]
        if all(float(v).is_integer() for v in ts):
            c.append(np.int64)
        return rng.choice(c)

    def x_arr(x, dt):
        a = np.array(x, dtype={"int": int, "bool": bool, "int8": np.int8, "float": float}[dt])
        return relayout(a)

    def relayout(a):
        """the same values behind a non-contiguous view (every other element of a longer
        buffer / a reversed buffer read backwards)"""
        if a is None or a.ndim != 1 or rng.random() >= 0.25:
            return a
        if rng.random() < 0.5:
            v = np.repeat(a, 2)[::2]
            ctx.count("layout:strided")
        else:
            v = np.ascontiguousarray(a[::-1])[::-1]
            ctx.count("layout:negative-stride")
        assert np.array_equal(v, a)
        return v

    def ts_enc(ts, T):
        return enc_rats(range(T)) if ts is None else enc_rats(ts)

    def times(ts, b):
        return [(i if ts is None else ts[i]) for i, v in enumerate(b) if v]

    # ------------------------------------------------------------------
    # pair level: ES / ECA / _eca_coincidence_rate
    # ------------------------------------------------------------------
    cases = []
    Tex = 6 if quick else 8
    vecs = list(itertools.product([0, 1], repeat=Tex))
    if quick:
        pairs = [(x, y) for x in vecs for y in vecs if sum(x) >= 3 and sum(y) >= 3]
        pairs += [(x, y) for x in vecs for y in vecs
                  if (sum(x) < 3 or sum(y) < 3) and rng.random() < 0.15]
    else:
        pairs = [(x, y) for x in vecs for y in vecs if rng.random() < 0.6]
    for x, y in pairs:
        cases.append((list(x), list(y), None, None, float("inf"), 0.0, "exhaustive"))
    for _ in range(6000 if quick else 100000):
        T = rng.choice([3, 4, 5, 6, 7, 8, 9, 10, 12, 14, 16])
        x, y = gen_pair(rng, T)
        ts1, k1 = gen_timestamps(rng, T)
        ts2 = ts1
        if rng.random() < 0.15:
            ts2, k2 = gen_timestamps(rng, T)
            if "wide" in (k1, k2):
                k1 = "wide"
        wide = k1 == "wide" or rng.random() < 0.06
        cases.append((x, y, ts1, ts2, rng.choice(TAUS_WIDE if wide else TAUS),
                      rng.choice(LAGS_WIDE if wide else LAGS), k1))

    reqs, impl, meta = [], [], []
    for (x, y, ts1, ts2, tm, lag, kind) in cases:
        T = len(x)
        xdt = "int" if kind == "exhaustive" else rng.choice(X_DTYPES)
        ax, ay = x_arr(x, xdt), x_arr(y, xdt)
        tdt = float if kind == "exhaustive" else ts_dtype(
            (ts1 or []) + (ts2 or []) if (ts1 or ts2) else None, kind)
        a1, a2 = relayout(ts_arr(ts1, T, tdt)), relayout(ts_arr(ts2, T, tdt))
        held = [v.copy() for v in (ax, ay)] + [None if v is None else v.copy() for v in (a1, a2)]
        ctx.count(f"dtype:x={xdt}")
        if ts1 is not None:
            ctx.count(f"dtype:ts={np.dtype(tdt).name}")
        e1, e2 = ts_enc(ts1, T), ts_enc(ts2, T)
        tx, ty = times(ts1, x), times(ts2, y)
        nx, ny = sum(x), sum(y)
        ctx.count(f"ts:{kind}")
        ctx.count(f"events:{min(nx, 4)}{'+' if nx >= 4 else ''}/{min(ny, 4)}{'+' if ny >= 4 else ''}")
        ctx.count(f"taumax={tm}")
        ctx.count("lag=0" if lag == 0 else "lag!=0")

        # ---- ES -------------------------------------------------------
        r = call(lambda: ES.event_synchronization(ax, ay, ts1=a1, ts2=a2, taumax=tm, lag=lag))
        req = f"es {e1} {enc_bools(x)} {e2} {enc_bools(y)} {enc_rat(tm)} {enc_rat(lag)}"
        got = "raise:" + type(r).__name__ if isinstance(r, Exception) else \
            ",".join(canon_sq(v) for v in r)
        reqs.append(req)
        impl.append(got)
        # the index-wise published formula evaluated by the Lean side (theorem es_eq_formula)
        reqs.append("esformula" + req[2:])
        impl.append(got)
        # round 4: the two doubles bit for bit (model: correctly rounded sqrt and division)
        reqs.append("esf64" + req[2:])
        impl.append("raise:" + type(r).__name__ if isinstance(r, Exception)
                    else ",".join(exact_f64(v) for v in r))
        # round 5: the model with every operation on times rounded to double (`esFl`); on the
        # dyadic data of this stream no operation rounds (theorem es_float_lattice)
        reqs.append("esfl" + req[2:])
        impl.append(impl[-1])
        meta.append(("es", x, y, ts1, ts2, tm, lag))
        ctx.case(req, nx >= 3 and ny >= 3,
                 {"call": "event_synchronization", "x": x, "y": y, "ts1": ts1, "ts2": ts2,
                  "taumax": tm, "lag": lag, "result": got} if T <= 8 else None)
        rep = {"call": "event_synchronization", "x": x, "y": y, "ts1": ts1, "ts2": ts2,
               "taumax": tm, "lag": lag, "observed": got}
        exp = ",".join(show_fr(v) for v in es_formula(tx, ty, tm, lag))
        if got != exp:
            ctx.fail({"kind": "formula", "method": "event_synchronization"},
                     f"event_synchronization = {got}, counting formula gives (squared) {exp}",
                     dict(rep, expected_squared=exp))
        if not isinstance(r, Exception):
            for v in r:
                if not math.isnan(v) and not (-1e-12 <= v <= 1 + 1e-12):
                    ctx.fail({"kind": "range", "method": "event_synchronization"},
                             f"event synchronisation strength {v} outside [0,1]", rep)
            # exchange: ES(y, x, -lag) is the swapped pair
            r2 = call(lambda: ES.event_synchronization(ay, ax, ts1=a2, ts2=a1, taumax=tm, lag=-lag))
            g2 = "raise" if isinstance(r2, Exception) else ",".join(canon_sq(v) for v in r2[::-1])
            if g2 != got:
                ctx.fail({"kind": "exchange", "method": "event_synchronization"},
                         f"ES(x,y,lag) = {got} but ES(y,x,-lag) reversed = {g2}", rep)
            # shift of both time axes
            c = rng.choice([-3.0, 0.25, 17.0, 1024.5])
            if tdt is np.int64:
                c = float(int(c)) or 5.0
            s1 = np.arange(T, dtype=float) + c if a1 is None else a1 + a1.dtype.type(c)
            s2 = np.arange(T, dtype=float) + c if a2 is None else a2 + a2.dtype.type(c)
            r3 = call(lambda: ES.event_synchronization(ax, ay, ts1=s1, ts2=s2, taumax=tm, lag=lag))
            g3 = "raise" if isinstance(r3, Exception) else ",".join(canon_sq(v) for v in r3)
            if g3 != got:
                ctx.fail({"kind": "shift", "method": "event_synchronization"},
                         f"ES changes under a common time shift {c}: {got} -> {g3}", dict(rep, shift=c))
            if math.isinf(tm) or rng.random() < 0.5:
                # change of the time unit (incl. extreme power-of-two units: an absolute
                # tolerance anywhere in the distance tests would show here); a finite window is
                # rescaled with the unit (theorems es_scale / es_scale_window)
                k = rng.choice(SCALES)
                f1 = np.arange(T, dtype=float) if a1 is None else a1.astype(float)
                f2 = np.arange(T, dtype=float) if a2 is None else a2.astype(float)
                s1, s2 = f1 * k, f2 * k
                if tdt is np.float32 and k >= 2.0 ** -34:
                    s1, s2 = s1.astype(np.float32), s2.astype(np.float32)
                r4 = call(lambda: ES.event_synchronization(ax, ay, ts1=s1, ts2=s2, taumax=tm * k,
                                                           lag=lag * k))
                g4 = "raise" if isinstance(r4, Exception) else ",".join(canon_sq(v) for v in r4)
                if g4 != got:
                    ctx.fail({"kind": "scale", "method": "event_synchronization"},
                             f"ES (taumax={tm}) changes under rescaling of time"
                             f"{'' if math.isinf(tm) else ' and window'} by {k}: {got} -> {g4}",
                             dict(rep, scale=k))
            # positional call, as documented: (x, y, ts1, ts2, taumax, lag)
            if rng.random() < 0.2:
                r5 = call(lambda: ES.event_synchronization(ax, ay, a1, a2, tm, lag))
                g5 = "raise" if isinstance(r5, Exception) else ",".join(canon_sq(v) for v in r5)
                if g5 != got:
                    ctx.fail({"kind": "positional", "method": "event_synchronization"},
                             f"positional call differs from keyword call: {g5} vs {got}", rep)

        def untouched(where):
            for nm, now, was in zip(("x", "y", "ts1", "ts2"), (ax, ay, a1, a2), held):
                if was is not None and not np.array_equal(now, was):
                    ctx.fail({"kind": "caller-array-modified", "method": where, "array": nm},
                             f"{where} modified the caller's array {nm}", rep)
        untouched("event_synchronization")

        # ---- ECA (finite taumax only) -----------------------------------
        if math.isinf(tm):
            continue
        empty = nx == 0 or ny == 0
        if empty and lag == 0 and tm == 0:
            continue       # outside the modelled domain (see design/C16.md)
        r = call(lambda: ES.event_coincidence_analysis(ax, ay, tm, ts1=a1, ts2=a2, lag=lag))
        req = f"eca {e1} {enc_bools(x)} {e2} {enc_bools(y)} {enc_rat(tm)} {enc_rat(lag)}"
        got = "raise" if isinstance(r, Exception) else ",".join(canon_rate(v) for v in r)
        reqs.append(req)
        impl.append(got)
        # time-wise formula (theorem eca_eq_formula)
        reqs.append("ecaformula" + req[3:])
        impl.append(got)
        # the float32 quotients bit for bit (model: rn24 of the exact rate; no tolerance)
        reqs.append("ecaf32" + req[3:])
        impl.append("raise" if isinstance(r, Exception) else ",".join(exact_f32(v) for v in r))
        meta.append(("eca", x, y, ts1, ts2, tm, lag))
        ctx.case(req, not empty,
                 {"call": "event_coincidence_analysis", "x": x, "y": y, "ts1": ts1, "ts2": ts2,
                  "taumax": tm, "lag": lag, "result": got} if T <= 8 else None)
        rep = {"call": "event_coincidence_analysis", "x": x, "y": y, "ts1": ts1, "ts2": ts2,
               "taumax": tm, "lag": lag, "observed": got}
        o = eca_formula(tx, ty, tm, lag)
        exp = o if o == "raise" else ",".join(show_fr(v) for v in o)
        if got != exp and not (empty and got == "raise"):
            ctx.fail({"kind": "formula", "method": "event_coincidence_analysis"},
                     f"event_coincidence_analysis = {got}, counting formula gives {exp}",
                     dict(rep, expected=exp))
        if not isinstance(r, Exception):
            for v in r:
                if not math.isnan(v) and not (0 <= v <= 1):
                    ctx.fail({"kind": "range", "method": "event_coincidence_analysis"},
                             f"coincidence rate {v} outside [0,1]", rep)
            r2 = call(lambda: ES.event_coincidence_analysis(ay, ax, tm, ts1=a2, ts2=a1, lag=lag))
            g2 = "raise" if isinstance(r2, Exception) else \
                ",".join(canon_rate(v) for v in (r2[2], r2[3], r2[0], r2[1]))
            if g2 != got:
                ctx.fail({"kind": "exchange", "method": "event_coincidence_analysis"},
                         f"ECA(x,y) = {got} but ECA(y,x) with directions swapped = {g2}", rep)
            c = rng.choice([-3.0, 0.25, 17.0])
            if tdt is np.int64:
                c = float(int(c)) or 5.0
            s1 = np.arange(T, dtype=float) + c if a1 is None else a1 + a1.dtype.type(c)
            s2 = np.arange(T, dtype=float) + c if a2 is None else a2 + a2.dtype.type(c)
            r3 = call(lambda: ES.event_coincidence_analysis(ax, ay, tm, ts1=s1, ts2=s2, lag=lag))
            g3 = "raise" if isinstance(r3, Exception) else ",".join(canon_rate(v) for v in r3)
            if g3 != got:
                ctx.fail({"kind": "shift", "method": "event_coincidence_analysis"},
                         f"ECA changes under a common time shift {c}: {got} -> {g3}", dict(rep, shift=c))
            # change of the time unit, window and lag rescaled with it (theorem eca_affine)
            k = rng.choice(SCALES)
            f1 = np.arange(T, dtype=float) if a1 is None else a1.astype(float)
            f2 = np.arange(T, dtype=float) if a2 is None else a2.astype(float)
            r4 = call(lambda: ES.event_coincidence_analysis(ax, ay, tm * k, ts1=f1 * k, ts2=f2 * k,
                                                            lag=lag * k))
            g4 = "raise" if isinstance(r4, Exception) else ",".join(canon_rate(v) for v in r4)
            if g4 != got:
                ctx.fail({"kind": "scale", "method": "event_coincidence_analysis"},
                         f"ECA changes under rescaling of time, window and lag by {k}: {got} -> {g4}",
                         dict(rep, scale=k))

        untouched("event_coincidence_analysis")

        # ---- _eca_coincidence_rate (object with taumax / lag) ----------
        if empty:
            continue
        w = rng.choice(WINDOWS)
        obj = ES(np.array([[0, 1], [1, 0]]), taumax=tm, lag=lag)
        r = call(lambda: obj._eca_coincidence_rate(ax, ay, window_type=w, ts1=a1, ts2=a2))
        req = f"ecarate {w} {e1} {enc_bools(x)} {e2} {enc_bools(y)} {enc_rat(tm)} {enc_rat(lag)}"
        got = "raise" if isinstance(r, Exception) else ",".join(canon_rate(v) for v in r)
        reqs.append(req)
        impl.append(got)
        reqs.append("ecarateformula" + req[7:])
        impl.append(got)
        reqs.append("ecaratef32" + req[7:])
        impl.append("raise" if isinstance(r, Exception) else ",".join(exact_f32(v) for v in r))
        meta.append(("ecarate", w, x, y, ts1, ts2, tm, lag))
        ctx.case(req, True)
        ctx.count(f"window:{w}")
        rep = {"call": "_eca_coincidence_rate", "window_type": w, "x": x, "y": y, "ts1": ts1,
               "ts2": ts2, "taumax": tm, "lag": lag, "observed": got}
        o = eca_formula(tx, ty, tm, lag, window=w)
        exp = ",".join(show_fr(v) for v in o)
        if got != exp:
            ctx.fail({"kind": "formula", "method": "_eca_coincidence_rate", "window_type": w},
                     f"_eca_coincidence_rate({w}) = {got}, counting formula gives {exp}",
                     dict(rep, expected=exp))
        if not isinstance(r, Exception):
            for v in r:
                if not math.isnan(v) and not (0 <= v <= 1):
                    ctx.fail({"kind": "range", "method": "_eca_coincidence_rate", "window_type": w},
                             f"coincidence rate {v} outside [0,1]", rep)
            r2 = call(lambda: obj._eca_coincidence_rate(ay, ax, window_type=w, ts1=a2, ts2=a1))
            g2 = "raise" if isinstance(r2, Exception) else ",".join(canon_rate(v) for v in r2[::-1])
            if g2 != got:
                ctx.fail({"kind": "exchange", "method": "_eca_coincidence_rate", "window_type": w},
                         f"rate({w})(x,y) = {got} but (y,x) reversed = {g2}", rep)
    ctx.correspond("Lean Events model (es/eca/ecaRate) and Lean published formulas "
                   "(esSpec/ecaFormula/ecaRateFormula) == event_synchronization / "
                   "event_coincidence_analysis / _eca_coincidence_rate", reqs, impl)
    ctx.extra["pair_calls_compared"] = len(reqs)

    # ------------------------------------------------------------------
    # round 5: time stamps whose sums / differences are NOT representable — the float
    # operations inside the counting (`ey + lag`, `ex - ey`, `np.diff`) round, and decisions
    # `dstxy2 <= tau2` hinge on the rounding.  Model: `esFl` (= esSeriesR rn53s), bit for bit.
    # Oracle: the published double sum in IEEE double, operation order of the paper.
    # ------------------------------------------------------------------
    def gen_rounding_ts(T):
        kind = rng.choice(["tenths", "tenths", "thirds", "sevenths", "random", "offset", "bigoffset",
                           "cumsum", "index", "f32"])
        if kind == "index":
            # no time stamps: int64 event indices, `ey + lag` is the first float operation
            return None, kind
        if kind == "f32":
            # a float32 caller array (converted exactly by dtype='float'); steps of float32(0.1)
            st = np.float32(rng.choice([0.1, 0.3, 1.0 / 3.0]))
            return [float(np.float32(i) * st) for i in range(T)], kind
        if kind == "tenths":
            o = rng.choice([0.0, 0.0, 0.3, 100.0])
            return [o + 0.1 * i for i in range(T)], kind
        if kind == "thirds":
            return [i / 3.0 for i in range(T)], kind
        if kind == "sevenths":
            o = rng.choice([0.0, 1e3])
            return [o + i / 7.0 for i in range(T)], kind
        if kind == "random":
            return sorted(rng.random() * rng.choice([1.0, 64.0]) for _ in range(T)), kind
        if kind == "offset":
            o = rng.choice([1e6, 2.0 ** 30 + 0.1, 1e9])
            return [o + 0.3 * i for i in range(T)], kind
        if kind == "bigoffset":
            # ulp 0.125 .. 2: most of a step of 0.7 is lost
            o = rng.choice([1e15, 2.0 ** 52, 7e15])
            out, t = [], o
            for _ in range(T):
                out.append(t)
                t = t + rng.choice([0.7, 1.3, 2.0, 3.1])
            return out, kind
        t, out = rng.choice([0.0, -0.7]), []
        for _ in range(T):
            out.append(t)
            t += rng.choice([0.1, 0.2, 0.3, 0.7, 1.1])
        return out, kind

    R_LAGS = [0.0, 0.0, 0.1, -0.3, 1.0 / 3.0, 0.7, 1e-3, -0.05]
    R_TAUS = [np.inf, np.inf, 0.1, 0.05, 0.3, 0.15, 1.0, 0.35]
    reqs, impl = [], []
    n_round = 0
    n_stream = 2500 if quick else 40000
    n_dense = 1000 if quick else 12000
    for it in range(n_stream + n_dense):
        T = rng.choice([5, 6, 7, 8, 9, 10, 12, 14])
        x, y = gen_pair(rng, T)
        if rng.random() < 0.5:
            # enough events for the counting branch
            x = [int(v or rng.random() < 0.5) for v in x]
            y = [int(v or rng.random() < 0.5) for v in y]
        ts1, kind = gen_rounding_ts(T)
        tm, lag = rng.choice(R_TAUS), rng.choice(R_LAGS)
        if it >= n_stream:
            # dense series on a tenths / cumulative grid, unbounded window, lag != 0: many decisions
            # `2*(x - y) <= min gap` are ties up to the last bit, decided by the order of the
            # roundings (own mutation M2: np.diff taken before the lag is added)
            T = rng.choice([8, 10, 12, 14])
            x = [int(rng.random() < 0.6) for _ in range(T)]
            y = [int(rng.random() < 0.6) for _ in range(T)]
            kind = "dense-tenths"
            if rng.random() < 0.3:
                kind, t, ts1 = "dense-cumsum", 0.0, []
                for _ in range(T):
                    ts1.append(t)
                    t += rng.choice([0.1, 0.2, 0.3, 0.7, 1.1])
            else:
                ts1 = [0.1 * i for i in range(T)]
            tm, lag = np.inf, rng.choice([0.1, -0.3, 1.0 / 3.0, 0.7, 1e-3, -0.05])
        if kind == "index":
            tm, lag = rng.choice([np.inf, 1.0, 1.5, 0.7]), rng.choice([0.1, -0.3, 1.0 / 3.0, 0.7, 1.1])
            n1 = n2 = None
            ts1 = ts2 = [float(i) for i in range(T)]
        else:
            ts1 = ts1[:T]
            if any(b <= a for a, b in zip(ts1, ts1[1:])):
                continue
            ts2 = ts1
            if rng.random() < 0.15 and kind != "f32":
                ts2, _k = gen_rounding_ts(T)
                ts2 = ts1 if ts2 is None else ts2[:T]
                if any(b <= a for a, b in zip(ts2, ts2[1:])):
                    ts2 = ts1
            if kind == "bigoffset":
                tm, lag = rng.choice([np.inf, 1.0, 2.5]), rng.choice([0.0, 0.7, -1.3, 2.0])
            adt = np.float32 if kind == "f32" else float
            n1, n2 = relayout(np.array(ts1, dtype=adt)), relayout(np.array(ts2, dtype=adt))
            assert [float(v) for v in n1] == ts1
        ax, ay = np.array(x), np.array(y)
        # the arrays used for the exact rescaling / exchange relations are float64 copies
        a1, a2 = np.array(ts1, dtype=float), np.array(ts2, dtype=float)
        r = call(lambda: ES.event_synchronization(ax, ay, ts1=n1, ts2=n2, taumax=tm, lag=lag))
        req = (f"esfl {enc_rats(ts1)} {enc_bools(x)} {enc_rats(ts2)} {enc_bools(y)} "
               f"{enc_rat(tm)} {enc_rat(lag)}")
        got = "raise:" + type(r).__name__ if isinstance(r, Exception) else \
            ",".join(exact_f64(v) for v in r)
        reqs.append(req)
        impl.append(got)
        tx, ty = times(ts1, x), times(ts2, y)
        nx, ny = sum(x), sum(y)
        ctx.count(f"rounding-ts:{kind}")
        ctx.case(req, nx >= 3 and ny >= 3)
        rep = {"call": "event_synchronization", "x": x, "y": y, "ts1": ts1, "ts2": ts2,
               "taumax": tm, "lag": lag, "observed": got, "stream": "rounding"}
        exp = ",".join(exact_f64(v) for v in es_formula_float(tx, ty, tm, lag))
        if got != exp:
            ctx.fail({"kind": "formula-float", "method": "event_synchronization"},
                     f"event_synchronization on non-representable time stamps = {got}, the counting "
                     f"formula evaluated in IEEE double gives {exp}", dict(rep, expected=exp))
        # does rounding matter for this case?  (exact arithmetic on the same doubles)
        ex_ = ",".join(show_fr(v) for v in es_formula(tx, ty, tm, lag))
        if not isinstance(r, Exception) and ex_ != ",".join(canon_sq(v) for v in r):
            n_round += 1
            ctx.count("rounding-changes-the-counts")
        if not isinstance(r, Exception):
            for v in r:
                if not math.isnan(v) and not (0 <= v <= 1):
                    ctx.fail({"kind": "range", "method": "event_synchronization"},
                             f"event synchronisation strength {v} outside [0,1]", rep)
            # power-of-two change of the time unit: exact in IEEE double, so the doubles returned
            # are bit-identical also where the counting rounds (theorem es_float_pow2_scale)
            k = rng.choice([0.5, 4.0, 2.0 ** -34, 2.0 ** -20, 2.0 ** 30])
            r6 = call(lambda: ES.event_synchronization(ax, ay, ts1=a1 * k, ts2=a2 * k,
                                                       taumax=tm * k, lag=lag * k))
            g6 = "raise:" + type(r6).__name__ if isinstance(r6, Exception) else \
                ",".join(exact_f64(v) for v in r6)
            if lag == 0:
                # exchange at lag 0 is exact in IEEE double (rounding is odd; theorem
                # es_float_exchange_lag0)
                r7 = call(lambda: ES.event_synchronization(ay, ax, ts1=a2, ts2=a1, taumax=tm, lag=0.0))
                g7 = "raise:" + type(r7).__name__ if isinstance(r7, Exception) else \
                    ",".join(exact_f64(v) for v in r7[::-1])
                if g7 != got:
                    ctx.fail({"kind": "exchange-float", "method": "event_synchronization"},
                             f"ES(x,y) = {got} but ES(y,x) reversed = {g7} on non-representable "
                             "time stamps (lag 0)", rep)
            if g6 != got:
                ctx.fail({"kind": "scale-pow2-float", "method": "event_synchronization"},
                         f"ES on non-representable time stamps changes under the exact rescaling of "
                         f"time, lag and window by {k}: {got} -> {g6}", dict(rep, scale=k))
    ctx.correspond("Lean esFl (every operation on times rounded to double, esSeriesR rn53s) == "
                   "event_synchronization on time stamps with non-representable sums / differences, "
                   "bit for bit", reqs, impl)
    ctx.extra["rounding_stream_requests"] = len(reqs)
    ctx.extra["rounding_stream_cases_where_rounding_changes_counts"] = n_round

    # ------------------------------------------------------------------
    # matrix level
    # ------------------------------------------------------------------
    reqs, impl = [], []
    for c in range(500 if quick else 8000):
        N = rng.choice([1, 2, 3, 3, 4, 5, 6, 8])
        T = rng.choice([4, 6, 8, 10, 12, 20])
        cols = []
        for _ in range(N):
            cols.append(gen_series(rng, T) if not cols or rng.random() < 0.8
                        else gen_pair(rng, T)[1])
        E = np.array(cols, dtype=int).T
        if len(np.unique(E)) != 2:
            E[0, 0], E[-1, -1] = 1, 0
            if len(np.unique(E)) != 2:
                continue
        ts, kind = gen_timestamps(rng, T)
        wide = kind == "wide" or rng.random() < 0.06
        tm, lag = rng.choice(TAUS_WIDE if wide else TAUS), rng.choice(LAGS_WIDE if wide else LAGS)
        a = ts_arr(ts, T, ts_dtype(ts, kind))
        if rng.random() < 0.3:
            E = E.astype(rng.choice([np.int8, float, np.int32]))
        # memory layouts of the arrays the object will hold: Fortran order, a strided view
        lay = rng.choice(["C", "C", "C", "F", "strided"])
        if lay == "F":
            E = np.asfortranarray(E)
        elif lay == "strided":
            E = np.repeat(np.repeat(E, 2, axis=0), 2, axis=1)[::2, ::2]
        ctx.count(f"matrix:layout={lay}")
        a = relayout(a)
        E0, a0 = E.copy(), (None if a is None else a.copy())
        kwobj = {}
        if a is not None:
            kwobj["timestamps"] = a
        if not (math.isinf(tm) and rng.random() < 0.5):
            kwobj["taumax"] = tm       # else: the documented default np.inf
        if not (lag == 0 and rng.random() < 0.5):
            kwobj["lag"] = lag         # else: the documented default 0.0
        obj = call(lambda: ES(E, **kwobj))
        if isinstance(obj, Exception):
            ctx.fail({"kind": "constructor", "error": type(obj).__name__},
                     f"EventSeries constructor raised {obj!r}", {"E": E.tolist(), "ts": ts})
            continue
        ctx.count(f"matrix:N={N}")
        Eenc = enc_mat(E.astype(int).tolist())
        # multi-step history on this one object: every later call must return what a fresh
        # object returns for the same call, whatever was computed (and cached) before
        hist = []
        returned = []          # (request, array object as returned, snapshot at return time)
        es_requests = []       # ES requests in order (for the Lean object model)

        def interfere():
            """public calls that must not change what later requests return: the significance
            tests (surrogates are shuffled copies of the held event matrix)"""
            if rng.random() >= 0.3:
                return
            np.random.seed(rng.randrange(2 ** 31))
            if not math.isinf(tm) and rng.random() < 0.5:
                kind = rng.choice(["shuffle", "analytic"])
                kws = dict(method="ECA", surrogate=kind, n_surr=2,
                           window_type=rng.choice(["advanced", "retarded"]))
                if kind == "shuffle":
                    kws.update(symmetrization=rng.choice(SYMMS_ECA),
                               window_type=rng.choice(WINDOWS))
            else:
                kws = dict(method="ES", surrogate="shuffle", n_surr=2,
                           symmetrization=rng.choice(SYMMS_ES))
            S = call(lambda: obj.event_analysis_significance(**kws))
            ctx.count(f"history:significance:{kws['method']}:{kws['surrogate']}")
            hist.append(("significance", kws["method"], kws["surrogate"]))
            if isinstance(S, Exception):
                if int(E0.sum(axis=0).min()) > 0 and not (kws["surrogate"] == "analytic" and
                                                          isinstance(S, (ValueError, ZeroDivisionError))):
                    ctx.fail({"kind": "significance", "method": kws["method"],
                              "surrogate": kws["surrogate"], "error": type(S).__name__},
                             f"event_analysis_significance({kws}) raised {S!r}",
                             {"E": E0.tolist(), "timestamps": ts, "taumax": tm, "lag": lag,
                              "kwargs": kws})
                return
            if kws["surrogate"] == "shuffle":
                v = np.asarray(S, dtype=float)
                if v.shape != (N, N) or np.any((v[~np.isnan(v)] < 0) | (v[~np.isnan(v)] > 1)):
                    ctx.fail({"kind": "significance-range", "method": kws["method"]},
                             "empirical significance level outside [0,1]",
                             {"E": E0.tolist(), "kwargs": kws, "observed": v.tolist()})

        def fresh_same(method, s_, w_, M, rep):
            """compare with a fresh object built from copies of the original arrays"""
            o2 = ES(E0.copy(), **dict(kwobj, **({"timestamps": a0.copy()} if a0 is not None else {})))
            kw2 = {"method": method, "symmetrization": s_}
            if method == "ECA":
                kw2["window_type"] = w_
            M2 = call(lambda: o2.event_series_analysis(**kw2))
            hist.append((method, s_, w_))
            if isinstance(M, Exception) or isinstance(M2, Exception):
                same = isinstance(M, Exception) and isinstance(M2, Exception)
            else:
                same = np.array_equal(np.asarray(M), np.asarray(M2), equal_nan=True)
            if not same:
                ctx.fail({"kind": "history", "method": method, "symmetrization": s_},
                         f"after the calls {hist[:-1]} on one object, event_series_analysis"
                         f"({method},{s_},{w_}) differs from the same call on a fresh object",
                         dict(rep, history=[list(h) for h in hist]))
        # --- ES ---
        es_list = list(SYMMS_ES if c % 3 == 0 else rng.sample(SYMMS_ES, 2))
        if c % 2 == 0:
            rng.shuffle(es_list)
            es_list += rng.sample(SYMMS_ES, 2)       # repeats: the cached directed matrix is reused
        for s in es_list:
            if s == "directed" and rng.random() < 0.5:
                M = call(lambda: obj.event_series_analysis())      # documented defaults
            else:
                M = call(lambda: obj.event_series_analysis(method="ES", symmetrization=s))
            req = f"esmat {ts_enc(ts, T)} {Eenc} {N} {enc_rat(tm)} {enc_rat(lag)} {s}"
            got = "raise" if isinstance(M, Exception) else enc_mat(M, lambda r: ",".join(canon_sq(v) for v in r))
            reqs.append(req)
            impl.append(got)
            # round 4: the float64 matrix bit for bit (sum / difference / mean rounded once)
            reqs.append("esmatf64" + req[5:])
            impl.append("raise" if isinstance(M, Exception)
                        else enc_mat(M, lambda r: ",".join(exact_f64(v) for v in r)))
            ctx.case(req, int(E.sum(axis=0).min()) >= 3)
            ctx.count(f"matrix:ES:{s}")
            rep = {"call": "event_series_analysis", "method": "ES", "symmetrization": s,
                   "E": E.tolist(), "timestamps": ts, "taumax": tm, "lag": lag, "observed": got}
            if isinstance(M, Exception):
                ctx.fail({"kind": "matrix", "method": "ES", "error": type(M).__name__},
                         f"event_series_analysis(ES,{s}) raised {M!r}", rep)
                continue
            D = np.zeros((N, N))
            for i in range(N):
                for j in range(i + 1, N):
                    tsd = np.arange(T, dtype=float) if a is None else a
                    D[i, j], D[j, i] = ES.event_synchronization(
                        E[:, i], E[:, j], ts1=tsd, ts2=tsd, taumax=tm, lag=lag)
            check_matrix(ctx, M, D, s, rep, N)
            fresh_same("ES", s, None, M, rep)
            returned.append((("ES", s, None), M, np.array(M, copy=True)))
            es_requests.append(s)
            interfere()
        # --- ECA ---
        if math.isinf(tm):
            M = call(lambda: obj.event_series_analysis(method="ECA"))
            if not isinstance(M, ValueError):
                ctx.fail({"kind": "matrix", "method": "ECA", "taumax": "inf"},
                         "ECA with unbounded window was not rejected", {"E": E.tolist()})
        for w in ([] if math.isinf(tm) else WINDOWS):
            s = rng.choice(SYMMS_ECA)
            if w == "symmetric" and rng.random() < 0.5:
                M = call(lambda: obj.event_series_analysis(method="ECA", symmetrization=s))
            else:
                M = call(lambda: obj.event_series_analysis(method="ECA", symmetrization=s,
                                                           window_type=w))
            req = f"ecamat {w} {ts_enc(ts, T)} {Eenc} {N} {enc_rat(tm)} {enc_rat(lag)} {s}"
            got = "raise" if isinstance(M, Exception) else enc_mat(M, lambda r: ",".join(canon_rate(v) for v in r))
            noev = int(E.sum(axis=0).min()) == 0
            if noev and lag == 0 and tm == 0:
                continue
            reqs.append(req)
            impl.append(got)
            ctx.case(req, not noev)
            ctx.count(f"matrix:ECA:{w}:{s}")
            rep = {"call": "event_series_analysis", "method": "ECA", "symmetrization": s,
                   "window_type": w, "E": E.tolist(), "timestamps": ts, "taumax": tm, "lag": lag,
                   "observed": got}
            if isinstance(M, Exception):
                if not noev:
                    ctx.fail({"kind": "matrix", "method": "ECA", "error": type(M).__name__},
                             f"event_series_analysis(ECA,{w},{s}) raised {M!r}", rep)
                continue
            D = np.zeros((N, N))
            for i in range(N):
                for j in range(i + 1, N):
                    tsd = np.arange(T, dtype=float) if a is None else a
                    if w == "symmetric":
                        o = eca_formula(times(ts, E[:, i]), times(ts, E[:, j]), tm, lag, window=w)
                        D[i, j], D[j, i] = [float("nan") if v is None else float(v) for v in o]
                    else:
                        p12, g12, p21, g21 = call(lambda: ES.event_coincidence_analysis(
                            E[:, i], E[:, j], tm, ts1=tsd, ts2=tsd, lag=lag))
                        D[i, j], D[j, i] = (p12, p21) if w == "advanced" else (g12, g21)
            check_matrix(ctx, M, D, s, rep, N)
            fresh_same("ECA", s, w, M, rep)
            returned.append((("ECA", s, w), M, np.array(M, copy=True)))
            # float32 rates stored in the float64 matrix and symmetrised there: bit for bit
            reqs.append("ecamatf32" + req[6:])
            impl.append(enc_mat(M, lambda r: ",".join(exact_f64(v) for v in r)))
            interfere()
        # an ES call after the ECA calls, then the arrays the object holds
        s = rng.choice(SYMMS_ES)
        M = call(lambda: obj.event_series_analysis(method="ES", symmetrization=s))
        fresh_same("ES", s, None, M, {"call": "event_series_analysis", "method": "ES",
                                      "symmetrization": s, "E": E0.tolist(), "timestamps": ts,
                                      "taumax": tm, "lag": lag})
        if not isinstance(M, Exception):
            returned.append((("ES", s, None), M, np.array(M, copy=True)))
            es_requests.append(s)
        # every array handed out during the history still holds what it held when it was
        # returned (the memoised directed matrix is handed out by reference: nothing the
        # library does later may write into it) ...
        for rq, arr, snap in returned:
            if not np.array_equal(np.asarray(arr), snap, equal_nan=True):
                ctx.fail({"kind": "returned-array-modified", "method": rq[0], "symmetrization": rq[1]},
                         f"the array returned for {rq} was changed by later calls on the object",
                         {"E": E0.tolist(), "timestamps": ts, "taumax": tm, "lag": lag,
                          "history": [list(h) for h in hist]})
                break
        # ... and is what the Lean object model (heap of arrays, memoised directed matrix,
        # helper table generated from the source) holds at the end of the same history
        if es_requests and all(not isinstance(r_[1], Exception) for r_ in returned):
            reqs.append(f"eshist {ts_enc(ts, T)} {Eenc} {N} {enc_rat(tm)} {enc_rat(lag)} "
                        + ",".join(es_requests))
            impl.append("|".join(enc_mat(arr, lambda r: ",".join(canon_sq(v) for v in r))
                                 for rq, arr, _ in returned if rq[0] == "ES"))
            ctx.count(f"history:es-requests={min(len(es_requests), 9)}")
        if not np.array_equal(E, E0) or not np.array_equal(obj.get_event_matrix(), E0) or \
                (a is not None and not np.array_equal(a, a0)):
            ctx.fail({"kind": "held-array-modified", "class": "EventSeries"},
                     "event_series_analysis modified the event matrix / time stamps it holds",
                     {"E": E0.tolist(), "timestamps": ts, "history": [list(h) for h in hist]})
    ctx.correspond("Lean Events model == event_series_analysis (ES / ECA matrices, symmetrisations)",
                   reqs, impl)
    ctx.extra["matrix_calls_compared"] = len(reqs)

    # ------------------------------------------------------------------
    # thresholding
    # ------------------------------------------------------------------
    reqs, impl = [], []
    for c in range(1000 if quick else 20000):
        N = rng.choice([1, 2, 3, 4])
        T = rng.choice([1, 2, 3, 4, 5, 6, 8, 9, 12, 17, 24, 33])
        span = rng.choice([2, 3, 6, 20])
        half = rng.random() < 0.6
        data = np.array([[float(rng.randrange(-span, span + 1)) * (rng.choice([1, 1, 0.5]) if half else 1)
                          for _ in range(N)] for _ in range(T)])
        if rng.random() < 0.15:
            data[:, rng.randrange(N)] = data[0, 0]        # a constant variable
        # caller data in both float widths, or as integers
        ddt = rng.choice([float, float, np.float32] + ([] if half else
                                                       [np.int64, np.int64, np.int32, np.int16, np.int8,
                                                        np.uint8, np.uint16]))
        if np.dtype(ddt).kind == "u":
            data = data + span                             # unsigned observables: counts
        if ddt is float and rng.random() < 0.2:
            # values that need more than 24 significant bits (a float32 threshold array, or a
            # float32 intermediate anywhere, would move thresholds across data values)
            data = data + np.array([[rng.randrange(-3, 4) * 2.0 ** -30 for _ in range(N)]
                                    for _ in range(T)])
            ctx.count("threshold:data=fine(2^-30)")
        data = data.astype(ddt)
        if rng.random() < 0.2:
            data = np.asfortranarray(data)
            ctx.count("threshold:layout=F")
        ctx.count(f"threshold:data={np.dtype(ddt).name}")
        per_var = rng.random() < 0.5
        ms = [rng.choice(["quantile", "value"]) for _ in range(N)]
        if not per_var:
            ms = [ms[0]] * N
        give_v, give_t = rng.random() < 0.8, rng.random() < 0.7
        vs = []
        for i in range(N):
            if ms[i] == "quantile":
                vs.append((rng.choice([0, 1, 2, 3, 4, 5, 6, 7, 8, 4, 7]) / 8
                           if rng.random() < 0.8 else rng.randrange(17) / 16)
                          if rng.random() < 0.93 else rng.choice([-0.25, 1.5, -2.0 ** -20, 1 + 2.0 ** -20]))
            else:
                col = sorted(set(float(v) for v in data[:, i]))
                vs.append(rng.choice(col) + rng.choice([0, 0, 0.25, -0.25, 0.5, -0.5, 0.75, -0.75])
                          if rng.random() < 0.9 else rng.choice([col[0] - 1, col[-1] + 1]))
        if not per_var:
            vs = [vs[0]] * N
        tys = [rng.choice(["above", "below"]) for _ in range(N)]
        if not per_var:
            tys = [tys[0]] * N
        aslist = rng.random() < 0.3          # per-variable parameters as plain lists
        kw = {"threshold_method": (list(ms) if aslist else np.array(ms)) if per_var and N > 1 else ms[0]}
        if give_v:
            if per_var and N > 1:
                kw["threshold_values"] = [float(v) for v in vs] if aslist else np.array(vs, dtype=float)
            else:
                v0 = float(vs[0])
                kw["threshold_values"] = int(v0) if v0.is_integer() and rng.random() < 0.5 else v0
        if give_t:
            kw["threshold_types"] = (list(tys) if aslist else np.array(tys)) if per_var and N > 1 else tys[0]
        if not (per_var and N > 1):
            ms, vs, tys = [ms[0]] * N, [vs[0]] * N, [tys[0]] * N
        via = "static"
        if T > N and rng.random() < 0.3:
            # the public constructor path (threshold_* given): data as [time, variables] or with
            # the axes the other way round (the constructor swaps them when shape[1] > shape[0])
            via = rng.choice(["constructor", "constructor-swapped"])
            dd = data if via == "constructor" else np.ascontiguousarray(data.T)
            d0 = dd.copy()
            kwc = {"threshold_method": kw["threshold_method"],
                   "threshold_values": kw.get("threshold_values"),
                   "threshold_types": kw.get("threshold_types")}
            r = call(lambda: ES(dd, **kwc).get_event_matrix())
            if not np.array_equal(dd, d0):
                ctx.fail({"kind": "caller-array-modified", "method": "EventSeries.__init__"},
                         "the constructor modified the caller's data array", {"data": d0.tolist()})
        else:
            d0 = data.copy()
            r = call(lambda: ES.make_event_matrix(data, **kw))
            if not np.array_equal(data, d0):
                ctx.fail({"kind": "caller-array-modified", "method": "make_event_matrix"},
                         "make_event_matrix modified the caller's data array", {"data": d0.tolist()})
        ctx.count(f"threshold:via={via}")
        req = "mkev {} {} {} {} {}".format(
            enc_mat(data.tolist(), enc_rats), N, ",".join(m[0] for m in ms),
            ",".join(enc_rat(v) if give_v else "none" for v in vs),
            ",".join(t[0] if give_t else "none" for t in tys))
        got = "raise:" + type(r).__name__ if isinstance(r, Exception) else enc_mat(r.tolist())
        reqs.append(req)
        impl.append(got)
        # round 4: the same call answered through NumPy's own quantile algorithm (npQuantile /
        # npMedian as regenerated from the installed NumPy) and the float64 threshold array
        reqs.append("mkevnp" + req[4:])
        impl.append(got)
        nontriv = T >= 2 and all(len(set(data[:, i])) > 1 for i in range(N))
        ctx.case(req, nontriv, {"call": "make_event_matrix", "data": data.tolist(),
                                "kwargs": {k: (v.tolist() if hasattr(v, "tolist") else v)
                                           for k, v in kw.items()}, "result": got}
                 if T <= 5 else None)
        ctx.count(f"threshold:{'per-variable' if per_var and N > 1 else 'scalar'}:"
                  f"{'values' if give_v else 'default-values'}:{'types' if give_t else 'default-types'}")
        rep = {"call": "make_event_matrix", "via": via, "data": data.tolist(),
               "dtype": np.dtype(ddt).name,
               "kwargs": {k: (v.tolist() if hasattr(v, "tolist") else v) for k, v in kw.items()},
               "observed": got}
        # independent expectation
        exp, err = [], None
        for i in range(N):
            col = data[:, i]
            v = vs[i] if give_v else None
            t = tys[i] if give_t else None
            med = quantile_formula(col, Fr(1, 2))
            if ms[i] == "quantile":
                q = Fr(1, 2) if v is None else fr(v)
                if q > 1 or q < 0:
                    err = err or "ValueError"
                    break
                th = quantile_formula(col, q)
                if abs(float(th) - float(np.quantile(col, float(q)))) > 1e-12:
                    ctx.fail({"kind": "oracle-self-check"}, "Fraction quantile != numpy.quantile", rep)
                t = t or ("above" if q >= Fr(1, 2) else "below")
            else:
                if v is None:
                    th = med
                else:
                    th = fr(v)
                    if max(col) < th or min(col) > th:
                        err = err or "OSError"
                        break
                t = t or ("above" if th >= med else "below")
            exp.append([int(fr(d) > th) if t == "above" else int(fr(d) < th) for d in col])
        expected = "raise:" + err if err else enc_mat(np.array(exp).T.tolist())
        if got != expected:
            ctx.fail({"kind": "threshold", "method": "make_event_matrix", "via": via,
                      "threshold_method": ms[0] if not per_var else "mixed"},
                     f"make_event_matrix marks {got}, samples beyond the stated threshold are {expected}",
                     dict(rep, expected=expected))
    ctx.correspond("Lean makeEventMatrix == EventSeries.make_event_matrix", reqs, impl)
    ctx.extra["threshold_calls_compared"] = len(reqs)

    # ------------------------------------------------------------------
    # implementation-only streams
    # ------------------------------------------------------------------
    # (a) long series: default index time stamps must behave like explicit ones
    for T in ([40000] if quick else [33000, 40000, 70000]):
        k = 9
        ix = sorted(rng.sample(range(T - 40000 + 32000, T), 4) + rng.sample(range(0, 2000), k - 4))
        iy = sorted(min(T - 1, max(0, i + rng.choice([-1, 0, 1, 2]))) for i in ix)
        x = np.zeros(T, dtype=int)
        y = np.zeros(T, dtype=int)
        x[ix] = 1
        y[iy] = 1
        r0 = call(lambda: ES.event_synchronization(x, y))
        tsd = np.arange(T, dtype=float)
        r1 = call(lambda: ES.event_synchronization(x, y, ts1=tsd, ts2=tsd))
        ctx.case(("long", T, ix, iy), True)
        ctx.count("long-series")
        g0 = "raise" if isinstance(r0, Exception) else ",".join(canon_sq(v) for v in r0)
        g1 = "raise" if isinstance(r1, Exception) else ",".join(canon_sq(v) for v in r1)
        exp = ",".join(show_fr(v) for v in es_formula(np.nonzero(x)[0].tolist(),
                                                      np.nonzero(y)[0].tolist(), float("inf"), 0))
        if g0 != exp:
            ctx.fail({"kind": "formula", "method": "event_synchronization", "input": "T>32767,ts=None"},
                     f"event_synchronization on {T} samples without time stamps = {g0}, "
                     f"formula (and explicit time stamps: {g1}) gives {exp}",
                     {"T": T, "x_events": np.nonzero(x)[0].tolist(),
                      "y_events": np.nonzero(y)[0].tolist(), "observed": g0, "expected_squared": exp})

        # the coincidence rates on the same long series (int8 event arrays, no time stamps)
        x8, y8 = x.astype(np.int8), y.astype(np.int8)
        for tmv, lagv in ((2.0, 0.0), (1.0, 1.0)):
            r0 = call(lambda: ES.event_coincidence_analysis(x8, y8, tmv, lag=lagv))
            g0 = "raise" if isinstance(r0, Exception) else ",".join(exact_f32(v) for v in r0)
            o = eca_formula(np.nonzero(x)[0].tolist(), np.nonzero(y)[0].tolist(), tmv, lagv)
            exp = ",".join("nan" if v is None else enc_rat(Fr(float(np.float32(v.numerator)
                                                                   / np.float32(v.denominator))))
                           for v in o)
            ctx.count("long-series:eca")
            if g0 != exp:
                ctx.fail({"kind": "formula", "method": "event_coincidence_analysis",
                          "input": "T>32767,ts=None,int8"},
                         f"event_coincidence_analysis on {T} samples (int8, no time stamps) = {g0}, "
                         f"formula gives {exp}",
                         {"T": T, "x_events": np.nonzero(x)[0].tolist(),
                          "y_events": np.nonzero(y)[0].tolist(), "taumax": tmv, "lag": lagv})

    # (b) EventSeriesClimateNetwork: the similarity matrix is the analysis matrix
    check_climate_network(ctx, rng, quick)


def check_matrix(ctx, M, D, s, rep, N):
    """M (implementation) against D (static pairwise calls / formula) under symmetrisation s"""
    for i in range(N):
        for j in range(N):
            e = symm_formula(s, float(D[i, j]), float(D[j, i]))
            g = float(M[i][j])
            if math.isnan(e) != math.isnan(g) or (not math.isnan(e) and abs(e - g) > 1e-6):
                ctx.fail({"kind": "matrix-entry", "method": rep["method"], "symmetrization": s},
                         f"entry [{i},{j}] = {g}, pairwise value under '{s}' is {e}",
                         dict(rep, entry=[i, j], expected=e, pairwise=D.tolist()))
                return


def check_climate_network(ctx, rng, quick):
    from pyunicorn.climate import EventSeriesClimateNetwork as ESCN
    from pyunicorn.eventseries import EventSeries
    base = ESCN.SmallTestData()
    # every thresholding argument pattern of the wrapper on every run (seed C16-8: the default of
    # an omitted threshold_types matters only below the median) — a fixed prefix, then random draws
    FIXED = [(None, 0.125), (None, 0.875), ("below", 0.25), ("above", 0.375), (None, 0.375),
             ("below", 0.75), ("above", 0.625), (None, 0.5)]
    for c in range(10 if quick else 40):
        method = rng.choice(["ES", "ECA"])
        s = rng.choice(SYMMS_ECA if method == "ECA" or rng.random() < 0.5 else SYMMS_ES)
        q = rng.choice([0.125, 0.25, 0.375, 0.5, 0.625, 0.75, 0.875])
        p_value = None if c % 2 == 0 else rng.choice([0.05, 0.5])
        # the wrapper must hand every thresholding argument on unchanged, also when
        # threshold_types is omitted (documented default rule: below the median -> 'below')
        ttypes = rng.choice(["above", "below", None, None])
        if c < len(FIXED):
            ttypes, q = FIXED[c]
        thr_kw = dict(threshold_method="quantile", threshold_values=q)
        if ttypes is not None:
            thr_kw["threshold_types"] = ttypes
        kw = dict(method=method, taumax=rng.choice([1.0, 2.0, 16.0]), lag=0.0,
                  symmetrization=s, silence_level=3, n_surr=5, **thr_kw)
        ctx.count(f"climate-network:{'p_value' if p_value is not None else 'plain'}")
        ctx.case(("escn", method, s, q, p_value, kw["taumax"]), True)
        np.random.seed(rng.randrange(2 ** 31))
        net = call(lambda: ESCN(base, p_value=p_value, **kw))
        rep = {"call": "EventSeriesClimateNetwork(SmallTestData)", "p_value": p_value,
               "kwargs": {k: v for k, v in kw.items()}}
        if isinstance(net, Exception):
            ctx.fail({"kind": "climate-network", "error": type(net).__name__,
                      "p_value": p_value is not None},
                     f"EventSeriesClimateNetwork(p_value={p_value}) raised {net!r}", rep)
            continue
        with warnings.catch_warnings():
            warnings.simplefilter("ignore")
            ev = EventSeries(base.observable(), taumax=kw["taumax"], lag=0.0, **thr_kw)
        ctx.count(f"climate-network:threshold_types={ttypes}")
        if not np.array_equal(np.asarray(net.get_event_matrix()), np.asarray(ev.get_event_matrix())):
            ctx.fail({"kind": "climate-network", "what": "event-matrix",
                      "threshold_types": str(ttypes)},
                     f"EventSeriesClimateNetwork(threshold_values={q}, threshold_types={ttypes}) marks "
                     f"{int(np.asarray(net.get_event_matrix()).sum())} samples, the plain EventSeries "
                     f"with the same arguments {int(np.asarray(ev.get_event_matrix()).sum())}", rep)
            continue
        with warnings.catch_warnings():
            warnings.simplefilter("ignore")
            with np.errstate(all="ignore"):
                M = ev.event_series_analysis(method=method, symmetrization=s)
                S = net.similarity_measure()
        ok = True
        for i in range(M.shape[0]):
            for j in range(M.shape[1]):
                a, b = float(M[i, j]), float(S[i, j])
                if p_value is not None and b == 0.0:
                    continue      # entry removed by the significance test
                if math.isnan(a) != math.isnan(b) or (not math.isnan(a) and abs(a - b) > 1e-6):   # similarity matrix is stored as float32
                    ok = False
        # the subclass object after its constructor (which thresholds the returned analysis
        # matrix in place when p_value is given) still answers like a plain EventSeries
        for s2 in rng.sample(SYMMS_ES if method == "ES" else SYMMS_ECA, 2):
            with warnings.catch_warnings():
                warnings.simplefilter("ignore")
                with np.errstate(all="ignore"):
                    A = call(lambda: net.event_series_analysis(method=method, symmetrization=s2))
                    B = ev.event_series_analysis(method=method, symmetrization=s2)
            ctx.count("climate-network:history")
            if isinstance(A, Exception) or not np.array_equal(A, B, equal_nan=True):
                ctx.fail({"kind": "climate-network", "what": "event_series_analysis-after-init",
                          "p_value": p_value is not None},
                         f"EventSeriesClimateNetwork.event_series_analysis({method},{s2}) after "
                         "construction differs from the EventSeries result",
                         dict(rep, symmetrization=s2))
        if not ok:
            ctx.fail({"kind": "climate-network", "what": "similarity_measure"},
                     "network similarity matrix differs from event_series_analysis",
                     dict(rep, expected=M.tolist(), observed=S.tolist()))
