"""C01 (round 3) — every public mutator of every class, derived from the translator's tables.

For every class spec of harness/c01.py and every mutator the translator (translate/gen_C01.py)
finds for that class — inherited Network mutators on every Network subclass, property setters
(`embedding`, `R`, `x_embedded`, …), threshold setters inherited by the joint / cross plots,
measures that store a link attribute as a side effect, mutators of owned objects
(`data.set_window`) — an *invoker* is derived:

  1. the spec's own mutator if it has one of that name,
  2. an entry of GENERIC (argument synthesis by mutator name, several candidate argument
     shapes: scalar / pair / triple thresholds …),
  3. a call without arguments if the signature admits it.

Oracles per (class, mutator), on two objects built from the same inputs:

  * replay twin: object A answers queries (its caches are populated), then the mutator runs;
    object B is newly constructed from the same inputs and receives the same mutator call with
    the same arguments *without ever having answered a query*; afterwards every query and
    summary attribute of A must equal B's.  A mutator that raises is replayed all the same
    (a half-done change must not leave stale values either).
  * recomputation: the values A serves after the change must equal what A computes after
    `cache_clear()`.
  * Network-level fresh twin: for every Network subclass, a plain `Network` constructed from
    the current adjacency / directedness / node weights / link attributes must agree on every
    measure that is defined in class Network itself and on the summary attributes.

`unexercised` lists translator-known public mutators for which no invoker could be derived —
the caller turns a non-empty list into a failed obligation.
"""
import contextlib
import inspect
import io
import random as pyrandom
import signal

import numpy as np


def quiet(fn, *a, **k):
    with contextlib.redirect_stdout(io.StringIO()):
        return fn(*a, **k)


# --------------------------------------------------------------------------------------------
# argument synthesis by mutator name: name -> list of candidates f(obj, rng)
# --------------------------------------------------------------------------------------------

def _sym01(rng, n, p, directed=False):
    A = np.zeros((n, n), dtype=int)
    for a in range(n):
        for b in range(a + 1, n):
            if rng.random() < p:
                A[a, b] = A[b, a] = 1
                if directed and rng.random() < 0.3:
                    A[a, b] = 0
    return A


def _new_adj(o, rng):
    A = _sym01(rng, o.N, rng.choice([0.3, 0.6]), bool(getattr(o, "directed", False)))
    if np.array_equal(A, o.adjacency):
        A = (1 - A - np.eye(o.N, dtype=int)).clip(0, 1)
    return A


def _symvals(rng, n, choices=(0.5, 1.0, 1.5, 2.0, 2.5, 3.0)):
    W = np.zeros((n, n))
    for a in range(n):
        for b in range(a + 1, n):
            W[a, b] = W[b, a] = rng.choice(choices)
    return W


def g_set_adjacency(o, rng):
    o.adjacency = _new_adj(o, rng)


def g_set_edge_list(o, rng):
    A = _new_adj(o, rng)
    o.set_edge_list(np.array(np.nonzero(np.triu(A + A.T))).T, o.N)


def g_node_weights(o, rng):
    o.node_weights = np.array([rng.choice([0.5, 1.0, 1.5, 2.0, 3.0]) for _ in range(o.N)]) + 0.25


def g_set_link_attribute(o, rng):
    o.set_link_attribute("gw", _symvals(rng, o.N) + rng.choice([0.25, 0.75]))


def g_new_window(o, rng, data=None):
    d = o if data is None else data
    g = d.grid.grid() if hasattr(d.grid, "grid") else None
    t, la, lo = np.sort(g["time"]), np.sort(g["lat"]), np.sort(g["lon"])
    w = {"time_min": float(t[min(1, len(t) - 1)]), "time_max": float(t[-2] if len(t) > 2 else t[-1]),
         "lat_min": float(la[0]), "lat_max": float(la[-2] if len(la) > 2 else la[-1]),
         "lon_min": float(lo[0]), "lon_max": float(lo[-1])}
    d.set_window(w)


def _setter_candidates(name, vals):
    out = []
    for k in (1, 2, 3):
        def f(o, rng, k=k):
            v = rng.choice(vals) if k == 1 else tuple(rng.choice(vals) for _ in range(k))
            getattr(o, name)(v)
        f.__name__ = f"{name}[{k}]"
        out.append(f)
    return out


def _flip(setter, getter_names, values, **kw):
    def f(o, rng):
        cur = None
        for g in getter_names:
            if hasattr(o, g):
                cur = getattr(o, g)
                cur = cur() if callable(cur) else cur
                break
        choices = [v for v in values if v != cur] or list(values)
        getattr(o, setter)(rng.choice(choices), **kw)
    return [f]


def g_set_R(o, rng):
    R = np.asarray(o.R) if o.R is not None else np.zeros((o.N, o.N), dtype=np.int8)
    new = (np.array([[rng.random() < 0.4 for _ in range(R.shape[1])] for _ in range(R.shape[0])])
           ).astype(R.dtype)
    if R.shape[0] == R.shape[1]:
        new = np.maximum(new, new.T)
        np.fill_diagonal(new, 1)
    o.R = new


def _new_like(arr, rng):
    arr = np.asarray(arr)
    flat = [rng.randrange(0, 9) / 2 for _ in range(arr.size)]
    return np.array(flat, dtype=float).reshape(arr.shape)


def _emb_setter(attr):
    def f(o, rng):
        setattr(o, attr, _new_like(getattr(o, attr), rng))
    return [f]


def g_update_resistances(o, rng):
    A = np.asarray(o.adjacency)
    R = _symvals(rng, o.N, (0.5, 1.0, 2.0, 3.0, 4.0)) * (A + A.T > 0)
    o.update_resistances(R)


def g_geomodel(name, iterations):
    def f(o, rng):
        getattr(o, name)(o.grid.distance(), iterations, 0.5)
    return [f]


def _corr(data, *a):
    return np.corrcoef(data)


GENERIC = {
    "set:adjacency": [g_set_adjacency],
    "set_edge_list": [g_set_edge_list],
    "set:node_weights": [g_node_weights],
    "set_link_attribute": [g_set_link_attribute],
    "del_link_attribute": [lambda o, rng: o.del_link_attribute("gw")],
    "del_node_attribute": [lambda o, rng: o.del_node_attribute("gn")],
    "randomly_rewire": [lambda o, rng: o.randomly_rewire(5)],
    "randomly_rewire_geomodel_I": g_geomodel("randomly_rewire_geomodel_I", 0),
    # the geomodels search for admissible link pairs without a bound on the number of trials
    # and do not terminate on most networks of a handful of nodes (C17's domain): they are run
    # with zero rewiring steps, which still goes through the whole state-writing path
    # (`self.adjacency = A`)
    "randomly_rewire_geomodel_II": g_geomodel("randomly_rewire_geomodel_II", 0),
    "randomly_rewire_geomodel_III": g_geomodel("randomly_rewire_geomodel_III", 0),
    "set_random_links_by_distance": [lambda o, rng: o.set_random_links_by_distance(
        a=0., b=rng.choice([-4., -1., -0.04]))],
    "save_for_cgv": [lambda o, rng: o.save_for_cgv("c01_cgv", "graphml")],
    "set_node_weight_type": _flip("set_node_weight_type", ["node_weight_type"],
                                  ["surface", "irrigation", None]),
    "update_resistances": [g_update_resistances],
    "set_threshold": _flip("set_threshold", ["threshold"], [0.2, 0.3, 0.45, 0.6]),
    "set_link_density": [lambda o, rng: o.set_link_density(rng.choice([0.3, 0.45, 0.6]))],
    "set_non_local": _flip("set_non_local", ["non_local"], [False, True]),
    "set_winter_only": _flip("set_winter_only", ["winter_only"], [False, True]),
    "set_max_delay": _flip("set_max_delay", ["_max_delay"], [2, 3, 4]),
    "set_directed": _flip("set_directed", ["directed"], [False, True]),
    "set:R": [g_set_R],
    "set:embedding": _emb_setter("embedding"),
    "set:x_embedded": _emb_setter("x_embedded"),
    "set:y_embedded": _emb_setter("y_embedded"),
    "set_fixed_threshold": _setter_candidates("set_fixed_threshold", [0.75, 1.75, 2.25]),
    "set_fixed_threshold_std": _setter_candidates("set_fixed_threshold_std", [0.5, 0.75, 1.25]),
    "set_fixed_recurrence_rate": _setter_candidates("set_fixed_recurrence_rate", [0.2, 0.35, 0.5]),
    "set_fixed_local_recurrence_rate": _setter_candidates("set_fixed_local_recurrence_rate",
                                                          [0.2, 0.4, 0.6]),
    "set_adaptive_neighborhood_size": _setter_candidates("set_adaptive_neighborhood_size",
                                                         [2, 3, 4]),
    "original_distribution": [lambda o, rng: o.original_distribution(_corr, n_bins=8)],
    "test_threshold_significance": [lambda o, rng: o.test_threshold_significance(
        type(o).white_noise_surrogates, _corr, realizations=1, n_bins=8)],
    "twin_surrogates": [lambda o, rng: o.twin_surrogates(2, 1, 0.6, 5)],
    "set_window": [g_new_window],
    "data.set_window": [lambda o, rng: g_new_window(o, rng, o.data)],
    "data.set_global_window": [lambda o, rng: o.data.set_global_window()],
}
# the MutualInfo setter dumps its matrix into the working directory by default: the dump file is
# exercised by mi_file_history; here it must not leak into later constructor calls
MI_NODUMP = _flip("set_winter_only", ["winter_only"], [False, True], dump=False)


def _zero_arg(cls, name):
    """a call without arguments, if the signature admits one"""
    fn = getattr(cls, name, None)
    if fn is None or not callable(fn):
        return None
    try:
        sig = inspect.signature(fn)
    except (TypeError, ValueError):
        return None
    for p in list(sig.parameters.values())[1:]:
        if p.default is inspect.Parameter.empty and p.kind in (p.POSITIONAL_OR_KEYWORD,
                                                               p.POSITIONAL_ONLY, p.KEYWORD_ONLY):
            return None
    return [lambda o, rng: getattr(o, name)()]


def candidates(cname, cls, spec, oname):
    """(source, [f(obj, rng), ...]) or (None, [])"""
    if oname in spec["mutators"]:
        return "spec", [spec["mutators"][oname]]
    if cname == "MutualInfoClimateNetwork" and oname == "set_winter_only":
        return "generic", MI_NODUMP
    if oname in GENERIC:
        return "generic", GENERIC[oname]
    if "." in oname:
        # round 5: a public mutator of an owned Cached object, called on it through the owner
        # (`o.rp_x.set_fixed_threshold(…)`, `o.crp_xy.x_embedded = …`)
        comp, sub = oname.split(".", 1)
        if sub in GENERIC:
            return "generic", [(lambda o, rng, g=g, comp=comp: g(getattr(o, comp), rng))
                               for g in GENERIC[sub]]
        if not sub.startswith("set:"):
            return "zero-arg", [lambda o, rng, comp=comp, sub=sub: getattr(getattr(o, comp), sub)()]
    if not oname.startswith("set:") and "." not in oname:
        z = _zero_arg(cls, oname)
        if z:
            return "zero-arg", z
    return None, []


# --------------------------------------------------------------------------------------------
# running a mutator reproducibly on two objects
# --------------------------------------------------------------------------------------------

def seeded_call(f, obj, rng, seed):
    """run f(obj, rng) with the library's random sources (numpy global, Python global — used
    by igraph) seeded; returns None or the exception"""
    np.random.seed(seed)
    pyrandom.seed(seed)

    def on_alarm(*_):
        raise TimeoutError("mutator did not return within 20 s")
    old = signal.signal(signal.SIGALRM, on_alarm)
    signal.alarm(20)
    try:
        quiet(f, obj, rng)
        return None
    except Exception as ex:  # noqa
        return ex
    finally:
        signal.alarm(0)
        signal.signal(signal.SIGALRM, old)


def make_pair(spec, rng):
    st = rng.getstate()
    a = quiet(spec["make"], rng)
    end = rng.getstate()
    rng.setstate(st)
    b = quiet(spec["make"], rng)
    rng.setstate(end)
    return a, b


def prepare(o, rng):
    """link / node attributes the generic deletions and weighted queries refer to"""
    if hasattr(o, "set_link_attribute") and hasattr(o, "adjacency"):
        try:
            o.set_link_attribute("gw", _symvals(rng, o.N))
            o.set_node_attribute("gn", list(range(o.N)))
        except Exception:  # noqa
            pass


def outcome(fn):
    try:
        return ("value", fn())
    except Exception as ex:  # noqa
        return ("raises", type(ex).__name__)


WEIGHTED = ["path_lengths", "link_attribute", "degree", "average_path_length", "closeness",
            "nsi_degree", "global_efficiency"]


def weighted_queries(cls):
    out = []
    for m in WEIGHTED:
        fn = getattr(cls, m, None)
        if fn is None:
            continue
        try:
            ps = list(inspect.signature(fn).parameters)
        except (TypeError, ValueError):
            continue
        if len(ps) >= 2 and ps[1] in ("key", "link_attribute", "attribute_name"):
            out.append((m, {ps[1]: "gw"}))
    return out


def network_level(cls, table, usable):
    """queries whose definition is the one in class Network (functions of adjacency, directed,
    node weights, link attributes only)"""
    from pyunicorn.core import Network
    if not (isinstance(cls, type) and issubclass(cls, Network)):
        return []
    out = []
    for m, kw in usable:
        if getattr(cls, m, None) is getattr(Network, m, object()):
            out.append((m, kw))
    return out


def network_twin(o):
    from pyunicorn.core import Network
    t = Network(adjacency=o.adjacency, directed=o.directed,
                node_weights=np.array(o.node_weights, dtype=float).copy(), silence_level=3)
    for name in o.graph.es.attributes():
        t.set_link_attribute(name, o.link_attribute(name))
    return t


def same_state(a, b, same):
    """the two objects received the same change (a randomised mutator that could not be
    replayed identically is compared by recomputation only)"""
    for attr in ("adjacency", "node_weights", "R", "embedding", "original_data"):
        try:
            x, y = getattr(a, attr), getattr(b, attr)
        except Exception:  # noqa
            continue
        x = x() if callable(x) else x
        y = y() if callable(y) else y
        if x is None or y is None:
            if (x is None) != (y is None):
                return False
            continue
        if not same(x, y):
            return False
    return True


def effective(oname, o):
    """the derived call will change something on this object (`del_link_attribute` of an
    attribute that does not exist — a network without links cannot hold one — is a no-op and
    legitimately leaves the caches alone)"""
    try:
        if oname == "del_link_attribute":
            return bool(o.find_link_attribute("gw"))
        if oname == "del_node_attribute":
            return "gn" in o.graph.vs.attributes()
    except Exception:  # noqa
        return False
    return True
