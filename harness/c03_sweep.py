"""C03, round 4 — every public measure of `Network` with every optional argument, against definitions.

The public callables of `Network` are found by introspection (`public_api`).  Each one is either a
*measure* with an entry in `CASES` (a generator of calls with expected values computed from the
adjacency matrix / weights in `fractions.Fraction`, or dense numpy per connected component for the
random-walk measures), or listed in `NOT_MEASURES` with the reason (constructors, mutators, I/O,
matrix helpers: other properties).  `coverage_obligation` fails when

  * a public callable is neither a measure with cases nor excluded by name, or
  * a measure was never compared in this run, or
  * an optional argument of a measure was never given a non-default value in a compared call
    (unless the pair is in `EXCLUDED_ARGS` with its reason).

So a new public measure or a new optional argument makes the check fail until it is given a
definition here.
"""
import inspect
import itertools
import math
from fractions import Fraction as Fr

import numpy as np

INF = float("inf")
EXERCISED = {}


def mark(method, arg=None):
    """a call of `method` (with a non-default value for `arg`) was compared with a definition"""
    EXERCISED[(method, arg)] = EXERCISED.get((method, arg), 0) + 1


NOT_MEASURES = {
    # constructors / copies / models: C05 (representations), C17 (random models), C02/C04 (split, permute)
    "copy": "C05", "undirected_copy": "C05", "permuted_copy": "C04", "splitted_copy": "C02",
    "set_edge_list": "C05", "save": "C05", "Load": "C05", "FromIGraph": "C05",
    "SmallTestNetwork": "fixture", "SmallDirectedTestNetwork": "fixture", "Model": "C17",
    "ErdosRenyi": "C17", "BarabasiAlbert_igraph": "C17", "BarabasiAlbert": "C17",
    "Configuration": "C17", "WattsStrogatz": "C17", "GrowWeights": "EXPERIMENTAL (C17)",
    "randomly_rewire": "C17", "edge_list": "C05",
    # attribute accessors: C05
    "set_node_attribute": "C05", "node_attribute": "C05", "del_node_attribute": "C05",
    "find_link_attribute": "C05", "average_link_attribute": "C05", "link_attribute": "C05",
    "del_link_attribute": "C05", "set_link_attribute": "C05",
    # sparse-matrix helpers used by the n.s.i. measures (exercised through them)
    "sp_Aplus": "helper", "sp_diag_w": "helper", "sp_diag_w_inv": "helper", "sp_diag_sqrt_w": "helper",
    "sp_nsi_diag_k": "helper", "sp_nsi_diag_k_inv": "helper",
    # documented as EXPERIMENTAL (design/C03.md)
    "distance_based_measures": "EXPERIMENTAL", "spreading": "EXPERIMENTAL", "nsi_spreading": "EXPERIMENTAL",
}

EXCLUDED_ARGS = {
    ("nsi_betweenness", "parallelize"): "spawns a process pool; the split over workers is C19's subject",
}


def public_api():
    """{name: [optional parameter names]} of the public callables defined by class Network"""
    from pyunicorn.core.network import Network
    out = {}
    for name, obj in vars(Network).items():
        if name.startswith("_") or isinstance(obj, property):
            continue
        f = obj.__func__ if isinstance(obj, (staticmethod, classmethod)) else obj
        if not callable(f):
            continue
        try:
            sig = inspect.signature(f)
        except (TypeError, ValueError):
            out[name] = None
            continue
        out[name] = {p.name: p.default for p in sig.parameters.values()
                     if p.name != "self" and p.default is not inspect.Parameter.empty
                     and p.kind in (p.POSITIONAL_OR_KEYWORD, p.KEYWORD_ONLY)}
    return out


# --------------------------------------------------------------------------
# definitions
# --------------------------------------------------------------------------

def flat(x):
    if isinstance(x, (list, tuple)):
        return [z for y in x for z in flat(y)]
    return [x]


def comps_of(orc):
    """connected components (undirected graph) as sorted node lists, ordered by smallest node"""
    seen, out = set(), []
    for i in range(orc.n):
        if i not in seen:
            c = [j for j in range(orc.n) if orc.d[i][j] != INF]
            seen.update(c)
            out.append(c)
    return out


def np_newman(B):
    """Newman's random-walk betweenness of a connected graph: sum_{s<t} I_i^{st} / ((n-1)/2),
    I_i = 1/2 sum_j B_ij |V_i - V_j| for i not in {s,t}, I_s = I_t = 1, V = L^+ (e_s - e_t)"""
    n = len(B)
    B = np.array(B, dtype=float)
    L = np.diag(B.sum(axis=1)) - B
    J = np.ones((n, n)) / n
    T = np.linalg.inv(L + J) - J
    b = np.zeros(n)
    for s in range(n):
        for t in range(s):
            x = T[:, s] - T[:, t]
            cur = 0.5 * (B * np.abs(x[:, None] - x[None, :])).sum(axis=1)
            cur[s] = cur[t] = 1.0
            b += cur
    return 2 * b / (n - 1)


def np_arenas(B):
    n = len(B)
    B = np.array(B, dtype=float)
    P = B / B.sum(axis=1)[:, None]
    ab = np.zeros(n)
    for t in range(n):
        Pt = P.copy()
        Pt[t, :] = 0
        ab += (np.linalg.inv(np.eye(n) - Pt) @ Pt).sum(axis=0)
    return ab


def np_nsi_newman(B, w, add_local_ends):
    """n.s.i. Newman betweenness of a connected component (formulas of the docstring / [Newman2005]
    with node weights; only walks that neither start nor end in the closed neighbourhood of i)"""
    n = len(B)
    B = np.array(B, dtype=float)
    w = np.array(w, dtype=float)
    Ap = B + np.eye(n)
    k = Ap @ w
    M = np.diag(w) @ (np.diag(k) - Ap @ np.diag(w)) @ np.diag(1 / w)
    Minv = np.zeros((n, n))
    Minv[:-1, :-1] = np.linalg.inv(M[:-1, :-1])
    V = ((np.diag(1 / k) @ Ap) @ Minv).T
    far = 1 - Ap
    b = np.zeros(n)
    for i in range(n):
        idx = [s for s in range(n) if far[i, s]]
        for j in range(n):
            if not B[i, j]:
                continue
            tot = 0.0
            for a_, s in enumerate(idx):
                for t in idx[:a_]:
                    tot += w[s] * w[t] * abs(V[i, s] - V[j, s] - V[i, t] + V[j, t])
            b[i] += w[j] * tot
    if add_local_ends:
        b += (2.0 * w.sum() - k) * k
    return b


def np_nsi_arenas(B, w, exclude_neighbors, stopping_mode):
    n = len(B)
    B = np.array(B, dtype=float)
    w = np.array(w, dtype=float)
    Ap = B + np.eye(n)
    k = Ap @ w
    P = np.diag(1 / k) @ Ap @ np.diag(w)
    if stopping_mode == "twinness":
        commons = Ap @ np.diag(w) @ Ap
        tw = Ap * commons / np.maximum(k[None, :], k[:, None])
    res = np.zeros(n)
    for i in range(n):
        Pi = P.copy()
        for r in range(n):
            if Ap[i, r]:
                Pi[r, :] = Pi[r, :] * (1.0 - tw[i, r]) if stopping_mode == "twinness" else 0.0
        V = np.linalg.solve(np.eye(n) - Pi, Pi)
        if exclude_neighbors:
            far = 1 - Ap[i]
            bs = (w * far) @ V * far
        else:
            bs = w @ V
        res += w[i] * bs
    return res / w


class G:
    """one graph with link weights (perfect cubes, so that the cubic roots of Fagiolo's weighted motif
    clustering are rational), dyadic node weights and a power-of-two typical weight"""

    def __init__(self, rng, A, directed):
        from .c03 import Oracle, mk_network, features
        self.A, self.directed = A, directed
        n = self.n = A.shape[0]
        self.nodes = list(range(n))
        self.orc = Oracle(A, directed)
        self.feat = features(A, directed)
        roots = [Fr(1, 2), Fr(1), Fr(3, 2), Fr(2), Fr(3)]
        C = [[(rng.choice(roots) if A[i, j] else Fr(0)) for j in range(n)] for i in range(n)]
        if not directed:
            C = [[C[min(i, j)][max(i, j)] for j in range(n)] for i in range(n)]
        self.C = C
        self.W = [[c ** 3 for c in r] for r in C]
        self.w = [Fr(rng.randrange(1, 9), 4) for _ in range(n)]
        self.tw = Fr(2) ** rng.choice([-1, 0, 1, 2])
        self.net = mk_network(A, directed)
        self.net.set_link_attribute("lw", np.array([[float(x) for x in r] for r in self.W]))
        self.net.node_weights = np.array([float(x) for x in self.w])
        self.unit = mk_network(A, directed)
        self.unit.set_link_attribute("lw", np.array([[float(x) for x in r] for r in self.W]))
        self.Ap = [[1 if (A[i, j] or i == j) else 0 for j in range(n)] for i in range(n)]
        w, Ap, N = self.w, self.Ap, self.nodes
        self.kout = [sum(Ap[i][j] * w[j] for j in N) for i in N]
        self.kin = [sum(Ap[j][i] * w[j] for j in N) for i in N]
        self.kst = [a + b for a, b in zip(self.kin, self.kout)] if directed else list(self.kout)
        self.Wtot = sum(w)

    # distances with the n.s.i. convention d_ii = 1
    def dn(self, i, j):
        return 1 if i == j else self.orc.d[i][j]


def motif_num(X, kind, i, N, w=None):
    """sum over ordered pairs (j,k) of the product of the three entries of X along the motif at i
    (times w_j w_k for the n.s.i. variant)"""
    tot = Fr(0)
    for j in N:
        for k in N:
            if kind == "cycle":
                p = X[i][j] * X[j][k] * X[k][i]
            elif kind == "mid":
                p = X[i][j] * X[k][j] * X[k][i]
            elif kind == "in":
                p = X[j][i] * X[j][k] * X[k][i]
            else:
                p = X[i][j] * X[j][k] * X[i][k]
            if p:
                tot += p * (w[j] * w[k] if w is not None else 1)
    return tot


def cases(g, rng):
    """yield (method, label, args, kwargs, expectation, what[, obj]) —
    expectation = ('val', nested Fractions/floats/None/inf [, tol]) | ('raise', name) | ('pred', fn)"""
    A, n, N, orc, d = g.A, g.n, g.nodes, g.orc, g.directed
    W, C, w, tw, Ap = g.W, g.C, g.w, g.tw, g.Ap
    ftw = float(tw)
    und = not d
    Ai = orc.A

    # ---- Laplacians ------------------------------------------------------------------------
    for dirn in ("out", "in"):
        dg = orc.inn if (d and dirn == "in") else (orc.out if d else orc.deg)
        L = [[(dg[i] if i == j else 0) - Ai[i][j] for j in N] for i in N]
        yield "laplacian", f"direction={dirn}", (), {"direction": dirn}, ("val", L), "laplacian is not D - A"
    yield "laplacian", "link_attribute=topological", (), {"link_attribute": "topological"}, \
        ("val", [[((orc.out if d else orc.deg)[i] if i == j else 0) - Ai[i][j] for j in N] for i in N]), \
        "laplacian('topological') is not the unweighted Laplacian"
    yield "laplacian", "link_attribute=lw", (), {"link_attribute": "lw"}, ("raise", "NotImplementedError"), \
        "laplacian(link_attribute) is documented as not implemented"
    if d:
        yield "laplacian", "direction=bogus", (), {"direction": "sideways"}, ("raise", "ValueError"), \
            "laplacian(direction) accepts only 'in' / 'out'"
    if und:
        yield "nsi_laplacian", "", (), {}, \
            ("val", [[(g.kst[i] if i == j else 0) - Ap[i][j] * w[j] for j in N] for i in N]), \
            "nsi_laplacian is not D_k* - A+ D_w"

    # ---- degrees and strengths ------------------------------------------------------------------
    s_in = [sum(W[j][i] for j in N) for i in N]
    s_out = [sum(W[i]) for i in N]
    for meth, unw, st in (("indegree", orc.inn, s_in), ("outdegree", orc.out, s_out),
                          ("degree", orc.deg, [a + b for a, b in zip(s_in, s_out)] if d else s_out),
                          ("bildegree", orc.bildegree(), [sum(W[i][j] * W[j][i] for j in N) for i in N])):
        yield meth, "", (), {}, ("val", unw), f"{meth} differs from the count of neighbours"
        yield meth, "key", (), {"key": "lw"}, ("val", st), f"{meth}(key) differs from the strength"
    ns_in = [sum(w[j] * W[j][i] for j in N) for i in N]
    ns_out = [sum(W[i][j] * w[j] for j in N) for i in N]
    for meth, k0, k1 in (("nsi_indegree", g.kin, ns_in), ("nsi_outdegree", g.kout, ns_out),
                         ("nsi_degree", g.kst, [a + b for a, b in zip(ns_in, ns_out)] if d else ns_in)):
        for key, base in ((None, k0), ("lw", k1)):
            for t in (None, tw):
                kw = {}
                if key:
                    kw["key"] = key
                if t is not None:
                    kw["typical_weight"] = ftw
                exp = base if t is None else [x / t - 1 for x in base]
                yield meth, ",".join(sorted(kw)), (), kw, ("val", exp), \
                    f"{meth}({','.join(sorted(kw))}) differs from the weight of the closed neighbourhood / " \
                    "the n.s.i. strength (corrected: /typical_weight - 1)"
    nbil = [sum(Ap[i][j] * w[j] * Ap[j][i] for j in N) for i in N]
    yield "nsi_bildegree", "", (), {}, ("val", nbil), "nsi_bildegree is not (A+ D_w A+)_ii"
    yield "nsi_bildegree", "typical_weight", (), {"typical_weight": ftw}, ("val", [x / tw - 1 for x in nbil]), \
        "nsi_bildegree(typical_weight) is not (A+ D_w A+)_ii / typical_weight - 1"
    yield "nsi_bildegree", "key", (), {"key": "lw"}, ("raise", "AssertionError"), \
        "nsi_bildegree(key) is documented as not implemented"
    # unit weights: corrected n.s.i. degree with typical weight 1 is the degree
    if und:   # (directed networks: the code adds the two n.s.i. degrees, the corrected value is degree + 1)
        yield "nsi_degree", "unit,typical_weight=1", (), {"typical_weight": 1.0}, ("val", orc.deg), \
            "nsi_degree(typical_weight=1) with unit node weights is not the degree", g.unit
    U = np.maximum(np.asarray(A), np.asarray(A).T)
    yield "undirected_adjacency", "", (), {}, \
        ("pred", lambda got: np.array_equal(np.asarray(got.toarray()), U)), \
        "undirected_adjacency is not max(A, A^T)"

    # ---- motif clustering: Fagiolo's link-weighted variants --------------------------------------
    bil = orc.bildegree()
    Tun = {"cycle": [orc.inn[i] * orc.out[i] - bil[i] for i in N],
           "mid": [orc.inn[i] * orc.out[i] - bil[i] for i in N],
           "in": [orc.inn[i] * (orc.inn[i] - 1) for i in N],
           "out": [orc.out[i] * (orc.out[i] - 1) for i in N]}
    Tn = {"cycle": [g.kin[i] * g.kout[i] for i in N], "mid": [g.kin[i] * g.kout[i] for i in N],
          "in": [g.kin[i] ** 2 for i in N], "out": [g.kout[i] ** 2 for i in N]}
    for kind in ("cycle", "mid", "in", "out"):
        meth = f"local_{kind}motif_clustering"
        yield meth, "", (), {}, ("val", orc.motif(kind)), f"{meth} differs from closed / open motifs"
        exp = [(motif_num(C, kind, i, N) / Tun[kind][i] if Tun[kind][i] else Fr(0)) for i in N]
        yield meth, "key", (), {"key": "lw"}, ("val", exp), \
            f"{meth}(key) differs from [Fagiolo2007]: sum of (w w w)^(1/3) over the motifs at i divided by " \
            "the number of open motifs counted with the unweighted degrees"
        nm = f"nsi_local_{kind}motif_clustering"
        exp = [motif_num(Ap, kind, i, N, w) / Tn[kind][i] for i in N]
        yield nm, "", (), {}, ("val", exp), f"{nm} differs from its definition on A+ with node weights"
        exp = [motif_num(C, kind, i, N, w) / Tn[kind][i] for i in N]
        yield nm, "key", (), {"key": "lw"}, ("val", exp), \
            f"{nm}(key) differs from the weighted motif sum over the n.s.i. degrees"
        # documented relation: all weights equal to the typical weight -> the unweighted measure
        yield nm, "unit,typical_weight=1", (), {"typical_weight": 1.0}, \
            ("val", [x if Tun[kind][i] else None for i, x in enumerate(orc.motif(kind))]), \
            f"{nm}(typical_weight=1) with unit node weights is not {meth}()", g.unit
        # the corrected branch as coded (tests/test_core pins these numbers): with k, b the corrected
        # n.s.i. degrees, (num / tw^2 - 3 b_bil - 1) / (T - ksum / tw - b_bil + 2)
        ink, outk = [x / tw - 1 for x in g.kin], [x / tw - 1 for x in g.kout]
        bilk = [sum(Ap[i][j] * w[j] * Ap[j][i] for j in N) / tw - 1 for i in N]
        Tc = {"cycle": [a * b for a, b in zip(ink, outk)], "in": [a * a for a in ink], "out": [b * b for b in outk]}
        Tc["mid"] = Tc["cycle"]
        ks = {"cycle": [a + b for a, b in zip(ink, outk)], "in": [2 * a for a in ink], "out": [2 * b for b in outk]}
        ks["mid"] = ks["cycle"]
        for key, X in ((None, Ap), ("lw", C)):
            exp = []
            for i in N:
                den = Tc[kind][i] - ks[kind][i] / tw - bilk[i] + 2
                exp.append((motif_num(X, kind, i, N, w) / tw ** 2 - 3 * bilk[i] - 1) / den
                           if den and Tc[kind][i] else None)   # `T[T == 0] = nan` in the helper
            kw = {"typical_weight": ftw}
            if key:
                kw["key"] = key
            yield nm, ",".join(sorted(kw)) + " (as coded)", (), kw, ("val", exp), \
                f"{nm}({','.join(sorted(kw))}) differs from the corrected formula the code and its tests state"

    # ---- higher-order transitivity, cliquishness ----------------------------------------------------
    if und:
        yield "local_clustering", "", (), {}, ("val", orc.local_clustering()), "local_clustering != definition"
        if n:
            yield "global_clustering", "", (), {}, ("val", sum(orc.local_clustering()) / n), \
                "global_clustering is not the mean local clustering"
        tr = orc.transitivity()
        yield "transitivity", "", (), {}, ("val", tr), "transitivity != 3 triangles / triples"
        yield "higher_order_transitivity", "order=3,estimate", (3,), {"estimate": True}, ("val", tr), \
            "higher_order_transitivity(3, estimate=True) is not the transitivity"
        k4 = sum(1 for c in itertools.combinations(N, 4)
                 if all(Ai[x][y] for x, y in itertools.combinations(c, 2)))
        stars = sum(math.comb(k, 3) for k in orc.deg)
        yield "higher_order_transitivity", "order=4", (4,), {}, \
            ("val", Fr(4 * k4, stars) if stars else Fr(0)), "higher_order_transitivity(4) != 4 K4 / stars"
        if k4 == 0:
            yield "higher_order_transitivity", "order=4,estimate", (4,), {"estimate": True}, ("val", Fr(0)), \
                "higher_order_transitivity(4, estimate=True) without any 4-clique is not 0"
        for order in (3, 4, 5):
            yield "local_cliquishness", f"order={order}", (order,), {}, ("val", orc.cliquishness(order)), \
                f"local_cliquishness({order}) != cliques among the neighbours / C(k, {order - 1})"
        yield "matching_index", "", (), {}, ("val", orc.matching()), "matching_index != |cap|/|cup|"
        yield "average_neighbors_degree", "", (), {}, \
            ("val", [(Fr(sum(orc.deg[j] for j in orc.N_out[i]), orc.deg[i]) if orc.deg[i] else None) for i in N]), \
            "average_neighbors_degree != mean degree of the neighbours"
        yield "max_neighbors_degree", "", (), {}, \
            ("val", [max([orc.deg[j] for j in orc.N_out[i]] or [0]) for i in N]), \
            "max_neighbors_degree != largest degree among the neighbours"
        k = g.kst
        yield "nsi_average_neighbors_degree", "", (), {}, \
            ("val", [sum(Ap[i][j] * w[j] * k[j] for j in N) / k[i] for i in N]), \
            "nsi_average_neighbors_degree != sum_j A+_ij w_j k*_j / k*_i"
        yield "nsi_max_neighbors_degree", "", (), {}, ("val", [max(k[j] for j in N if Ap[i][j]) for i in N]), \
            "nsi_max_neighbors_degree != max k*_j over the closed neighbourhood"
        commons = [[sum(Ap[i][l] * w[l] * Ap[l][j] for l in N) for j in N] for i in N]
        yield "nsi_twinness", "", (), {}, \
            ("val", [[Ap[i][j] * commons[i][j] / max(k[i], k[j]) for j in N] for i in N]), \
            "nsi_twinness != A+_ij (A+ D_w A+)_ij / max(k*_i, k*_j)"
        # n.s.i. clustering family
        num3 = [sum(Ap[i][j] * w[j] * Ap[j][l] * w[l] * Ap[l][i] for j in N for l in N) for i in N]
        numc = [sum(Ai[i][j] * w[j] * Ap[j][l] * Ai[i][l] * w[l] for j in N for l in N) for i in N]
        cl = [(numc[i] + 2 * k[i] * w[i] - w[i] ** 2) / k[i] ** 2 for i in N]
        yield "nsi_local_clustering", "", (), {}, ("val", cl), "nsi_local_clustering != its definition"
        kc = [x / tw - 1 for x in k]
        yield "nsi_local_clustering", "typical_weight", (), {"typical_weight": ftw}, \
            ("val", [((num3[i] / tw ** 2 - 3 * kc[i] - 1) / (kc[i] * (kc[i] - 1)) if kc[i] * (kc[i] - 1) else None)
                     for i in N]), "nsi_local_clustering(typical_weight) != corrected n.s.i. clustering"
        yield "nsi_local_clustering", "unit,typical_weight=1", (), {"typical_weight": 1.0}, \
            ("val", [x if orc.deg[i] >= 2 else None for i, x in enumerate(orc.local_clustering())]), \
            "nsi_local_clustering(typical_weight=1) with unit node weights is not local_clustering()", g.unit
        yield "nsi_global_clustering", "", (), {}, ("val", sum(c * x for c, x in zip(cl, w)) / g.Wtot), \
            "nsi_global_clustering is not the weighted mean of nsi_local_clustering"
        den = sum(w[i] * Ap[i][j] * w[j] * Ap[j][l] * w[l] for i in N for j in N for l in N)
        yield "nsi_transitivity", "", (), {}, ("val", sum(num3[i] * w[i] for i in N) / den), \
            "nsi_transitivity != weighted closed / open triples on A+"
        yield "nsi_local_soffer_clustering", "", (), {}, \
            ("val", [num3[i] / sum(min(k[i], k[j]) * w[j] * Ap[j][i] for j in N) for i in N]), \
            "nsi_local_soffer_clustering != numerator / sum_j min(k*_i,k*_j) w_j A+_ji"
    else:
        yield "local_cliquishness", "order=4", (4,), {}, ("raise", "NetworkError"), \
            "local_cliquishness on a directed network is documented as not implemented"

    # ---- assortativity, coreness, hamming distance ---------------------------------------------------
    ass = orc.assortativity()
    yield "assortativity", "", (), {}, (("raise", "ZeroDivisionError") if ass is None else ("val", ass)), \
        "assortativity != Pearson correlation of the end-point degrees"
    yield "coreness", "", (), {}, ("val", orc.coreness_peel()), "coreness != k-core index"
    from .c03 import mk_network, random_graph
    B = random_graph(rng, n, 0.4, d)
    yield "hamming_distance_from", "", (mk_network(B, d),), {}, \
        ("val", Fr(int((np.asarray(A) != B).sum()), n * (n - 1))), \
        "hamming_distance_from != share of differing entries"
    yield "hamming_distance_from", "other size", (mk_network(random_graph(rng, n + 1, 0.4, d), d),), {}, \
        ("raise", "NetworkError"), "hamming_distance_from of networks of different size must raise"

    # ---- shortest paths and what is built on them -------------------------------------------------------
    from .c03 import weighted_floyd
    D = orc.d
    yield "path_lengths", "", (), {}, ("val", D), "path_lengths != shortest path lengths"
    Dw = weighted_floyd(Ai, W, n)
    yield "path_lengths", "link_attribute", (), {"link_attribute": "lw"}, ("val", Dw), \
        "path_lengths(link_attribute) != weighted shortest path lengths"
    for la, dm in ((None, D), ("lw", Dw)):
        kw = {"link_attribute": la} if la else {}
        lab = "link_attribute" if la else ""
        fin = [dm[i][j] for i in N for j in N if i != j and dm[i][j] != INF]
        if fin:
            yield "average_path_length", lab, (), kw, ("val", Fr(sum(fin)) / len(fin)), \
                "average_path_length != mean over the connected pairs"
            yield "global_efficiency", lab, (), kw, ("val", sum(1 / Fr(x) for x in fin) / (n * (n - 1))), \
                "global_efficiency != mean of 1/d over ordered pairs"
        if la:
            cc = []
            for i in N:
                s = sum((Fr(n) if x == INF else x) for x in dm[i])
                cc.append(Fr(n - 1) / s if s else Fr(0))
            yield "closeness", lab, (), kw, ("val", cc), "closeness(link_attribute) != (N-1)/sum_j d_ij, inf -> N"
        elif und and orc.connected() and n >= 2:
            yield "closeness", "", (), {}, ("val", [Fr(n - 1, sum(D[i])) for i in N]), "closeness != (N-1)/sum d"
        if 3 <= n <= 7 and fin:
            E = sum(1 / Fr(x) for x in fin) / (n * (n - 1))
            ev, okv = [], True
            for i in N:
                keep = [v for v in N if v != i]
                subA = [[Ai[x][y] for y in keep] for x in keep]
                if not any(any(r) for r in subA):
                    okv = False   # known finding C03-F1
                    break
                ds = weighted_floyd(subA, [[(W[x][y] if la else Fr(Ai[x][y])) for y in keep] for x in keep], n - 1)
                ev.append((E - sum(1 / Fr(ds[x][y]) for x in range(n - 1) for y in range(n - 1)
                                   if x != y and ds[x][y] != INF) / ((n - 1) * (n - 2))) / E)
            if okv:
                yield "local_vulnerability", lab, (), kw, ("val", ev), "local_vulnerability != (E - E_i)/E"
    fin = [D[i][j] for i in N for j in N if i != j and D[i][j] != INF]
    if fin:
        yield "diameter", "", (), {}, ("val", max(fin)), "diameter != largest finite distance"
        conn = orc.connected()
        yield "diameter", "only_connected=False", (), {"only_connected": False}, \
            (("val", max(fin)) if conn else ("pred", lambda got: got in (INF, n))), \
            "diameter(only_connected=False) is not the diameter / inf or N when unconnected"
        from .c03 import Oracle
        du = Oracle(np.maximum(np.asarray(A), np.asarray(A).T), False).d
        yield "diameter", "directed=False", (), {"directed": False}, \
            ("val", max(du[i][j] for i in N for j in N if i != j and du[i][j] != INF)), \
            "diameter(directed=False) != largest finite distance ignoring directions"
    if n >= 2:
        dn = g.dn
        yield "nsi_closeness", "", (), {}, \
            ("val", [(g.Wtot / sum(w[j] * dn(i, j) for j in N) if all(x != INF for x in D[i]) else Fr(0))
                     for i in N]), "nsi_closeness != W / sum_j w_j d*_ij"
        yield "nsi_harmonic_closeness", "", (), {}, \
            ("val", [sum(w[j] / Fr(dn(i, j)) for j in N if dn(i, j) != INF) / g.Wtot for i in N]), \
            "nsi_harmonic_closeness != sum_j w_j / d*_ij / W"
        yield "nsi_exponential_closeness", "", (), {}, \
            ("val", [sum(w[j] * Fr(1, 2 ** dn(i, j)) for j in N if dn(i, j) != INF) / g.Wtot for i in N]), \
            "nsi_exponential_closeness != sum_j w_j 2^-d*_ij / W"
        cp = [(i, j) for i in N for j in N if dn(i, j) != INF]
        yield "nsi_average_path_length", "", (), {}, \
            ("val", sum(w[i] * w[j] * dn(i, j) for i, j in cp) / sum(w[i] * w[j] for i, j in cp)), \
            "nsi_average_path_length != weighted mean of d* over connected pairs"
        yield "nsi_global_efficiency", "", (), {}, \
            ("val", sum(w[i] * w[j] / Fr(dn(i, j)) for i, j in cp) / g.Wtot ** 2), \
            "nsi_global_efficiency != weighted mean of 1/d*"

    # ---- shortest-path betweenness family ------------------------------------------------------------
    if n <= 14:
        yield "betweenness", "", (), {}, ("val", orc.betweenness()), "betweenness != pair-dependency sum"
        if und:
            LB = orc.link_betweenness()
            yield "link_betweenness", "", (), {}, ("val", LB), "link_betweenness != definition"
            yield "edge_betweenness", "", (), {}, ("val", LB), "edge_betweenness != definition"
            from .c03 import nsi_betweenness_def
            S = sorted(rng.sample(N, rng.randrange(1, n + 1)))
            T = rng.sample(N, rng.randrange(1, n + 1))
            one = [Fr(1)] * n
            yield "interregional_betweenness", "", (), {}, ("val", orc.interregional(N, N)), \
                "interregional_betweenness() over all nodes != twice the betweenness"
            yield "interregional_betweenness", "sources,targets", (), {"sources": S, "targets": T}, \
                ("val", orc.interregional(S, T)), "interregional_betweenness(sources, targets) != definition"
            yield "nsi_interregional_betweenness", "", (S, T), {}, ("val", nsi_betweenness_def(orc, w, S, T)), \
                "nsi_interregional_betweenness != weighted pair-dependency sum"
            yield "nsi_betweenness", "", (), {}, ("val", nsi_betweenness_def(orc, w, N, N)), \
                "nsi_betweenness() != weighted pair-dependency sum"
            yield "nsi_betweenness", "sources,targets", (), {"sources": np.array(S), "targets": tuple(T)}, \
                ("val", nsi_betweenness_def(orc, w, S, T)), "nsi_betweenness(sources, targets) != definition"
            yield "nsi_betweenness", "nsi=False", (), {"nsi": False, "sources": S}, \
                ("val", nsi_betweenness_def(orc, one, S, N)), \
                "nsi_betweenness(nsi=False) must ignore the node weights"

    # ---- random-walk betweenness: per connected component, also on disconnected graphs -----------------
    if und and n <= 14:
        comps = comps_of(orc)
        nb, ab = [Fr(0)] * n, [Fr(0)] * n
        nn0, nn1 = [0.0] * n, [float(w[i]) ** 2 for i in N]
        na = {(e, s): [0.0] * n for e in (True, False) for s in ("neighbors", "twinness")}
        for c in comps:
            if len(c) < 2:
                continue
            Bc = [[Ai[x][y] for y in c] for x in c]
            wc = [w[x] for x in c]
            v1, v2 = np_newman(Bc), np_arenas(Bc)
            v3, v4 = np_nsi_newman(Bc, wc, False), np_nsi_newman(Bc, wc, True)
            for pos, node in enumerate(c):
                nb[node], ab[node], nn0[node], nn1[node] = v1[pos], v2[pos], v3[pos], v4[pos]
            for (e, s) in na:
                v = np_nsi_arenas(Bc, wc, e, s)
                for pos, node in enumerate(c):
                    na[(e, s)][node] = v[pos]
        tol = 1e-6
        yield "newman_betweenness", "", (), {}, ("val", nb, tol), \
            "newman_betweenness != sum_{s<t} I_i^{st} / ((n_c - 1)/2) evaluated per connected component"
        yield "arenas_betweenness", "", (), {}, ("val", ab, tol), \
            "arenas_betweenness != expected visits of the absorbing walk, per connected component"
        yield "nsi_newman_betweenness", "", (), {}, ("val", nn0, tol), \
            "nsi_newman_betweenness != its definition per connected component"
        yield "nsi_newman_betweenness", "add_local_ends", (), {"add_local_ends": True}, ("val", nn1, tol), \
            "nsi_newman_betweenness(add_local_ends=True) != definition + (2W - k*) k* per component"
        for (e, s), v in na.items():
            kw = {}
            if not e:
                kw["exclude_neighbors"] = False
            if s != "neighbors":
                kw["stopping_mode"] = s
            yield "nsi_arenas_betweenness", ",".join(sorted(kw)), (), kw, ("val", v, tol), \
                f"nsi_arenas_betweenness({kw}) != its definition per connected component"

    # ---- spectral measures (connected, undirected) -------------------------------------------------------
    if und and n >= 3 and orc.connected():
        Af = np.array(Ai, dtype=float)
        ev, Vv = np.linalg.eigh(Af)
        if ev[-1] - ev[-2] > 1e-3 and abs(ev[-1] + ev[0]) > 1e-3:
            v = np.abs(Vv[:, -1])
            yield "eigenvector_centrality", "", (), {}, ("val", list(v / v.max()), 1e-6), \
                "eigenvector_centrality != Perron vector / max"
        sw = np.sqrt(np.array([float(x) for x in w]))
        As = sw[:, None] * np.array(Ap, dtype=float) * sw[None, :]
        ev, Vv = np.linalg.eigh(As)
        if ev[-1] - ev[-2] > 1e-3:
            v = np.abs(Vv[:, -1]) / sw
            yield "nsi_eigenvector_centrality", "", (), {}, ("val", list(v / v.max()), 1e-6), \
                "nsi_eigenvector_centrality != Perron vector of D_w^1/2 A+ D_w^1/2 / sqrt(w) / max"
        lev = np.linalg.eigvalsh(np.diag(Af.sum(axis=1)) - Af)
        yield "msf_synchronizability", "", (), {}, ("val", float(lev[-1] / lev[1]), 1e-6), \
            "msf_synchronizability != lambda_max / lambda_2"
    # PageRank: stationary vector of the damped walk (0.85), dangling nodes jump uniformly
    if n >= 2:
        for lab, kw, M in (("", {}, np.array(Ai, dtype=float)),
                           ("link_attribute", {"link_attribute": "lw"},
                            np.array([[float(x) for x in r] for r in W])),
                           ("use_directed=False", {"use_directed": False},
                            (np.array(Ai, dtype=float) + np.array(Ai, dtype=float).T) if d
                            else np.array(Ai, dtype=float))):
            rs = M.sum(axis=1)
            P = np.where(rs[:, None] > 0, M / np.where(rs[:, None] > 0, rs[:, None], 1), 1.0 / n)
            Gm = 0.85 * P.T + 0.15 / n
            pr = np.linalg.solve(np.eye(n) - Gm + np.ones((n, n)), np.ones(n))
            yield "pagerank", lab, (), kw, ("val", list(pr / pr.sum()), 1e-6), \
                f"pagerank({lab}) != stationary vector of the damped random walk"


def compare(got, exp, tol):
    from .c03 import close, fl
    g = fl(got)
    e = flat(exp)
    if len(g) != len(e):
        return False
    for x, q in zip(g, e):
        if q is None:
            continue
        if isinstance(q, float) and not math.isinf(q):
            if not (abs(x - q) <= tol * max(1.0, abs(q))):
                return False
        elif not close(x, q, tol):
            return False
    return True


def model_requests(ctx, run, g):
    """round 4 requests to the Lean model (Model/NetRW.lean): link-weighted motif clustering, the whole
    method `newman_betweenness` (components, exact inverse, kernel, normalisation by the component size,
    scatter), the Cython kernel `_mpi_newman_betweenness` at its own boundary with dyadic potentials"""
    from .c03 import quiet, fl, enc_mat, enc_frs
    from pyunicorn.core._ext import numerics as K
    from pyunicorn.core._ext.types import ADJ, DFIELD, to_cy
    rng = ctx.rng
    A, n = g.A, g.n
    m = enc_mat(A)
    if A.any():
        impl = []
        for kind in ("cycle", "mid", "in", "out"):
            st, got = quiet(getattr(g.net, f"local_{kind}motif_clustering"), key="lw")
            impl.append(fl(got) if st == "ok" else None)
        run.approx("motifw " + m + " " + ";".join(enc_frs(r) for r in g.C), impl, ("motifw", A, g.directed))
    if g.directed or n > 10 or n == 0:
        return
    st, got = quiet(g.net.newman_betweenness)
    run.approx("newman " + m, [fl(got) if st == "ok" else None], ("newman", A, False))
    run.newman_def.append("newmandef " + m)
    # kernel boundary: a slice of rows [start, stop) of A, an arbitrary dyadic matrix V (exact in binary64)
    start = rng.randrange(0, n)
    stop = rng.randrange(start, n + 1)
    V = [[Fr(rng.randrange(-40, 41), 8) for _ in range(n)] for _ in range(n)]
    st, got = quiet(K._mpi_newman_betweenness, to_cy(np.asarray(A)[start:stop, :], ADJ),
                    to_cy(np.array([[float(x) for x in r] for r in V]), DFIELD), n, start, stop)
    ctx.count("kernel:_mpi_newman_betweenness")
    if start < stop:
        run.exact(f"newmankernel {enc_mat(np.asarray(A)[start:stop, :])} {';'.join(enc_frs(r) for r in V)} "
                  f"{n} {start} {stop}",
                  (enc_frs(Fr(float(x)) for x in got[0]) if st == "ok" and (got[1], got[2]) == (start, stop)
                   else f"raise:{got}"), ("newmankernel", A, False))


def sweep_graph(ctx, A, directed, defaults, run=None):
    from .c03 import quiet, fl
    rng = ctx.rng
    g = G(rng, A, directed)
    ctx.count("sweep:graphs")
    if run is not None:
        model_requests(ctx, run, g)
    for case in cases(g, rng):
        method, label, args, kwargs, exp, what = case[:6]
        obj = case[6] if len(case) > 6 else g.net
        if not A.any() and (kwargs.get("key") or kwargs.get("link_attribute") == "lw"):
            continue   # a link attribute cannot be stored on a network without links (C05's subject)
        st, got = quiet(getattr(obj, method), *args, **kwargs)
        if exp[0] == "raise":
            ok = st == "raise" and got == exp[1]
        elif st != "ok":
            ok = False
        elif exp[0] == "pred":
            ok = bool(exp[1](got))
        else:
            ok = compare(got, exp[1], exp[2] if len(exp) > 2 else 1e-9)
        ctx.count("sweep:" + method + ("(" + label + ")" if label else ""))
        if not ok:
            sg = {"kind": "sweep", "method": method, "arguments": label, "directed": directed,
                  "input_class": g.feat}
            if method.startswith("nsi_local_") and method.endswith("motif_clustering") \
                    and label == "unit,typical_weight=1":
                sg["family"] = "nsi_local_motif_clustering"
            ctx.fail(sg, what,
                     {"method": method, "args": [str(a)[:200] for a in args],
                      "kwargs": {k: (v if isinstance(v, (int, float, str, bool)) else str(v)) for k, v in kwargs.items()},
                      "directed": directed, "adjacency": np.asarray(A).tolist(),
                      "link_weights": [[str(x) for x in r] for r in g.W], "node_weights": [str(x) for x in g.w]
                      if obj is g.net else "unit", "expected": [str(x) for x in flat(exp[1])][:400]
                      if exp[0] == "val" else exp[1] if exp[0] == "raise" else "predicate",
                      "observed": (fl(got)[:400] if st == "ok" and exp[0] != "pred" else str(got)[:300])})
        mark(method)
        dflt = defaults.get(method) or {}
        for p, v in kwargs.items():
            if p in dflt and not (v is dflt[p] or (isinstance(v, (int, float, str, bool)) and v == dflt[p])):
                mark(method, p)


def coverage_obligation(ctx):
    api = public_api()
    missing = []
    for name, opt in sorted(api.items()):
        if name in NOT_MEASURES:
            continue
        if not EXERCISED.get((name, None)):
            missing.append(f"{name}: public measure never compared with a definition")
            continue
        for p in (opt or {}):
            if (name, p) in EXCLUDED_ARGS:
                continue
            if not EXERCISED.get((name, p)):
                missing.append(f"{name}({p}=...): optional argument never given a non-default value")
    stale = [k for k in NOT_MEASURES if k not in api]
    n_args = sum(1 for (m, p) in EXERCISED if p is not None)
    ctx.obligation(f"coverage: every public measure of Network ({sum(1 for k in api if k not in NOT_MEASURES)} by "
                   f"introspection) and every optional argument ({n_args}) was compared with a definition",
                   "correspondence", not missing and not stale,
                   "\n".join(missing + [f"{k}: excluded name no longer exists" for k in stale]))
    ctx.extra["sweep_calls"] = sum(v for (m, p), v in EXERCISED.items() if p is None)
