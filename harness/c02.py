"""C02 — Node-splitting invariance of all n.s.i. measures.

proof  : lean/Pyunicorn/Properties/C02.lean — `eval_split` (every expression of the n.s.i.
         expression language is invariant under a split, for every graph, node, proportion,
         tuple of nodes), `eval_splits` (iterated), per-measure corollaries, `catalogue_split`.
tie    : correspondence — every measure of the catalogue (Model/NsiMeasures.lean) is
         evaluated by the Lean driver in exact rationals and compared with the
         implementation on the same weighted graph (1e-9), the model's `split` is compared
         with `Network.splitted_copy`, and igraph's distances on the split copy with the
         pulled-back distances the model assumes.
search : the property itself on the implementation: measure on net vs on
         net.splitted_copy(node, proportion) (global equal, per node equal + twin = v,
         pairwise equal on untouched pairs), iterated splits.
"""
import contextlib
import io
import itertools
from fractions import Fraction

import numpy as np

from . import common

TW = Fraction(1, 2)


def quiet(fn, *a, **k):
    with contextlib.redirect_stdout(io.StringIO()):
        return fn(*a, **k)


def fr(x):
    return Fraction(x).limit_denominator(10 ** 12) if not isinstance(x, Fraction) else x


def enc_rat(q):
    q = Fraction(q)
    return str(q.numerator) if q.denominator == 1 else f"{q.numerator}/{q.denominator}"


def enc_rats(v):
    return ",".join(enc_rat(x) for x in v) or "-"


def enc_ratmat(M):
    return ";".join(enc_rats(r) for r in M) or "-"


def enc_boolmat(A):
    return ";".join(",".join(str(int(x)) for x in r) for r in A) or "-"


def enc_bools(v):
    return ",".join(str(int(x)) for x in v) or "-"


def dist_matrix(net):
    D = quiet(net.path_lengths)
    return [[-1 if np.isinf(x) else int(x) for x in row] for row in D]


def request(kind, net, Wroot, g0, g1, extra=""):
    n = net.N
    A = net.adjacency
    W3 = [[Fraction(int(round(Wroot[i][j]))) ** 3 if A[i][j] else 0 for j in range(n)]
          for i in range(n)]
    Wr = [[Fraction(int(round(Wroot[i][j]))) if A[i][j] else 0 for j in range(n)] for i in range(n)]
    w = [Fraction(float(x)) for x in net.node_weights]
    D = dist_matrix(net)
    return (f"{kind} {extra}{n} {enc_boolmat(A)} {enc_rats(w)} {enc_ratmat(W3)} {enc_ratmat(Wr)} "
            f"{enc_bools(g0)} {enc_bools(g1)} " + (";".join(",".join(map(str, r)) for r in D) or "-"))


def impl_values(net, directed, g0, g1, all_reach):
    """name -> list of floats (arity 0: 1 value, 1: n values, 2: n*n row-major) | None"""
    from pyunicorn.core import InteractingNetworks
    n = net.N
    out = {}

    def put(name, fn, flat=False):
        try:
            v = quiet(fn)
        except Exception as ex:  # noqa
            out[name] = ("raise", type(ex).__name__)
            return
        v = np.asarray(v, dtype=float)
        out[name] = v.reshape(-1).tolist()
    tw = float(TW)
    has_links = net.n_links > 0
    put("total_node_weight", lambda: net.total_node_weight)
    put("nsi_indegree", net.nsi_indegree)
    put("nsi_outdegree", net.nsi_outdegree)
    put("nsi_indegree_tw", lambda: net.nsi_indegree(typical_weight=tw))
    put("nsi_outdegree_tw", lambda: net.nsi_outdegree(typical_weight=tw))
    if has_links:       # without a link no link attribute can be stored
        put("nsi_indegree_key", lambda: net.nsi_indegree(key="w"))
        put("nsi_outdegree_key", lambda: net.nsi_outdegree(key="w"))
    put("nsi_bildegree", net.nsi_bildegree)
    put("nsi_bildegree_tw", lambda: net.nsi_bildegree(typical_weight=tw))
    for m in ("cycle", "mid", "in", "out"):
        f = getattr(net, f"nsi_local_{m}motif_clustering")
        put(f"nsi_local_{m}motif_clustering", f)
        if has_links:
            put(f"nsi_local_{m}motif_clustering_key", lambda f=f: f(key="w"))
        put(f"nsi_local_{m}motif_clustering_tw", lambda f=f: f(typical_weight=tw))
    if directed:
        put("nsi_degree_directed", net.nsi_degree)
    else:
        put("nsi_degree", net.nsi_degree)
        put("nsi_degree_tw", lambda: net.nsi_degree(typical_weight=tw))
        if has_links:
            put("nsi_degree_key", lambda: net.nsi_degree(key="w"))
        put("nsi_twinness", net.nsi_twinness)
        put("nsi_average_neighbors_degree", net.nsi_average_neighbors_degree)
        put("nsi_max_neighbors_degree", net.nsi_max_neighbors_degree)
        put("nsi_local_clustering", net.nsi_local_clustering)
        put("nsi_local_clustering_tw", lambda: net.nsi_local_clustering(typical_weight=tw))
        put("nsi_global_clustering", net.nsi_global_clustering)
        put("nsi_transitivity", net.nsi_transitivity)
        put("nsi_local_soffer_clustering", net.nsi_local_soffer_clustering)
        put("nsi_average_path_length", net.nsi_average_path_length)
        put("nsi_closeness", net.nsi_closeness)
        put("nsi_harmonic_closeness", net.nsi_harmonic_closeness)
        put("nsi_exponential_closeness", net.nsi_exponential_closeness)
        put("nsi_global_efficiency", net.nsi_global_efficiency)
        # measures outside the expression language: no theorem, invariance checked by the oracle
        put("nsi_betweenness@oracle", net.nsi_betweenness)
        if all_reach and n >= 3:
            put("nsi_eigenvector_centrality@oracle", net.nsi_eigenvector_centrality)
            put("nsi_newman_betweenness@oracle", net.nsi_newman_betweenness)
            put("nsi_arenas_betweenness@oracle", net.nsi_arenas_betweenness)
        if n >= 3:
            # non-default variant documented as n.s.i., also on networks with several (small)
            # components, which are treated one by one
            put("nsi_newman_betweenness_ends@oracle",
                lambda: net.nsi_newman_betweenness(add_local_ends=True))
            if not all_reach:
                put("nsi_newman_betweenness_comp@oracle", net.nsi_newman_betweenness)
        L1 = [i for i in range(n) if g0[i]]
        L2 = [i for i in range(n) if g1[i]]
        if L1 and L2:
            inet = InteractingNetworks(adjacency=net.adjacency, node_weights=net.node_weights,
                                       silence_level=3)

            def expand(vals, L):
                full = [float("nan")] * n
                for k, i in enumerate(L):
                    full[i] = float(vals[k])
                return full
            put("nsi_cross_degree", lambda: expand(inet.nsi_cross_degree(L1, L2), L1))
            put("nsi_internal_degree", lambda: expand(inet.nsi_internal_degree(L1), L1))
            put("nsi_cross_mean_degree", lambda: inet.nsi_cross_mean_degree(L1, L2))
            put("nsi_cross_edge_density", lambda: inet.nsi_cross_edge_density(L1, L2))
            put("nsi_cross_local_clustering",
                lambda: expand(inet.nsi_cross_local_clustering(L1, L2), L1))
            put("nsi_cross_global_clustering", lambda: inet.nsi_cross_global_clustering(L1, L2))
            put("nsi_cross_transitivity", lambda: inet.nsi_cross_transitivity(L1, L2))
            sfx = "" if all_reach else "@unreachable"   # outside the model's catalogue: oracle only
            put("nsi_cross_closeness_centrality" + sfx,
                lambda: expand(inet.nsi_cross_closeness_centrality(L1, L2), L1))
            put("nsi_cross_average_path_length" + sfx,
                lambda: inet.nsi_cross_average_path_length(L1, L2))
    return out


def parse_model(ans):
    out = {}
    for part in ans.split("|"):
        name, _, vals = part.partition("=")
        out[name] = [] if vals == "-" else [Fraction(x) for x in vals.split(",")]
    return out


def close(a, b, tol=1e-9):
    if a != a:          # NaN placeholder (node outside the group): not compared
        return True
    if b != b:
        return False
    if abs(a) == float("inf") or abs(b) == float("inf"):
        return a == b
    return abs(a - b) <= tol * max(1.0, abs(a), abs(b))


def gen_graphs(ctx):
    rng = ctx.rng
    quick = ctx.tier == "quick"
    out = []
    # exhaustive small undirected graphs
    for n in ([2, 3, 4] if quick else [2, 3, 4, 5]):
        pairs = [(i, j) for i in range(n) for j in range(i)]
        allbits = list(itertools.product([0, 1], repeat=len(pairs)))
        if n == 5:
            allbits = rng.sample(allbits, 400)
        if quick and n == 4:
            allbits = rng.sample(allbits, 24)
        for bits in allbits:
            A = np.zeros((n, n), dtype=int)
            for (i, j), b in zip(pairs, bits):
                A[i, j] = A[j, i] = b
            out.append((A, False))
    if quick:
        n = 5
        pairs = [(i, j) for i in range(n) for j in range(i)]
        for _ in range(20):
            A = np.zeros((n, n), dtype=int)
            for (i, j) in pairs:
                A[i, j] = A[j, i] = rng.random() < 0.5
            out.append((A, False))
    # directed
    for n in ([2, 3] if quick else [2, 3, 4]):
        pairs = [(i, j) for i in range(n) for j in range(n) if i != j]
        allbits = list(itertools.product([0, 1], repeat=len(pairs)))
        if len(allbits) > (40 if quick else 600):
            allbits = rng.sample(allbits, 40 if quick else 600)
        for bits in allbits:
            A = np.zeros((n, n), dtype=int)
            for (i, j), b in zip(pairs, bits):
                A[i, j] = b
            out.append((A, True))
    # random larger
    for _ in range(12 if quick else 150):
        n = rng.randrange(6, 13 if quick else 25)
        p = rng.choice([0.15, 0.3, 0.6])
        directed = rng.random() < 0.3
        A = np.zeros((n, n), dtype=int)
        for i in range(n):
            for j in range(i):
                if rng.random() < p:
                    A[i, j] = A[j, i] = 1
                    if directed and rng.random() < 0.4:
                        A[i, j] = 0
        out.append((A, directed))
    return out


def run(ctx):
    from pyunicorn.core import Network
    rng = ctx.rng
    quick = ctx.tier == "quick"
    ctx.rule = ("all labelled undirected graphs on <=4 (thorough: <=5, sampled) nodes, directed on "
                "<=3 (<=4), random 6..12 (..24) nodes; dyadic positive weights, cube link "
                "attributes, every node x proportion in {1/4,1/2,3/4} (quick: sampled), random "
                "bipartitions; distinct = distinct (graph, weights, node, proportion); non-trivial "
                "= graph has a link and >= 3 nodes")
    ctx.proofs()
    graphs = gen_graphs(ctx)
    reqs, meta = [], []
    for gi, (A, directed) in enumerate(graphs):
        n = A.shape[0]
        if gi % 3 == 2:
            w = np.array([float(rng.choice([8, 12, 18, 24, 30, 36])) for _ in range(n)])
        else:
            w = np.array([rng.choice([0.5, 1.0, 1.5, 2.0, 2.5, 4.0]) for _ in range(n)])
        Wroot = np.zeros((n, n))
        for i in range(n):
            for j in range(n):
                if A[i, j] and (directed or j < i or not A[j, i]):
                    Wroot[i, j] = rng.choice([1, 2, 3])
                    if not directed:
                        Wroot[j, i] = Wroot[i, j]
        net = Network(adjacency=A, directed=directed, node_weights=w, silence_level=3)
        net.set_link_attribute("w", Wroot ** 3)
        g0 = [rng.random() < 0.5 for _ in range(n)]
        if n >= 2:
            g0[0], g0[1] = True, False
        g1 = [not x for x in g0]
        D = quiet(net.path_lengths)
        all_reach = not np.isinf(D).any()
        nodes = list(range(n))
        if quick and n > 3:
            nodes = rng.sample(nodes, 2)
        props = [Fraction(1, 4), Fraction(1, 2), Fraction(3, 4)]
        if quick:
            props = [rng.choice(props)]
        base_impl = impl_values(net, directed, g0, g1, all_reach)
        reqs.append(request("eval", net, Wroot, g0, g1, extra=f"{enc_rat(TW)} "))
        meta.append(("eval", gi, None, None, base_impl, n))
        for v in nodes:
            for p in props:
                nontriv = n >= 3 and A.sum() > 0
                ctx.case((A.tobytes().hex(), directed, w.tobytes().hex(), v, str(p)), nontriv,
                         {"adjacency": A.tolist(), "directed": directed, "weights": w.tolist(),
                          "node": v, "proportion": str(p)} if n <= 4 else None)
                ctx.count("directed" if directed else "undirected")
                ctx.count(f"n={n}" if n <= 5 else "n>5")
                ctx.count("connected" if all_reach else "disconnected")
                sp = quiet(net.splitted_copy, node=v, proportion=float(p))
                sg0, sg1 = g0 + [g0[v]], g1 + [g1[v]]
                sWroot = np.zeros((n + 1, n + 1))
                sWroot[:n, :n] = Wroot
                sWroot[:n, n] = Wroot[:, v]
                sWroot[n, :n] = Wroot[v, :]
                sD = quiet(sp.path_lengths)
                s_reach = not np.isinf(sD).any()
                sp_impl = impl_values(sp, directed, sg0, sg1, s_reach)
                # ---- oracle: the property on the implementation -------------------------
                oracle(ctx, base_impl, sp_impl, n, v, p, A, directed, w, Wroot, g0)
                # ---- correspondence requests --------------------------------------------
                # (a) the model's split vs splitted_copy (adjacency, weights, attribute, groups)
                reqs.append(request("split", net, Wroot, g0, g1, extra=f"{v} {enc_rat(p)} "))
                sA = sp.adjacency
                try:
                    sW = sp.link_attribute("w")
                except KeyError:        # no link carries the attribute (edgeless graph)
                    sW = np.zeros((n + 1, n + 1))
                impl_split = (f"{n + 1} {enc_boolmat(sA)} "
                              f"{enc_rats([Fraction(float(x)) for x in sp.node_weights])} "
                              f"{enc_ratmat([[Fraction(int(round(x))) for x in r] for r in sW])} "
                              f"{enc_bools(sg0)} {enc_bools(sg1)}")
                meta.append(("split", gi, v, p, impl_split, n))
                # (b) measures on the implementation's split copy (with igraph's distances)
                reqs.append(request("eval", sp, sWroot, sg0, sg1, extra=f"{enc_rat(TW)} "))
                meta.append(("eval", gi, v, p, sp_impl, n + 1))
                # (c) measures on the model's own split (pulled-back distances): must equal (b)
                reqs.append(request("evalsplit", net, Wroot, g0, g1,
                                    extra=f"{enc_rat(TW)} {v} {enc_rat(p)} "))
                meta.append(("evalsplit", gi, v, p, sp_impl, n + 1))
        # iterated splits (oracle only)
        if n >= 3 and not directed and gi % 5 == 0:
            cur = net
            vals0 = quiet(cur.nsi_transitivity), quiet(cur.nsi_global_clustering)
            for _ in range(3):
                cur = quiet(cur.splitted_copy, node=rng.randrange(cur.N),
                            proportion=rng.choice([0.25, 0.5, 0.75]))
            vals1 = quiet(cur.nsi_transitivity), quiet(cur.nsi_global_clustering)
            ctx.count("iterated-splits")
            for nm, a, b in zip(("nsi_transitivity", "nsi_global_clustering"), vals0, vals1):
                if not (close(a, b) or (a != a and b != b)):
                    ctx.fail({"kind": "iterated-split", "measure": nm},
                             f"{nm} changes under three successive splits: {a} -> {b}",
                             {"adjacency": A.tolist(), "weights": w.tolist()})
    model = common.driver(ctx.pid, reqs)
    bad_split, bad_eval, nvals = [], [], 0
    for ans, (kind, gi, v, p, impl, n) in zip(model, meta):
        if kind == "split":
            if ans != impl:
                bad_split.append(f"graph#{gi} v={v} p={p}: model={ans[:160]} impl={impl[:160]}")
            continue
        mv = parse_model(ans)
        for name, ivals in impl.items():
            if isinstance(ivals, tuple) or "@" in name:
                continue
            mvals = mv.get(name)
            if mvals is None or len(mvals) != len(ivals):
                bad_eval.append(f"{kind} graph#{gi} {name}: shape model={mvals and len(mvals)} impl={len(ivals)}")
                continue
            for k, (a, b) in enumerate(zip(ivals, mvals)):
                if a != a or abs(a) == float("inf"):
                    continue        # 0/0 or x/0 in the implementation (the model has x/0 = 0)
                nvals += 1
                if not close(a, float(b)):
                    bad_eval.append(f"{kind} graph#{gi} split={v},{p} {name}[{k}]: impl={a} model={b}")
                    break
    ctx.obligation(f"correspondence: model `split` == Network.splitted_copy "
                   f"({sum(1 for m in meta if m[0] == 'split')} splits)", "correspondence",
                   not bad_split, "\n".join(bad_split[:5]))
    ctx.obligation(f"correspondence: catalogue expressions (exact rationals) == implementation "
                   f"on graphs, on split copies and on the model's own split ({nvals} values)",
                   "correspondence", not bad_eval, "\n".join(bad_eval[:8]))
    ctx.extra["values_compared"] = nvals


def oracle(ctx, base, spl, n, v, p, A, directed, w, Wroot, g0):
    """global equal; per-node equal on untouched nodes and twin = v; pairwise equal on
    untouched pairs"""
    for name, b in base.items():
        s = spl.get(name)
        if s is None:
            continue
        replay = {"measure": name, "adjacency": A.tolist(), "directed": directed,
                  "node_weights": w.tolist(), "link_attribute_cuberoot": Wroot.tolist(),
                  "group0": g0, "node": v, "proportion": str(p)}
        if isinstance(b, tuple) or isinstance(s, tuple):
            if isinstance(b, tuple) != isinstance(s, tuple) and A.sum() > 0:
                ctx.fail({"kind": "raises-after-split", "measure": name},
                         f"{name} raises on exactly one of net / split copy: {b if isinstance(b, tuple) else s}",
                         replay)
            continue
        ok = True
        tol = 1e-6 if "@oracle" in name else 1e-9      # iterative solvers
        if len(b) == 1:
            ok = close(b[0], s[0], tol) or (b[0] != b[0] and s[0] != s[0])
        elif len(b) == n:
            for i in range(n):
                if not (close(b[i], s[i], tol) or (b[i] != b[i] and s[i] != s[i])):
                    ok = False
            if not (close(b[v], s[n], tol) or (b[v] != b[v] and s[n] != s[n])):
                ok = False
        elif len(b) == n * n:
            for i in range(n):
                for j in range(n):
                    x, y = b[i * n + j], s[i * (n + 1) + j]
                    if not (close(x, y) or (x != x and y != y)):
                        ok = False
        if not ok:
            replay.update(on_net=b, on_split=s)
            sig = {"kind": "not-split-invariant", "measure": name.split("@")[0],
                   "input_class": "unreachable-pair" if "@" in name else "any"}
            ctx.fail(sig, f"{name} differs between the network and its split copy "
                          f"(node {v}, proportion {p})", replay)
