"""C02 — Node-splitting invariance of all n.s.i. measures.

proof  : lean/Pyunicorn/Properties/C02.lean — `eval_split` (every expression of the n.s.i.
         expression language is invariant under a split, for every graph, node, proportion,
         tuple of nodes), `eval_splits` (iterated), per-measure corollaries, `catalogue_split`.
tie    : correspondence — every measure of the catalogue (Model/NsiMeasures.lean) is
         evaluated by the Lean driver in exact rationals and compared with the
         implementation on the same weighted graph (1e-9), the model's `split` is compared
         with `Network.splitted_copy`, and igraph's distances on the split copy with the
         pulled-back distances the model assumes.
search : the property itself on the implementation: measure on net vs on
         net.splitted_copy(node, proportion) (global equal, per node equal + twin = v,
         pairwise equal on untouched pairs), iterated splits.
round 3: `nsi_betweenness_split` (n.s.i. shortest-path betweenness, at the level of its
         definition by weighted counts of shortest walks, all nodes incl. both twins, arbitrary
         source / target sets); three-way exact tie definition = model of the Cython kernel =
         implementation (nsi_betweenness, nsi_interregional_betweenness, nsi_cross_betweenness)
         on graphs, split copies and the model's own split, with the model's own breadth-first
         distances; double splits against the model; every non-default argument of the
         remaining n.s.i. methods in the oracle; histories on live objects (cached values of
         the original must not change, weights re-assigned, cross measures first); Geo/Climate
         networks; caller arrays in several dtypes / layouts; hub and rescaled weights.
round 5: `nsi_eigenvector_centrality_split` (Perron domination / uniqueness over any ordered
         field; the vector the implementation returns goes through the exact model: `eig` /
         `eigsplit` requests -- sparse product, exact residual, normalisation fixed point,
         positivity, connectivity); `arenas_systems_regular` (maximum principle; the Arenas
         theorems need no regularity hypothesis); the per-component wrapper of both random-walk
         betweennesses in the model (`comp` / `compsplit` requests on every DISCONNECTED
         undirected graph with 3..7(8) nodes: component lists, six argument patterns, copy-back)
         with `nsi_newman_betweenness_wrapper_split` / `nsi_arenas_betweenness_wrapper_split`.
"""
import contextlib
import io
import itertools
from fractions import Fraction

import numpy as np

from . import common

TW = Fraction(1, 2)


class LibraryExit(Exception):
    """the library called sys.exit() (nsi_arenas_betweenness does on a RuntimeError of the sparse
    solver): an exception for the check, never the end of the check with exit code 0"""


def quiet(fn, *a, **k):
    with contextlib.redirect_stdout(io.StringIO()):
        try:
            return fn(*a, **k)
        except SystemExit as ex:
            raise LibraryExit(f"sys.exit({ex.code}) inside {getattr(fn, '__name__', fn)}")


def fr(x):
    return Fraction(x).limit_denominator(10 ** 12) if not isinstance(x, Fraction) else x


def enc_rat(q):
    q = Fraction(q)
    return str(q.numerator) if q.denominator == 1 else f"{q.numerator}/{q.denominator}"


def enc_rats(v):
    return ",".join(enc_rat(x) for x in v) or "-"


def enc_ratmat(M):
    return ";".join(enc_rats(r) for r in M) or "-"


def enc_boolmat(A):
    return ";".join(",".join(str(int(x)) for x in r) for r in A) or "-"


def enc_bools(v):
    return ",".join(str(int(x)) for x in v) or "-"


def dist_matrix(net):
    D = quiet(net.path_lengths)
    return [[-1 if np.isinf(x) else int(x) for x in row] for row in D]


def request(kind, net, Wroot, g0, g1, extra=""):
    n = net.N
    A = net.adjacency
    W3 = [[Fraction(int(round(Wroot[i][j]))) ** 3 if A[i][j] else 0 for j in range(n)]
          for i in range(n)]
    Wr = [[Fraction(int(round(Wroot[i][j]))) if A[i][j] else 0 for j in range(n)] for i in range(n)]
    w = [Fraction(float(x)) for x in net.node_weights]
    D = dist_matrix(net)
    return (f"{kind} {extra}{n} {enc_boolmat(A)} {enc_rats(w)} {enc_ratmat(W3)} {enc_ratmat(Wr)} "
            f"{enc_bools(g0)} {enc_bools(g1)} " + (";".join(",".join(map(str, r)) for r in D) or "-"))


def impl_values(net, directed, g0, g1, all_reach, heavy=True, variants=True):
    """name -> list of floats (arity 0: 1 value, 1: n values, 2: n*n row-major) | None"""
    from pyunicorn.core import InteractingNetworks
    n = net.N
    out = {}

    def put(name, fn, flat=False):
        try:
            v = quiet(fn)
        except Exception as ex:  # noqa
            out[name] = ("raise", type(ex).__name__)
            return
        v = np.asarray(v, dtype=float)
        out[name] = v.reshape(-1).tolist()
    tw = float(TW)
    has_links = net.n_links > 0
    put("total_node_weight", lambda: net.total_node_weight)
    put("nsi_indegree", net.nsi_indegree)
    put("nsi_outdegree", net.nsi_outdegree)
    put("nsi_indegree_tw", lambda: net.nsi_indegree(typical_weight=tw))
    put("nsi_outdegree_tw", lambda: net.nsi_outdegree(typical_weight=tw))
    if has_links:       # without a link no link attribute can be stored
        put("nsi_indegree_key", lambda: net.nsi_indegree(key="w"))
        put("nsi_outdegree_key", lambda: net.nsi_outdegree(key="w"))
    put("nsi_bildegree", net.nsi_bildegree)
    put("nsi_bildegree_tw", lambda: net.nsi_bildegree(typical_weight=tw))
    for m in ("cycle", "mid", "in", "out"):
        f = getattr(net, f"nsi_local_{m}motif_clustering")
        put(f"nsi_local_{m}motif_clustering", f)
        if has_links:
            put(f"nsi_local_{m}motif_clustering_key", lambda f=f: f(key="w"))
        put(f"nsi_local_{m}motif_clustering_tw", lambda f=f: f(typical_weight=tw))
    if directed:
        put("nsi_degree_directed", net.nsi_degree)
    else:
        put("nsi_degree", net.nsi_degree)
        put("nsi_degree_tw", lambda: net.nsi_degree(typical_weight=tw))
        if has_links:
            put("nsi_degree_key", lambda: net.nsi_degree(key="w"))
        put("nsi_twinness", net.nsi_twinness)
        put("nsi_average_neighbors_degree", net.nsi_average_neighbors_degree)
        put("nsi_max_neighbors_degree", net.nsi_max_neighbors_degree)
        put("nsi_local_clustering", net.nsi_local_clustering)
        put("nsi_local_clustering_tw", lambda: net.nsi_local_clustering(typical_weight=tw))
        put("nsi_global_clustering", net.nsi_global_clustering)
        put("nsi_transitivity", net.nsi_transitivity)
        put("nsi_local_soffer_clustering", net.nsi_local_soffer_clustering)
        put("nsi_average_path_length", net.nsi_average_path_length)
        put("nsi_closeness", net.nsi_closeness)
        put("nsi_harmonic_closeness", net.nsi_harmonic_closeness)
        put("nsi_exponential_closeness", net.nsi_exponential_closeness)
        put("nsi_global_efficiency", net.nsi_global_efficiency)
        # measures outside the expression language: no theorem, invariance checked by the oracle
        put("nsi_betweenness@oracle", net.nsi_betweenness)
        put("nsi_laplacian@untouched", net.nsi_laplacian)
        # the bin layout of the n.s.i. degree histograms (number of bins, lower bin bounds) is
        # an n.s.i. quantity (`nsi_degree_histogram_bins_split`); the frequencies are not
        put("nsi_degree_histogram_bins@global", lambda: net.nsi_degree_histogram()[2])
        put("nsi_degree_cumulative_histogram_bins@global",
            lambda: net.nsi_degree_cumulative_histogram()[1])
        if has_links and heavy:
            put("nsi_spreading@oracle", net.nsi_spreading)
            put("nsi_spreading_alpha@oracle", lambda: net.nsi_spreading(alpha=0.125))
        if all_reach and n >= 3 and heavy:
            put("nsi_eigenvector_centrality@oracle", net.nsi_eigenvector_centrality)
            put("nsi_newman_betweenness@oracle", net.nsi_newman_betweenness)
            put("nsi_arenas_betweenness@oracle", net.nsi_arenas_betweenness)
        if all_reach and n >= 3 and heavy and variants:
            # every non-default argument pattern of the Arenas-type betweenness
            put("nsi_arenas_betweenness_incl@oracle",
                lambda: net.nsi_arenas_betweenness(exclude_neighbors=False))
            put("nsi_arenas_betweenness_twin@oracle",
                lambda: net.nsi_arenas_betweenness(stopping_mode="twinness"))
            put("nsi_arenas_betweenness_incl_twin@oracle",
                lambda: net.nsi_arenas_betweenness(exclude_neighbors=False,
                                                   stopping_mode="twinness"))
        if n >= 3 and heavy:
            # non-default variant documented as n.s.i., also on networks with several (small)
            # components, which are treated one by one
            put("nsi_newman_betweenness_ends@oracle",
                lambda: net.nsi_newman_betweenness(add_local_ends=True))
            if not all_reach:
                put("nsi_newman_betweenness_comp@oracle", net.nsi_newman_betweenness)
            if not all_reach and variants:
                # Arenas-type betweenness component by component, every argument pattern
                put("nsi_arenas_betweenness_comp@oracle", net.nsi_arenas_betweenness)
                put("nsi_arenas_betweenness_incl_comp@oracle",
                    lambda: net.nsi_arenas_betweenness(exclude_neighbors=False))
                put("nsi_arenas_betweenness_twin_comp@oracle",
                    lambda: net.nsi_arenas_betweenness(stopping_mode="twinness"))
                put("nsi_arenas_betweenness_incl_twin_comp@oracle",
                    lambda: net.nsi_arenas_betweenness(exclude_neighbors=False,
                                                       stopping_mode="twinness"))
        L1 = [i for i in range(n) if g0[i]]
        L2 = [i for i in range(n) if g1[i]]
        if L1 and L2:
            inet = InteractingNetworks(adjacency=net.adjacency, node_weights=net.node_weights,
                                       silence_level=3)

            def expand(vals, L):
                full = [float("nan")] * n
                for k, i in enumerate(L):
                    full[i] = float(vals[k])
                return full
            put("nsi_cross_degree", lambda: expand(inet.nsi_cross_degree(L1, L2), L1))
            put("nsi_internal_degree", lambda: expand(inet.nsi_internal_degree(L1), L1))
            put("nsi_internal_local_clustering",
                lambda: expand(inet.nsi_internal_local_clustering(L1), L1))
            if all_reach:
                put("nsi_internal_closeness_centrality",
                    lambda: expand(inet.nsi_internal_closeness_centrality(L1), L1))
            # sources = group 0, targets = group 1, through all three public wrappers
            put("nsi_cross_betweenness@oracle", lambda: inet.nsi_cross_betweenness(L1, L2))
            put("nsi_interregional_betweenness@oracle",
                lambda: net.nsi_interregional_betweenness(sources=L1, targets=L2))
            put("nsi_betweenness_st@oracle",
                lambda: net.nsi_betweenness(sources=np.array(L2), targets=tuple(L1)))
            put("nsi_cross_mean_degree", lambda: inet.nsi_cross_mean_degree(L1, L2))
            put("nsi_cross_edge_density", lambda: inet.nsi_cross_edge_density(L1, L2))
            put("nsi_cross_local_clustering",
                lambda: expand(inet.nsi_cross_local_clustering(L1, L2), L1))
            put("nsi_cross_global_clustering", lambda: inet.nsi_cross_global_clustering(L1, L2))
            put("nsi_cross_transitivity", lambda: inet.nsi_cross_transitivity(L1, L2))
            sfx = "" if all_reach else "@unreachable"   # outside the model's catalogue: oracle only
            put("nsi_cross_closeness_centrality" + sfx,
                lambda: expand(inet.nsi_cross_closeness_centrality(L1, L2), L1))
            put("nsi_cross_average_path_length" + sfx,
                lambda: inet.nsi_cross_average_path_length(L1, L2))
    return out


def parse_model(ans):
    out = {}
    for part in ans.split("|"):
        name, _, vals = part.partition("=")
        out[name] = [] if vals == "-" else [Fraction(x) for x in vals.split(",")]
    return out


def close(a, b, tol=1e-9, floor=1.0):
    if a != a:          # NaN placeholder (node outside the group): not compared
        return True
    if b != b:
        return False
    if abs(a) == float("inf") or abs(b) == float("inf"):
        return a == b
    return abs(a - b) <= tol * max(floor, abs(a), abs(b))


def gen_graphs(ctx):
    rng = ctx.rng
    quick = ctx.tier == "quick"
    out = []
    # exhaustive small undirected graphs
    for n in ([2, 3, 4] if quick else [2, 3, 4, 5]):
        pairs = [(i, j) for i in range(n) for j in range(i)]
        allbits = list(itertools.product([0, 1], repeat=len(pairs)))
        if n == 5:
            allbits = rng.sample(allbits, 400)
        if quick and n == 4:
            allbits = rng.sample(allbits, 24)
        for bits in allbits:
            A = np.zeros((n, n), dtype=int)
            for (i, j), b in zip(pairs, bits):
                A[i, j] = A[j, i] = b
            out.append((A, False))
    if quick:
        n = 5
        pairs = [(i, j) for i in range(n) for j in range(i)]
        for _ in range(20):
            A = np.zeros((n, n), dtype=int)
            for (i, j) in pairs:
                A[i, j] = A[j, i] = rng.random() < 0.5
            out.append((A, False))
    # directed
    for n in ([2, 3] if quick else [2, 3, 4]):
        pairs = [(i, j) for i in range(n) for j in range(n) if i != j]
        allbits = list(itertools.product([0, 1], repeat=len(pairs)))
        if len(allbits) > (40 if quick else 600):
            allbits = rng.sample(allbits, 40 if quick else 600)
        for bits in allbits:
            A = np.zeros((n, n), dtype=int)
            for (i, j), b in zip(pairs, bits):
                A[i, j] = b
            out.append((A, True))
    # several small components (sizes 1..4: isolated nodes, single links, paths, triangles,
    # stars, cliques) -- the per-component code paths of the random-walk betweennesses
    for _ in range(6 if quick else 60):
        sizes = [rng.choice([1, 1, 2, 2, 3, 3, 4]) for _ in range(rng.randrange(2, 5))]
        n = sum(sizes)
        A = np.zeros((n, n), dtype=int)
        o = 0
        for sz in sizes:
            kind = rng.choice(["path", "clique", "star"])
            for i in range(sz):
                for j in range(i):
                    if (kind == "clique" or (kind == "path" and i == j + 1)
                            or (kind == "star" and j == 0)):
                        A[o + i, o + j] = A[o + j, o + i] = 1
            o += sz
        perm = list(range(n))
        rng.shuffle(perm)
        A = A[perm][:, perm]
        out.append((A, False))
    # random larger
    for _ in range(12 if quick else 150):
        n = rng.randrange(6, 13 if quick else 19)
        p = rng.choice([0.15, 0.3, 0.6])
        directed = rng.random() < 0.3
        A = np.zeros((n, n), dtype=int)
        for i in range(n):
            for j in range(i):
                if rng.random() < p:
                    A[i, j] = A[j, i] = 1
                    if directed and rng.random() < 0.4:
                        A[i, j] = 0
        out.append((A, directed))
    return out


def as_caller_arrays(rng, A, w):
    """the same adjacency / weights handed over in another dtype / memory layout (values are
    small integers / dyadic numbers, exactly representable in every one of them)"""
    import scipy.sparse as sp
    ka = rng.choice(["int", "int8", "bool", "float32", "fortran", "strided", "csr", "lil", "list"])
    if ka == "int":
        A2 = A
    elif ka in ("int8", "bool", "float32"):
        A2 = A.astype(ka)
    elif ka == "fortran":
        A2 = np.asfortranarray(A.astype("int16"))
    elif ka == "strided":
        big = np.zeros((2 * A.shape[0], 2 * A.shape[1]), dtype=int)
        big[::2, ::2] = A
        A2 = big[::2, ::2]
    elif ka == "csr":
        A2 = sp.csr_matrix(A)
    elif ka == "lil":
        A2 = sp.lil_matrix(A)
    else:
        A2 = A.tolist()
    kw = rng.choice(["float64", "float32", "strided", "list"])
    if kw == "float64":
        w2 = w
    elif kw == "float32":
        w2 = w.astype(kw)
    elif kw == "strided":
        big = np.zeros(2 * len(w))
        big[::2] = w
        w2 = big[::2]
    else:
        w2 = [float(x) for x in w]
    return A2, w2, ka, kw


def betw_impl(net, S, T):
    """n.s.i. betweenness through its public wrappers; S, T boolean lists (None = all)"""
    from pyunicorn.core import InteractingNetworks
    if S is None:
        return [np.asarray(quiet(net.nsi_betweenness), dtype=float).tolist()]
    L1 = [i for i, x in enumerate(S) if x]
    L2 = [i for i, x in enumerate(T) if x]
    inet = InteractingNetworks(adjacency=net.adjacency, node_weights=net.node_weights,
                               silence_level=3)
    return [np.asarray(quiet(net.nsi_betweenness, sources=L1, targets=L2), dtype=float).tolist(),
            np.asarray(quiet(net.nsi_interregional_betweenness, sources=L1, targets=L2),
                       dtype=float).tolist(),
            np.asarray(quiet(inet.nsi_cross_betweenness, L1, L2), dtype=float).tolist()]


def parse_betw(ans):
    out = {}
    for part in ans.split("|"):
        name, _, vals = part.partition("=")
        out[name] = vals
    return out


def run(ctx):
    from pyunicorn.core import Network
    rng = ctx.rng
    quick = ctx.tier == "quick"
    ctx.rule = ("all labelled undirected graphs on <=4 (thorough: <=5, sampled) nodes, directed on "
                "<=3 (<=4), random 6..12 (..18) nodes, unions of small components; dyadic positive "
                "weights (also rescaled by powers of two), cube link attributes, every node x "
                "proportion in {1/4,1/2,3/4} up to 3 nodes, every node x one proportion up to 5, "
                "three nodes beyond (quick: sampled), random "
                "bipartitions; distinct = distinct (graph, weights, node, proportion); non-trivial "
                "= graph has a link and >= 3 nodes")
    ctx.proofs()
    graphs = gen_graphs(ctx)
    reqs, meta = [], []
    for gi, (A, directed) in enumerate(graphs):
        n = A.shape[0]
        if gi % 3 == 2:
            w = np.array([float(rng.choice([8, 12, 18, 24, 30, 36])) for _ in range(n)])
        else:
            w = np.array([rng.choice([0.5, 1.0, 1.5, 2.0, 2.5, 4.0]) for _ in range(n)])
        Wroot = np.zeros((n, n))
        for i in range(n):
            for j in range(n):
                if A[i, j] and (directed or j < i or not A[j, i]):
                    Wroot[i, j] = rng.choice([1, 2, 3])
                    if not directed:
                        Wroot[j, i] = Wroot[i, j]
        # extreme-but-exact rescaling of all node weights (every n.s.i. measure is homogeneous)
        scaled = 0          # the power of two all weights are multiplied with (0: none)
        if gi % 7 == 3:
            scaled = 2.0 ** rng.choice([-30, 30, -12, 20])
            w = w * scaled
            ctx.count("weights-rescaled-by-power-of-two")
        A_in, w_in, ka, kw = as_caller_arrays(rng, A, w)
        ctx.count(f"adjacency-as-{ka}")
        ctx.count(f"weights-as-{kw}")
        net = Network(adjacency=A_in, directed=directed, node_weights=w_in, silence_level=3)
        net.set_link_attribute("w", Wroot ** 3)
        g0 = [rng.random() < 0.5 for _ in range(n)]
        if n >= 2:
            g0[0], g0[1] = True, False
        g1 = [not x for x in g0]
        D = quiet(net.path_lengths)
        all_reach = not np.isinf(D).any()
        nodes = list(range(n))
        if quick and n > 3:
            nodes = rng.sample(nodes, 2)
        elif n > 5:
            nodes = rng.sample(nodes, 3)        # thorough: large graphs, three nodes
        props = [Fraction(1, 4), Fraction(1, 2), Fraction(3, 4)]
        if quick or n > 3:
            props = [rng.choice(props)]         # (a fresh proportion per graph)
        variants = quick or gi % 3 == 0
        base_impl = impl_values(net, directed, g0, g1, all_reach, variants=variants)
        reqs.append(request("eval", net, Wroot, g0, g1, extra=f"{enc_rat(TW)} "))
        meta.append(("eval", gi, None, None, base_impl, n))
        # n.s.i. shortest-path betweenness: definition (Lean) = kernel model (Lean) =
        # implementation, for all sources/targets and for random (overlapping) subsets
        do_betw = (not directed) and n <= 9
        ST = [(None, None)]
        if do_betw:
            S = [rng.random() < 0.6 for _ in range(n)]
            T = [rng.random() < 0.6 for _ in range(n)]
            S[rng.randrange(n)] = True
            T[rng.randrange(n)] = True
            ST.append((S, T))
            b_bases = []
            for SS, TT in ST:
                ones = [True] * n
                b_bases.append(betw_impl(net, SS, TT))
                reqs.append(request("betw", net, Wroot, SS or ones, TT or ones))
                meta.append(("betw", gi, None, None, b_bases[-1], n))
                ctx.count("betweenness-correspondence")
            nsplit = 0
        # round 4: the linear-algebraic measures in exact rationals (Model/NsiRw.lean)
        do_rw = (not directed) and all_reach and 3 <= n <= (7 if quick else 8)
        if do_rw:
            reqs.append(request("rw", net, Wroot, g0, g1, extra=f"{RW_TERMS} "))
            meta.append(("rw", gi, None, None, (base_impl, net.node_weights.copy(), scaled,
                                                 np.array(net.adjacency).tolist()), n))
            ctx.count("random-walk-correspondence")
            rw_splits = 0
        # round 5: the per-component wrapper of the random-walk betweennesses on DISCONNECTED
        # networks (Model/NsiComp.lean): component lists, sub-networks, copy-back, exact
        do_comp = (not directed) and (not all_reach) and 3 <= n <= (7 if quick else 8)
        if do_comp:
            reqs.append(request("comp", net, Wroot, g0, g1))
            meta.append(("comp", gi, None, None, (base_impl, net.node_weights.copy(), scaled,
                                                   components_of(net)), n))
            ctx.count("per-component-correspondence")
            comp_splits = 0
        # round 5: nsi_eigenvector_centrality -- the vector the implementation returns goes
        # through the exact model (Model/NsiEig.lean): matrix-vector product, eigen-residual,
        # normalisation, positivity and connectivity (the hypotheses of
        # `nsi_eigenvector_centrality_split`)
        ec0 = finite_vec(base_impl.get("nsi_eigenvector_centrality@oracle"), n)
        do_eig = (not directed) and ec0 is not None
        if do_eig:
            reqs.append(request("eig", net, Wroot, g0, g1, extra=f"{enc_rats(ec0)} "))
            meta.append(("eig", gi, None, None, (ec0, adj_times_w(net, ec0)), n))
            eig_base = len(reqs) - 1
            eig_splits = 0
            ctx.count("eigenvector-correspondence")
        for v in nodes:
            for p in props:
                nontriv = n >= 3 and A.sum() > 0
                ctx.case((A.tobytes().hex(), directed, w.tobytes().hex(), v, str(p)), nontriv,
                         {"adjacency": A.tolist(), "directed": directed, "weights": w.tolist(),
                          "node": v, "proportion": str(p)} if n <= 4 else None)
                ctx.count("directed" if directed else "undirected")
                ctx.count(f"n={n}" if n <= 5 else "n>5")
                ctx.count("connected" if all_reach else "disconnected")
                sp = quiet(net.splitted_copy, node=v, proportion=float(p))
                sg0, sg1 = g0 + [g0[v]], g1 + [g1[v]]
                sWroot = np.zeros((n + 1, n + 1))
                sWroot[:n, :n] = Wroot
                sWroot[:n, n] = Wroot[:, v]
                sWroot[n, :n] = Wroot[v, :]
                sD = quiet(sp.path_lengths)
                s_reach = not np.isinf(sD).any()
                sp_impl = impl_values(sp, directed, sg0, sg1, s_reach, variants=variants)
                # ---- oracle: the property on the implementation -------------------------
                oracle(ctx, base_impl, sp_impl, n, v, p, A, directed, w, Wroot, g0,
                       vec_rel=scaled)
                # ---- correspondence requests --------------------------------------------
                # (a) the model's split vs splitted_copy (adjacency, weights, attribute, groups)
                reqs.append(request("split", net, Wroot, g0, g1, extra=f"{v} {enc_rat(p)} "))
                sA = sp.adjacency
                try:
                    sW = sp.link_attribute("w")
                except KeyError:        # no link carries the attribute (edgeless graph)
                    sW = np.zeros((n + 1, n + 1))
                impl_split = (f"{n + 1} {enc_boolmat(sA)} "
                              f"{enc_rats([Fraction(float(x)) for x in sp.node_weights])} "
                              f"{enc_ratmat([[Fraction(int(round(x))) for x in r] for r in sW])} "
                              f"{enc_bools(sg0)} {enc_bools(sg1)}")
                meta.append(("split", gi, v, p, impl_split, n))
                # (b) measures on the implementation's split copy (with igraph's distances)
                reqs.append(request("eval", sp, sWroot, sg0, sg1, extra=f"{enc_rat(TW)} "))
                meta.append(("eval", gi, v, p, sp_impl, n + 1))
                # (c) measures on the model's own split (pulled-back distances): must equal (b)
                reqs.append(request("evalsplit", net, Wroot, g0, g1,
                                    extra=f"{enc_rat(TW)} {v} {enc_rat(p)} "))
                meta.append(("evalsplit", gi, v, p, sp_impl, n + 1))
                if do_rw and rw_splits < (1 if quick else 2):
                    # the same measures on the implementation's split copy and on the model's
                    # own split: both exact, so the two answers must be identical strings
                    rw_splits += 1
                    reqs.append(request("rw", sp, sWroot, sg0, sg1, extra=f"{RW_TERMS} "))
                    meta.append(("rw", gi, v, p, (sp_impl, sp.node_weights.copy(), scaled,
                                                   np.array(sp.adjacency).tolist()), n + 1))
                    reqs.append(request("rwsplit", net, Wroot, g0, g1,
                                        extra=f"{RW_TERMS} {v} {enc_rat(p)} "))
                    meta.append(("rwsplit", gi, v, p, len(reqs) - 2, n + 1))
                    ctx.count("random-walk-correspondence-on-split")
                if do_comp and comp_splits < 2:
                    comp_splits += 1
                    reqs.append(request("comp", sp, sWroot, sg0, sg1))
                    meta.append(("comp", gi, v, p, (sp_impl, sp.node_weights.copy(), scaled,
                                                     components_of(sp)), n + 1))
                    reqs.append(request("compsplit", net, Wroot, g0, g1,
                                        extra=f"{v} {enc_rat(p)} "))
                    meta.append(("compsplit", gi, v, p, len(reqs) - 2, n + 1))
                    ctx.count("per-component-correspondence-on-split")
                if do_eig and eig_splits < (1 if quick else 2):
                    # (a) the model's own split with the pulled-back vector: every output is the
                    # exact pull-back of the output on the original (`eig_pullback`);
                    # (b) the vector the implementation returns for its split copy
                    eig_splits += 1
                    reqs.append(request("eigsplit", net, Wroot, g0, g1,
                                        extra=f"{v} {enc_rat(p)} {enc_rats(ec0)} "))
                    meta.append(("eigsplit", gi, v, p, eig_base, n + 1))
                    ec1 = finite_vec(sp_impl.get("nsi_eigenvector_centrality@oracle"), n + 1)
                    if ec1 is not None:
                        reqs.append(request("eig", sp, sWroot, sg0, sg1,
                                            extra=f"{enc_rats(ec1)} "))
                        meta.append(("eig", gi, v, p, (ec1, adj_times_w(sp, ec1)), n + 1))
                    ctx.count("eigenvector-correspondence-on-split")
                if do_betw:
                    nsplit += 1
                    for ist, (SS, TT) in enumerate(ST):
                        if not quick and (nsplit + ist) % 2:
                            continue
                        ones, ones1 = [True] * n, [True] * (n + 1)
                        sS = None if SS is None else SS + [SS[v]]
                        sT = None if TT is None else TT + [TT[v]]
                        b_base, b_spl = b_bases[ist], betw_impl(sp, sS, sT)
                        ctx.count("betweenness-correspondence-on-split")
                        reqs.append(request("betw", sp, sWroot, sS or ones1, sT or ones1))
                        meta.append(("betw", gi, v, p, b_spl, n + 1))
                        reqs.append(request("betwsplit", net, Wroot, SS or ones, TT or ones,
                                            extra=f"{v} {enc_rat(p)} "))
                        meta.append(("betw", gi, v, p, b_spl, n + 1))
                        if SS is not None:
                            names = ("nsi_betweenness(sources,targets)@oracle",
                                     "nsi_interregional_betweenness(sources,targets)@oracle",
                                     "nsi_cross_betweenness(sources,targets)@oracle")
                            oracle(ctx, dict(zip(names, b_base)), dict(zip(names, b_spl)), n, v, p,
                                   A, directed, w, Wroot, g0,
                                   {"sources": [i for i in range(n) if SS[i]],
                                    "targets": [i for i in range(n) if TT[i]]}, vec_rel=scaled)
        # ---- two successive splits against the model's split of a split (`eval_splits`) ------
        if 2 <= n <= 8 and gi % 3 == 1:
            v1, v2 = rng.randrange(n), rng.randrange(n + 1)
            p1, p2 = (rng.choice([Fraction(1, 4), Fraction(1, 2), Fraction(3, 4)]) for _ in "12")
            sp1 = quiet(net.splitted_copy, node=v1, proportion=float(p1))
            # second split also through the default / negative node index
            if v2 == n:
                sp2 = quiet(sp1.splitted_copy, proportion=float(p2))
            else:
                sp2 = quiet(sp1.splitted_copy, node=v2 - (n + 1), proportion=float(p2))
            orig = list(range(n)) + [v1]
            orig = orig + [orig[v2]]
            h0 = g0 + [g0[v1]]
            h0 = h0 + [h0[v2]]
            h1 = [not x for x in h0]
            r2 = not np.isinf(quiet(sp2.path_lengths)).any()
            sp2_impl = impl_values(sp2, directed, h0, h1, r2, variants=variants)
            ex = f"{v1} {enc_rat(p1)} {v2} {enc_rat(p2)} "
            reqs.append(request("split2", net, Wroot, g0, g1, extra=ex))
            try:
                sW2 = sp2.link_attribute("w")
            except KeyError:
                sW2 = np.zeros((n + 2, n + 2))
            meta.append(("split", gi, (v1, v2), (p1, p2),
                         f"{n + 2} {enc_boolmat(sp2.adjacency)} "
                         f"{enc_rats([Fraction(float(x)) for x in sp2.node_weights])} "
                         f"{enc_ratmat([[Fraction(int(round(x))) for x in r] for r in sW2])} "
                         f"{enc_bools(h0)} {enc_bools(h1)}", n))
            reqs.append(request("evalsplit2", net, Wroot, g0, g1, extra=f"{enc_rat(TW)} " + ex))
            meta.append(("evalsplit2", gi, (v1, v2), (p1, p2), sp2_impl, n + 2))
            if do_betw:
                SS, TT = ST[-1]
                s2S = SS + [SS[v1]]
                s2S = s2S + [s2S[v2]]
                s2T = TT + [TT[v1]]
                s2T = s2T + [s2T[v2]]
                reqs.append(request("betwsplit2", net, Wroot, SS, TT, extra=ex))
                meta.append(("betw", gi, (v1, v2), (p1, p2), betw_impl(sp2, s2S, s2T), n + 2))
            ctx.count("double-split")
            oracle_map(ctx, base_impl, sp2_impl, n, orig, A, directed, w,
                       {"splits": [[v1, str(p1)], [v2, str(p2)]], "group0": g0}, vec_rel=scaled)
        # ---- the original object after its copies were split and queried: nothing changed ---
        if gi % 3 == 0:
            again = impl_values(net, directed, g0, g1, all_reach, variants=variants)
            ctx.count("original-requeried-after-splits")
            for name, b in base_impl.items():
                a2 = again.get(name)
                same = (isinstance(b, tuple) and b == a2) or (
                    not isinstance(b, tuple) and not isinstance(a2, tuple) and a2 is not None
                    and len(a2) == len(b) and all(
                        close(x, y, 1e-6 if "@oracle" in name else 1e-13,
                              vec_floor(b, a2, scaled, name)) or (x != x and y != y)
                        for x, y in zip(b, a2)))
                if not same:
                    ctx.fail({"kind": "original-changed-by-splitting", "measure": name.split("@")[0]},
                             f"{name} of the ORIGINAL network changes after splitted_copy() and "
                             f"queries on the copies: {b} -> {a2}",
                             {"adjacency": A.tolist(), "directed": directed,
                              "node_weights": w.tolist(), "measure": name})
            intact = (np.array_equal(np.asarray(net.adjacency), A)
                      and np.array_equal(np.asarray(net.node_weights, dtype=float),
                                         np.asarray(w, dtype=float))
                      and (A.sum() == 0 or np.array_equal(net.link_attribute("w"), Wroot ** 3)))
            if not intact:
                ctx.fail({"kind": "original-changed-by-splitting", "measure": "state"},
                         "adjacency / node weights / link attribute of the original network "
                         "changed after splitted_copy()",
                         {"adjacency": A.tolist(), "directed": directed,
                          "node_weights": w.tolist()})
        # ---- histories on live objects ----------------------------------------------------
        if not directed and n >= 2 and gi % 4 in (0, 2):
            history(ctx, rng, A, w, g0, gi % 4 == 2)
        # iterated splits (oracle only)
        if n >= 3 and not directed and gi % 5 == 0:
            cur = net
            vals0 = quiet(cur.nsi_transitivity), quiet(cur.nsi_global_clustering)
            for _ in range(3):
                cur = quiet(cur.splitted_copy, node=rng.randrange(cur.N),
                            proportion=rng.choice([0.25, 0.5, 0.75]))
            vals1 = quiet(cur.nsi_transitivity), quiet(cur.nsi_global_clustering)
            ctx.count("iterated-splits")
            for nm, a, b in zip(("nsi_transitivity", "nsi_global_clustering"), vals0, vals1):
                if not (close(a, b) or (a != a and b != b)):
                    ctx.fail({"kind": "iterated-split", "measure": nm},
                             f"{nm} changes under three successive splits: {a} -> {b}",
                             {"adjacency": A.tolist(), "weights": w.tolist()})
    model = common.driver(ctx.pid, reqs)
    bad_split, bad_eval, bad_betw, nvals, nbetw = [], [], [], 0, 0
    bad_rw, nrw = [], 0
    bad_eig, neig, eig_stats = [], 0, {"resid": 0.0}
    bad_comp, ncomp = [], 0
    for ans, (kind, gi, v, p, impl, n) in zip(model, meta):
        if kind == "rw":
            nrw += 1
            bad_rw += check_rw(ctx, ans, impl, n, f"graph#{gi} split={v},{p}")
            continue
        if kind == "comp":
            ncomp += 1
            bad_comp += check_comp(ctx, ans, impl, n, f"graph#{gi} split={v},{p}")
            continue
        if kind == "compsplit":
            ncomp += 1
            if ans != model[impl]:
                bad_comp.append(f"graph#{gi} split={v},{p}: per-component model on its own split "
                                f"and on splitted_copy() disagree: {ans[:120]} / "
                                f"{model[impl][:120]}")
            continue
        if kind == "eig":
            neig += 1
            bad_eig += check_eig(ans, impl, n, f"graph#{gi} split={v},{p}", eig_stats)
            continue
        if kind == "eigsplit":
            neig += 1
            b, a = parse_betw(model[impl]), parse_betw(ans)
            for key in ("ax", "resid", "norm"):
                bl = b.get(key, "").split(",")
                if len(bl) != n - 1 or a.get(key) != ",".join(bl + [bl[v]]):
                    bad_eig.append(f"graph#{gi} split={v},{p}: `{key}` on the model's split with "
                                   f"the pulled-back vector is not the pull-back: "
                                   f"{a.get(key, '')[:100]} / {b.get(key, '')[:100]}")
            if (a.get("pos"), a.get("conn")) != (b.get("pos"), b.get("conn")):
                bad_eig.append(f"graph#{gi} split={v},{p}: positivity / connectivity flags of "
                               f"the model's split differ from the original")
            continue
        if kind == "rwsplit":
            nrw += 1
            if ans != model[impl]:
                bad_rw.append(f"graph#{gi} split={v},{p}: the model's own split and the model on "
                              f"splitted_copy() disagree: {ans[:120]} / {model[impl][:120]}")
            continue
        if kind == "split":
            if ans != impl:
                bad_split.append(f"graph#{gi} v={v} p={p}: model={ans[:160]} impl={impl[:160]}")
            continue
        if kind == "betw":
            mb = parse_betw(ans)
            nbetw += 1
            if mb.get("distok") != "1":
                bad_betw.append(f"graph#{gi} split={v},{p}: igraph's path lengths differ from the "
                                f"model's breadth-first distances")
            if not (mb.get("def") == mb.get("defbfs") == mb.get("kernel")):
                bad_betw.append(f"graph#{gi} split={v},{p}: definition {mb.get('def')} / with BFS "
                                f"distances {mb.get('defbfs')} / kernel model {mb.get('kernel')}")
                continue
            mvals = [] if mb["def"] == "-" else [Fraction(x) for x in mb["def"].split(",")]
            for ivals in impl:
                if len(ivals) != len(mvals) or not all(
                        close(a, float(b)) for a, b in zip(ivals, mvals)):
                    bad_betw.append(f"graph#{gi} split={v},{p}: impl={ivals} model={mb['def']}")
                    break
                nvals += len(ivals)
            continue
        mv = parse_model(ans)
        for name, ivals in impl.items():
            if isinstance(ivals, tuple) or "@" in name:
                continue
            mvals = mv.get(name)
            if mvals is None or len(mvals) != len(ivals):
                bad_eval.append(f"{kind} graph#{gi} {name}: shape model={mvals and len(mvals)} impl={len(ivals)}")
                continue
            for k, (a, b) in enumerate(zip(ivals, mvals)):
                if a != a or abs(a) == float("inf"):
                    continue        # 0/0 or x/0 in the implementation (the model has x/0 = 0)
                nvals += 1
                if not close(a, float(b)):
                    bad_eval.append(f"{kind} graph#{gi} split={v},{p} {name}[{k}]: impl={a} model={b}")
                    break
    ctx.obligation(f"correspondence: model `split` == Network.splitted_copy "
                   f"({sum(1 for m in meta if m[0] == 'split')} splits)", "correspondence",
                   not bad_split, "\n".join(bad_split[:5]))
    ctx.obligation(f"correspondence: catalogue expressions (exact rationals) == implementation "
                   f"on graphs, on split copies and on the model's own split ({nvals} values)",
                   "correspondence", not bad_eval, "\n".join(bad_eval[:8]))
    ctx.obligation(f"correspondence: n.s.i. betweenness -- definition by weighted shortest-walk "
                   f"counts (exact) == model of the Cython kernel (exact) == nsi_betweenness / "
                   f"nsi_interregional_betweenness / nsi_cross_betweenness, on graphs, split "
                   f"copies, the model's split and double split; igraph distances == model BFS "
                   f"(definition == kernel model is a theorem since round 5b, "
                   f"nsi_betweenness_kernel_eq_def: kept as a correspondence, no longer a "
                   f"hypothesis of any theorem) ({nbetw} requests)", "correspondence", not bad_betw, "\n".join(bad_betw[:6]))
    ctx.obligation(f"correspondence: nsi_newman_betweenness (both add_local_ends), "
                   f"nsi_arenas_betweenness (4 argument patterns), nsi_laplacian, nsi_spreading "
                   f"(series of exact moments, default and given alpha), histogram bin layout -- "
                   f"exact-rational model with Gauss-Jordan inverse == implementation, on graphs, "
                   f"split copies and the model's own split; hypotheses SolvesL/SolvesR/"
                   f"ArenasSolves of the theorems hold exactly for the computed inverses "
                   f"({nrw} requests)", "correspondence", not bad_rw, "\n".join(bad_rw[:6]))
    ctx.obligation(f"correspondence: nsi_eigenvector_centrality -- the vector the implementation "
                   f"returns (network and split copy) is positive, fixed by the modelled "
                   f"normalisation (exact), an eigenvector of the exact model of sp_Aplus * "
                   f"sp_diag_w up to 1e-7 (largest relative residual seen "
                   f"{eig_stats['resid']:.1e}), on a network the model's BFS finds connected; "
                   f"model matrix-vector product == the library's sparse product; on the model's "
                   f"own split every output is the exact pull-back ({neig} requests)",
                   "correspondence", not bad_eig, "\n".join(bad_eig[:6]))
    ctx.obligation(f"correspondence: per-component wrapper of nsi_newman_betweenness (both "
                   f"add_local_ends) and nsi_arenas_betweenness (4 argument patterns) on "
                   f"DISCONNECTED networks -- model of connected_components / subgraph / "
                   f"node_weights[nodes] / copy-back with the exact kernels == implementation, on "
                   f"graphs, split copies and the model's own split; component lists == igraph's; "
                   f"the loop stores at every node its own component's value (since round 5c the "
                   f"theorem per_component_loop_eq_per_node for every undirected network; the "
                   f"driver's flag is kept as a cross-check); round 5d: the exact Gauss-Jordan inverse "
                   f"of every component satisfies SolvesL/SolvesR (flag csolves) -- since round 5e a "
                   f"theorem (circuit_inverse_two_sided, newman_tof_solves: Gauss-Jordan returns a "
                   f"two-sided inverse whenever it returns), so nsi_newman_wrapped_split_unconditional "
                   f"needs no such hypothesis and the flag is kept as a cross-check of model == "
                   f"theorem; nsi_arenas_wrapped_split "
                   f"needs none; newmanAll/arenasAll == nsiNewman/arenasB is a theorem "
                   f"({ncomp} requests)",
                   "correspondence", not bad_comp, "\n".join(bad_comp[:6]))
    ctx.extra["values_compared"] = nvals
    extras(ctx)


def components_of(net):
    """igraph's component lists as the wrappers iterate over them"""
    return ";".join(",".join(str(int(x)) for x in comp) or "-"
                    for comp in net.graph.connected_components())


def check_comp(ctx, ans, impl_pack, n, where):
    """one `comp` answer of the driver against the implementation on a disconnected network"""
    impl, w, scaled, comps = impl_pack
    mb = parse_betw(ans)
    bad = []
    if mb.get("comps") != comps:
        bad.append(f"{where}: components model={mb.get('comps')} igraph={comps}")
    if mb.get("pernode") != "1":
        bad.append(f"{where}: the component loop does not store every node's own component value")
    # round 5d: hypothesis of nsi_newman_wrapped_split_checked (only where the model returns an
    # array at all: on a singular component neither the theorem nor the flag says anything);
    # round 5e: true by theorem (newman_tof_solves / nsi_newman_wrapped_split_unconditional) --
    # kept as a cross-check that the driver evaluates what the theorem is about
    if mb.get("newman", "singular") != "singular" and mb.get("csolves") != "1":
        bad.append(f"{where}: the Gauss-Jordan grounded inverse of some component does not satisfy "
                   f"SolvesL/SolvesR exactly (hypothesis of nsi_newman_wrapped_split_checked)")
    pairs = [("newman", "nsi_newman_betweenness_comp@oracle"),
             ("newman_ends", "nsi_newman_betweenness_ends@oracle"),
             ("arenas", "nsi_arenas_betweenness_comp@oracle"),
             ("arenas_incl", "nsi_arenas_betweenness_incl_comp@oracle"),
             ("arenas_twin", "nsi_arenas_betweenness_twin_comp@oracle"),
             ("arenas_incl_twin", "nsi_arenas_betweenness_incl_twin_comp@oracle")]
    for key, name in pairs:
        iv = impl.get(name)
        if iv is None:
            continue
        mvs = mb.get(key, "singular")
        if isinstance(iv, tuple):
            if mvs != "singular":
                bad.append(f"{where} {name}: implementation raises {iv[1]}, model={mvs[:80]}")
            continue
        mv = None if mvs == "singular" else ([] if mvs == "-" else
                                             [Fraction(x) for x in mvs.split(",")])
        if mv is None or len(mv) != len(iv):
            bad.append(f"{where} {name}: model={mvs[:80]} impl={iv}")
            continue
        fl = vec_floor(iv, [float(x) for x in mv], scaled, name)
        if not all(close(a, float(b), 1e-8, fl) for a, b in zip(iv, mv)):
            bad.append(f"{where} {name}: impl={iv} model={[float(x) for x in mv]}")
        ctx.count("per-component-values-compared", len(iv))
    return bad


def finite_vec(vals, n):
    """the implementation's vector as exact rationals, or None (not computed / raised / not finite)"""
    if not isinstance(vals, list) or len(vals) != n:
        return None
    if not all(x == x and abs(x) != float("inf") for x in vals):
        return None
    return [Fraction(x) for x in vals]


def adj_times_w(net, x):
    """(sp_Aplus * sp_diag_w) @ x as the library builds the matrices"""
    M = net.sp_Aplus() * net.sp_diag_w()
    return np.asarray(M @ np.array([float(t) for t in x])).reshape(-1).tolist()


EIG_TOL = 1e-7     # relative eigen-residual accepted for the ARPACK vector (tol=1e-8 in the code)


def check_eig(ans, impl_pack, n, where, stats):
    """one `eig` answer of the driver against the vector the implementation returned"""
    x, ax_impl = impl_pack
    mb = parse_betw(ans)
    bad = []

    def rats(key):
        v = mb.get(key, "-")
        return [] if v == "-" else [Fraction(t) for t in v.split(",")]
    if mb.get("pos") != "1":
        bad.append(f"{where}: nsi_eigenvector_centrality of a connected network is not positive: "
                   f"{[float(t) for t in x]}")
    if mb.get("conn") != "1":
        bad.append(f"{where}: igraph finds all pairs connected, the model's BFS does not")
    if mb.get("norm") != enc_rats(x):
        bad.append(f"{where}: the returned vector is not a fixed point of `ec *= sign(ec[0]); "
                   f"ec / ec.max()` (model: {mb.get('norm', '')[:120]})")
    ax = rats("ax")
    scale = max([abs(float(t)) for t in ax] + [1e-300])
    if len(ax) != n or not all(abs(float(a) - b) <= 1e-12 * scale for a, b in zip(ax, ax_impl)):
        bad.append(f"{where}: model (A+ Dw) x = {[float(t) for t in ax]} but sp_Aplus * sp_diag_w "
                   f"@ x = {ax_impl}")
    resid = rats("resid")
    xs = max(float(t) for t in x)
    rel = max([abs(float(r)) for r in resid] + [0.0]) / (scale * max(xs, 1e-300))
    stats["resid"] = max(stats["resid"], rel)
    if rel > EIG_TOL:
        bad.append(f"{where}: the returned vector is not an eigenvector of the n.s.i. adjacency "
                   f"matrix: relative residual {rel:.3e}")
    return bad


RW_TERMS = 60      # terms of the exponential series of nsi_spreading sent by the model


def check_rw(ctx, ans, impl_pack, n, where):
    """one `rw` answer of the driver against the implementation's values on the same graph"""
    import math
    impl, w, scaled, adjacency = impl_pack
    mb = parse_betw(ans)
    bad = []

    def rats(key):
        v = mb.get(key, "-")
        return None if v == "singular" else ([] if v == "-" else [Fraction(x) for x in v.split(",")])
    if mb.get("solves") != "1":
        bad.append(f"{where}: the grounded inverse of sp_M does not satisfy SolvesL / SolvesR")
    if mb.get("arenas_ok") != "1":
        bad.append(f"{where}: a computed V_i does not solve (1 - P_i) V = P_i exactly")
    pairs = [("newman", "nsi_newman_betweenness@oracle"),
             ("newman_ends", "nsi_newman_betweenness_ends@oracle"),
             ("arenas", "nsi_arenas_betweenness@oracle"),
             ("arenas_incl", "nsi_arenas_betweenness_incl@oracle"),
             ("arenas_twin", "nsi_arenas_betweenness_twin@oracle"),
             ("arenas_incl_twin", "nsi_arenas_betweenness_incl_twin@oracle")]
    for key, name in pairs:
        iv = impl.get(name)
        if iv is None:
            continue
        mv = rats(key)
        if isinstance(iv, tuple):
            if mv is not None:      # the model has a value, the implementation raises
                bad.append(f"{where} {name}: implementation raises {iv[1]}, model={mb.get(key)[:80]}")
                ctx.fail({"kind": "raises", "measure": name.split("@")[0]},
                         f"{name} raises {iv[1]} on a connected network on which the exact "
                         f"linear algebra has a solution ({where})",
                         {"measure": name, "adjacency": adjacency,
                          "node_weights": [float(x) for x in w], "where": where})
            continue
        if mv is None or len(mv) != len(iv):
            bad.append(f"{where} {name}: model={mb.get(key, '?')[:80]} impl={iv}")
            continue
        fl = vec_floor(iv, [float(x) for x in mv], scaled, name)
        if not all(close(a, float(b), 1e-8, fl) for a, b in zip(iv, mv)):
            bad.append(f"{where} {name}: impl={iv} model={[float(x) for x in mv]}")
        ctx.count("rw-values-compared", len(iv))
    # nsi_laplacian: exact entries
    iv = impl.get("nsi_laplacian@untouched")
    mv = rats("lap")
    if iv is not None and not isinstance(iv, tuple):
        fl = max([1.0] + [abs(x) for x in iv])
        if mv is None or len(mv) != len(iv) or not all(
                close(a, float(b), 1e-12, fl) for a, b in zip(iv, mv)):
            bad.append(f"{where} nsi_laplacian: impl={iv[:8]} model={mb.get('lap', '')[:80]}")
    # histogram bin layout
    iv = impl.get("nsi_degree_histogram_bins@global")
    mv = rats("lbb")
    if iv is not None and not isinstance(iv, tuple):
        fl = max([1.0] + [abs(x) for x in iv])
        if mv is None or str(len(iv)) != mb.get("nbins") or len(mv) != len(iv) or not all(
                close(a, float(b), 1e-12, fl) for a, b in zip(iv, mv)):
            bad.append(f"{where} nsi_degree_histogram bins: impl={iv} model nbins="
                       f"{mb.get('nbins')} lbb={mb.get('lbb', '')[:80]}")
    # nsi_spreading = 1/2 sum_k (alpha ln 2)^k / k! m_k, all terms positive
    rows = [[Fraction(x) for x in r.split(",")] for r in mb.get("moments", "-").split(";")
            if r and r != "-"]
    alpha0 = rats("alpha")
    for name, alpha in (("nsi_spreading@oracle", alpha0[0] if alpha0 else None),
                        ("nsi_spreading_alpha@oracle", Fraction(1, 8))):
        iv = impl.get(name)
        if iv is None or isinstance(iv, tuple) or alpha is None or not rows:
            continue
        if not all(x == x and abs(x) != float("inf") for x in iv):
            continue
        ln2 = math.log(2.0)
        vals, conv = [], True
        for i in range(n):
            tot, last = 0.0, 0.0
            for k, row in enumerate(rows):
                try:
                    last = float(row[i] * alpha ** k) * (ln2 ** k / math.factorial(k))
                except OverflowError:
                    last = float("inf")
                tot += last
            conv = conv and last <= 1e-13 * tot
            vals.append(0.5 * tot)
        if not conv:
            ctx.count("spreading-series-not-converged-in-%d-terms" % len(rows))
            continue
        if len(vals) != len(iv) or not all(close(a, b, 1e-9, max(abs(x) for x in iv))
                                           for a, b in zip(iv, vals)):
            bad.append(f"{where} {name}: impl={iv} series={vals}")
        ctx.count("spreading-series-compared")
    return bad


def vec_floor(b, s, vec_rel, name=""):
    """on graphs whose weights were rescaled by a power of two `c` (= vec_rel) the measures
    scale with them: entries are compared relative to the largest entry of the vector, and
    the betweenness-type measures (homogeneous of degree 2 in the weights, computed with
    cancellation) relative to c**2, which is where their rounding noise lives"""
    if not vec_rel:
        return 1.0
    fin = [abs(x) for x in list(b) + list(s) if x == x and abs(x) != float("inf")]
    fl = max([1.0] + fin)
    if vec_rel > 1 and "betweenness" in name:
        fl = max(fl, float(vec_rel) ** 2)
    return fl


def oracle(ctx, base, spl, n, v, p, A, directed, w, Wroot, g0, extra_replay=None,
           vec_rel=False):
    """global equal; per-node equal on untouched nodes and twin = v; pairwise equal on
    untouched pairs"""
    for name, b in base.items():
        s = spl.get(name)
        if s is None:
            continue
        replay = {"measure": name, "adjacency": A.tolist(), "directed": directed,
                  "node_weights": w.tolist(), "link_attribute_cuberoot": Wroot.tolist(),
                  "group0": g0, "node": v, "proportion": str(p)}
        if n > 60:      # hub stress: the edge list is enough
            replay["adjacency"] = [[int(i), int(j)] for i, j in zip(*np.nonzero(A)) if i < j]
            replay.pop("link_attribute_cuberoot")
        if extra_replay:
            replay.update(extra_replay)
        if isinstance(b, tuple) or isinstance(s, tuple):
            if isinstance(b, tuple) != isinstance(s, tuple) and A.sum() > 0:
                ctx.fail({"kind": "raises-after-split", "measure": name},
                         f"{name} raises on exactly one of net / split copy: {b if isinstance(b, tuple) else s}",
                         replay)
            continue
        ok = True
        tol = 1e-6 if "@oracle" in name else 1e-9      # iterative solvers
        fl = vec_floor(b, s, vec_rel, name)
        if "@global" in name:       # a vector that is one global value (bin layout)
            ok = len(b) == len(s) and all(close(x, y, 1e-12, fl) for x, y in zip(b, s))
        elif len(b) == 1:
            ok = close(b[0], s[0], tol) or (b[0] != b[0] and s[0] != s[0])
        elif len(b) == n:
            for i in range(n):
                if not (close(b[i], s[i], tol, fl) or (b[i] != b[i] and s[i] != s[i])):
                    ok = False
            if not (close(b[v], s[n], tol, fl) or (b[v] != b[v] and s[n] != s[n])):
                ok = False
        elif len(b) == n * n:
            for i in range(n):
                for j in range(n):
                    if "@untouched" in name and (i == v or j == v):
                        continue
                    x, y = b[i * n + j], s[i * (n + 1) + j]
                    if not (close(x, y, 1e-9, fl) or (x != x and y != y)):
                        ok = False
        if not ok:
            replay.update(on_net=b, on_split=s)
            sig = {"kind": "not-split-invariant", "measure": name.split("@")[0],
                   "input_class": "unreachable-pair" if name.endswith("@unreachable") else "any"}
            ctx.fail(sig, f"{name} differs between the network and its split copy "
                          f"(node {v}, proportion {p})", replay)


def oracle_map(ctx, base, spl, n, orig, A, directed, w, extra, vec_rel=False):
    """several splits: node k of the final network descends from node orig[k] of the original:
    global values equal, per-node values equal along `orig`, pairwise values equal on pairs of
    nodes that were never split"""
    m = len(orig)
    touched = {orig[k] for k in range(n, m)}
    for name, b in base.items():
        s = spl.get(name)
        if s is None or isinstance(b, tuple) or isinstance(s, tuple):
            continue
        tol = 1e-6 if "@oracle" in name else 1e-9
        fl = vec_floor(b, s, vec_rel, name) if len(b) > 1 else 1.0
        eq = lambda x, y: close(x, y, tol, fl) or (x != x and y != y)   # noqa
        ok = True
        if "@global" in name:
            ok = len(b) == len(s) and all(close(x, y, 1e-12, max(fl, vec_floor(b, s, vec_rel)))
                                          for x, y in zip(b, s))
        elif len(b) == 1:
            ok = eq(b[0], s[0])
        elif len(b) == n:
            ok = all(eq(b[orig[k]], s[k]) for k in range(m))
        elif len(b) == n * n:
            ok = all(eq(b[i * n + j], s[i * m + j]) for i in range(n) for j in range(n)
                     if i not in touched and j not in touched)
        if not ok:
            replay = {"measure": name, "adjacency": A.tolist(), "directed": directed,
                      "node_weights": w.tolist(), "on_net": b, "on_split": s}
            replay.update(extra)
            ctx.fail({"kind": "not-split-invariant", "measure": name.split("@")[0],
                      "input_class": ("unreachable-pair" if name.endswith("@unreachable")
                                      else "several-splits")},
                     f"{name} differs between the network and its copy after the splits "
                     f"{extra.get('splits')}", replay)


def history(ctx, rng, A, w, g0, reassign):
    """the property on objects with a past.  (1) An InteractingNetworks object that answered
    the cross measures first (they work on the cached path-length matrix) and then the
    distance-based n.s.i. measures, every call twice; (2) a Network whose node weights were
    re-assigned after the measures had been cached.  The split copy is taken from the live
    object; the invariance must hold between the live object and its copy."""
    from pyunicorn.core import InteractingNetworks
    n = A.shape[0]
    L1 = [i for i in range(n) if g0[i]]
    L2 = [i for i in range(n) if not g0[i]]
    v = rng.randrange(n)
    p = rng.choice([0.25, 0.5, 0.75])

    def calls(obj, l1, l2):
        c = {"nsi_cross_average_path_length": lambda: obj.nsi_cross_average_path_length(l1, l2),
             "nsi_cross_closeness_centrality": lambda: obj.nsi_cross_closeness_centrality(l1, l2),
             "nsi_internal_closeness_centrality":
                 lambda: obj.nsi_internal_closeness_centrality(l1),
             "nsi_closeness": obj.nsi_closeness,
             "nsi_average_path_length": obj.nsi_average_path_length,
             "nsi_harmonic_closeness": obj.nsi_harmonic_closeness,
             "nsi_exponential_closeness": obj.nsi_exponential_closeness,
             "nsi_global_efficiency": obj.nsi_global_efficiency,
             "nsi_degree": obj.nsi_degree,
             "nsi_local_clustering": obj.nsi_local_clustering,
             "nsi_max_neighbors_degree": obj.nsi_max_neighbors_degree,
             "nsi_betweenness": obj.nsi_betweenness,
             "nsi_interregional_betweenness":
                 lambda: obj.nsi_interregional_betweenness(sources=l1, targets=l2),
             "nsi_cross_betweenness": lambda: obj.nsi_cross_betweenness(l1, l2),
             "nsi_cross_local_clustering": lambda: obj.nsi_cross_local_clustering(l1, l2),
             "nsi_cross_degree": lambda: obj.nsi_cross_degree(l1, l2)}
        return c

    def run_all(obj, l1, l2, first):
        c = calls(obj, l1, l2)
        order = [k for k in c if k not in first]
        rng.shuffle(order)
        order = list(first) + order
        r1 = {k: np.asarray(quiet(c[k]), dtype=float).reshape(-1).tolist() for k in order}
        rng.shuffle(order)
        r2 = {k: np.asarray(quiet(c[k]), dtype=float).reshape(-1).tolist() for k in order}
        return r1, r2

    if reassign:
        other = np.array([rng.choice([0.5, 1.0, 3.0, 8.0]) for _ in range(n)])
        live = InteractingNetworks(adjacency=A, node_weights=other, silence_level=3)
        run_all(live, L1, L2, ())                   # fill the caches with the old weights
        live.node_weights = w
        kind = "weights-reassigned"
    else:
        live = InteractingNetworks(adjacency=A, node_weights=w, silence_level=3)
        kind = "cross-measures-first"
    ctx.count("history:" + kind)
    first = ("nsi_cross_average_path_length", "nsi_cross_closeness_centrality")
    b1, b2 = run_all(live, L1, L2, first)
    spn = quiet(live.splitted_copy, node=v, proportion=p)
    sp = InteractingNetworks(adjacency=spn.adjacency, node_weights=spn.node_weights,
                             silence_level=3)
    sL1 = L1 + ([n] if g0[v] else [])
    sL2 = L2 + ([] if g0[v] else [n])
    s1, s2 = run_all(sp, sL1, sL2, first)
    reach = not np.isinf(quiet(live.path_lengths)).any()
    replay = {"adjacency": A.tolist(), "node_weights": w.tolist(), "group0": g0, "node": v,
              "proportion": p, "history": kind}

    def full(vals, L, size):
        out = [float("nan")] * size
        for k, i in enumerate(L):
            out[i] = vals[k]
        return out
    for name in b1:
        same = lambda x, y: len(x) == len(y) and all(        # noqa
            close(a, b, 1e-13) or (a != a and b != b) for a, b in zip(x, y))
        if not same(b1[name], b2[name]) or not same(s1[name], s2[name]):
            ctx.fail({"kind": "history", "measure": name, "history": kind},
                     f"{name} returns a different value when asked a second time on the same "
                     f"object ({kind})", dict(replay, measure=name, first=b1[name], second=b2[name]))
            continue
        if not reach and name in ("nsi_cross_average_path_length",
                                  "nsi_cross_closeness_centrality",
                                  "nsi_internal_closeness_centrality"):
            continue        # known findings (N - 1 for unreachable pairs)
        if not L1 or not L2:
            if "cross" in name or "interregional" in name:
                continue
        b, s = b2[name], s2[name]
        if len(b) == len(L1) and len(s) == len(sL1) and name not in (
                "nsi_closeness", "nsi_degree") and ("cross" in name or "internal" in name) \
                and name != "nsi_cross_betweenness":
            b, s = full(b, L1, n), full(s, sL1, n + 1)
        ok = True
        if len(b) == 1:
            ok = close(b[0], s[0]) or (b[0] != b[0] and s[0] != s[0])
        else:
            for i in range(n):
                if not (close(b[i], s[i]) or (b[i] != b[i] and s[i] != s[i])):
                    ok = False
            if not (close(b[v], s[n]) or (b[v] != b[v] and s[n] != s[n])):
                ok = False
        if not ok:
            ctx.fail({"kind": "history", "measure": name, "history": kind},
                     f"{name} on an object with a past ({kind}) differs from its value on the "
                     f"split copy (node {v}, proportion {p})",
                     dict(replay, measure=name, on_net=b, on_split=s))


def extras(ctx):
    """Geo / climate networks (node weights from the grid), a hub whose degree exceeds 181
    (products of counts leave int16), and the default arguments of splitted_copy"""
    from pyunicorn.core import GeoNetwork, GeoGrid, Network
    from pyunicorn.climate import ClimateNetwork
    rng = ctx.rng
    quick = ctx.tier == "quick"
    for rep in range(3 if quick else 12):
        n = rng.randrange(4, 9)
        lat = np.array([rng.choice([-75., -60., -30., 0., 15., 45., 60., 82.5]) for _ in range(n)])
        lon = np.array([rng.choice([0., 30., 90., 180., 270.]) for _ in range(n)])
        grid = GeoGrid(time_seq=np.arange(3.), lat_seq=lat, lon_seq=lon, silence_level=3)
        nwt = rng.choice(["surface", "irrigation", None])
        if rep % 2 == 0:
            A = np.zeros((n, n), dtype=int)
            for i in range(n):
                for j in range(i):
                    A[i, j] = A[j, i] = rng.random() < 0.5
            gnet = GeoNetwork(grid=grid, adjacency=A, node_weight_type=nwt, silence_level=3)
            cls = "GeoNetwork"
        else:
            sim = np.eye(n)
            for i in range(n):
                for j in range(i):
                    sim[i, j] = sim[j, i] = rng.choice([0.125, 0.25, 0.5, 0.75, 0.875])
            gnet = ClimateNetwork(grid=grid, similarity_measure=sim, threshold=0.5,
                                  node_weight_type=nwt, silence_level=3)
            A = np.array(gnet.adjacency)
            cls = "ClimateNetwork"
        ctx.count(f"{cls}:{nwt}")
        w = np.array(gnet.node_weights, dtype=float)
        g0 = [rng.random() < 0.5 for _ in range(n)]
        g0[0], g0[1] = True, False
        g1 = [not x for x in g0]
        reach = not np.isinf(quiet(gnet.path_lengths)).any()
        base = impl_values(gnet, False, g0, g1, reach)
        v = rng.randrange(n)
        p = rng.choice([Fraction(1, 4), Fraction(1, 2), Fraction(3, 4)])
        sp = quiet(gnet.splitted_copy, node=v, proportion=float(p))
        s_reach = not np.isinf(quiet(sp.path_lengths)).any()
        spl = impl_values(sp, False, g0 + [g0[v]], g1 + [g1[v]], s_reach)
        ctx.case((cls, A.tobytes().hex(), w.tobytes().hex(), v, str(p)), A.sum() > 0, None)
        oracle(ctx, base, spl, n, v, p, A, False, w, np.zeros((n, n)), g0,
               {"class": cls, "node_weight_type": nwt, "lat": lat.tolist()})
    # hub: a star with more than 181 leaves plus a few extra links
    for rep in range(1 if quick else 3):
        n = rng.choice([190, 200, 260])
        A = np.zeros((n, n), dtype=int)
        A[0, 1:] = A[1:, 0] = 1
        for _ in range(40):
            i, j = rng.randrange(1, n), rng.randrange(1, n)
            if i != j:
                A[i, j] = A[j, i] = 1
        w = np.array([rng.choice([0.5, 1.0, 1.5, 2.0]) for _ in range(n)])
        g0 = [i % 2 == 0 for i in range(n)]
        g1 = [not x for x in g0]
        net = Network(adjacency=A, node_weights=w, silence_level=3)
        base = impl_values(net, False, g0, g1, True, heavy=False)
        for v in (0, rng.randrange(1, n)):
            p = Fraction(1, 4)
            sp = quiet(net.splitted_copy, node=v, proportion=float(p))
            spl = impl_values(sp, False, g0 + [g0[v]], g1 + [g1[v]], True, heavy=False)
            ctx.count("hub-degree>181")
            ctx.case(("hub", n, A.tobytes().hex()[:64], v), True, None)
            oracle(ctx, base, spl, n, v, p, A, False, w, np.zeros((n, n)), g0, {"hub": True})
