"""Entry point: ./check <id> [--tier quick|thorough] [--replay FILE]"""
import argparse
import importlib
import os
import sys
import traceback

sys.path.insert(0, os.path.dirname(os.path.dirname(os.path.abspath(__file__))))
from harness import common  # noqa: E402


def main():
    ap = argparse.ArgumentParser()
    ap.add_argument("pid")
    ap.add_argument("--tier", default=os.environ.get("VERIF_TIER", "quick"),
                    choices=["quick", "thorough"])
    ap.add_argument("--replay", default=None)
    a = ap.parse_args()
    seed = int(os.environ.get("VERIF_SEED", "0") or 0)
    os.environ[common.GUARD] = "1"
    os.environ.setdefault("OMP_NUM_THREADS", "1")
    # one run per property at a time: translator output (lean/Pyunicorn/Generated/*<pid>*), the
    # property's .olean files and its driver are per-property shared state
    import fcntl
    os.makedirs(os.path.join(common.VERIF, ".build"), exist_ok=True)
    lock = open(os.path.join(common.VERIF, ".build", f"run-{a.pid}.lock"), "w")
    fcntl.flock(lock, fcntl.LOCK_EX)
    ctx = common.Ctx(a.pid, a.tier, seed)
    try:
        common.use_build()
        mod = importlib.import_module("harness." + a.pid.lower())
        if a.replay:
            import json
            rp = json.load(open(a.replay))
            print(json.dumps(rp, indent=1)[:4000])
            if hasattr(mod, "replay"):
                mod.replay(ctx, rp)
                return ctx.finish()
        mod.run(ctx)
    except common.BuildError as e:
        # the machinery itself could not be built: exit 2 (never a verdict)
        print(f"[{a.pid}] BUILD ERROR: {e}")
        return 2
    except Exception:
        traceback.print_exc()
        print(f"[{a.pid}] HARNESS ERROR")
        return 2
    return ctx.finish()


if __name__ == "__main__":
    sys.exit(main())
