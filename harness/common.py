"""Shared machinery of the /verif checks.

* build of pyunicorn from /repo's *current working tree* into /verif/.build/<hash>
* Lean project build, banned-token grep, axiom audit, line-protocol driver
* evidence / replay / known-findings bookkeeping and the failure protocol
  (DESIGN.md section 1)
"""
import fcntl
import hashlib
import json
import os
import random
import re
import shutil
import subprocess
import sys
import time

VERIF = os.path.dirname(os.path.dirname(os.path.abspath(__file__)))
REPO = os.environ.get("VERIF_REPO", "/repo")
LEAN = os.path.join(VERIF, "lean")
BUILD_ROOT = os.path.join(VERIF, ".build")
PY = "/venv/bin/python"
GUARD = "PYUNICORN_VERIF"
ALLOWED_AXIOMS = {"propext", "Classical.choice", "Quot.sound"}
BANNED = re.compile(
    r"\bsorry\b|\badmit\b|^\s*axiom\s|native_decide|bv_decide|implemented_by"
    r"|\bunsafe\s|maxHeartbeats\s+0\b")

EXT_PKGS = ["climate", "core", "funcnet", "timeseries"]


# ----------------------------------------------------------------------------
# building pyunicorn from the working tree
# ----------------------------------------------------------------------------

def _ext_hash(flags=""):
    h = hashlib.sha256()
    h.update(flags.encode())
    files = [os.path.join(REPO, "setup.py")]
    for pkg in EXT_PKGS:
        d = os.path.join(REPO, "src", "pyunicorn", pkg, "_ext")
        for fn in sorted(os.listdir(d)):
            if fn.endswith((".pyx", ".pxd", ".py", ".h")) or fn == "src_numerics.c":
                files.append(os.path.join(d, fn))
    for f in files:
        h.update(f.encode())
        with open(f, "rb") as fh:
            h.update(fh.read())
    return h.hexdigest()[:16]


def ensure_build(asan=False, log=None):
    """Return a directory containing an importable `pyunicorn` package built
    from /repo's current working tree.  Extension modules are rebuilt when any
    kernel source changed; pure Python files are re-synchronised on every
    call."""
    flags = "asan" if asan else "plain"
    os.makedirs(BUILD_ROOT, exist_ok=True)
    lock = open(os.path.join(BUILD_ROOT, ".lock"), "w")
    fcntl.flock(lock, fcntl.LOCK_EX)
    try:
        hsh = _ext_hash(flags)
        # builds of a scratch tree (VERIF_REPO, used by tools/seed_*.py, possibly several in
        # parallel) are kept apart from the builds of /repo: same extension sources but different
        # Python sources must never share a directory
        tag = repo_tag(REPO)
        bdir = os.path.join(BUILD_ROOT, f"{flags}{tag}-{hsh}")
        src = os.path.join(bdir, "src")
        os.makedirs(bdir, exist_ok=True)
        # always resync sources (never the repo's own .so / generated .c)
        subprocess.run(
            ["rsync", "-a", "--delete", "--exclude", "*.so", "--exclude",
             "__pycache__", "--exclude", "_ext/numerics.c", "--exclude",
             "build", "--exclude", "*.egg-info",
             os.path.join(REPO, "src") + "/", src + "/"],
            check=True)
        for fn in ("setup.py", "pyproject.toml", "setup.cfg", "README.rst",
                   "MANIFEST.in", "LICENSE.txt"):
            p = os.path.join(REPO, fn)
            if os.path.exists(p):
                shutil.copy(p, os.path.join(bdir, fn))
        sos = [os.path.join(bdir, "so", pkg) for pkg in EXT_PKGS]
        stamp = os.path.join(bdir, ".built")
        if not os.path.exists(stamp):
            env = dict(os.environ)
            if asan:
                env.update(
                    CC="clang", LDSHARED="clang -shared",
                    CFLAGS="-fsanitize=address,undefined -shared-libasan "
                           "-fno-omit-frame-pointer -O1 -g")
            t0 = time.time()
            r = subprocess.run(
                [PY, "setup.py", "build_ext", "--inplace", "-j8"],
                cwd=bdir, env=env, stdout=subprocess.PIPE,
                stderr=subprocess.STDOUT, text=True)
            if r.returncode != 0:
                raise BuildError("pyunicorn build failed:\n" + r.stdout[-4000:])
            # keep the .so files outside the rsync --delete area
            for pkg in EXT_PKGS:
                d = os.path.join(src, "pyunicorn", pkg, "_ext")
                out = os.path.join(bdir, "so", pkg)
                os.makedirs(out, exist_ok=True)
                for fn in os.listdir(d):
                    if fn.endswith(".so"):
                        shutil.copy(os.path.join(d, fn), os.path.join(out, fn))
            open(stamp, "w").write(f"{time.time() - t0:.1f}s\n")
            # drop stale builds of the same flavour
            for other in os.listdir(BUILD_ROOT):
                if re.fullmatch(re.escape(flags + tag) + r"-[0-9a-f]{16}", other) and \
                        os.path.join(BUILD_ROOT, other) != bdir:
                    shutil.rmtree(os.path.join(BUILD_ROOT, other),
                                  ignore_errors=True)
        # (re)install the .so files next to the freshly synced sources
        for pkg in EXT_PKGS:
            d = os.path.join(src, "pyunicorn", pkg, "_ext")
            out = os.path.join(bdir, "so", pkg)
            for fn in os.listdir(out):
                a, b = os.path.join(out, fn), os.path.join(d, fn)
                # never rewrite a .so another running check may have mapped: copy only when
                # missing or different, and then atomically (new inode)
                if not os.path.exists(b) or os.path.getsize(a) != os.path.getsize(b) \
                        or os.path.getmtime(b) < os.path.getmtime(a):
                    tmp = b + f".tmp{os.getpid()}"
                    shutil.copy(a, tmp)
                    os.replace(tmp, b)
        return src
    finally:
        fcntl.flock(lock, fcntl.LOCK_UN)
        lock.close()


class BuildError(Exception):
    pass


def repo_tag(repo):
    return "" if os.path.realpath(repo) == "/repo" else \
        "-wt" + hashlib.sha1(os.path.realpath(repo).encode()).hexdigest()[:8]


def drop_builds_for(repo):
    """remove the builds made for a scratch tree (called by tools/seed_*.py when done)"""
    tag = repo_tag(repo)
    if not tag or not os.path.isdir(BUILD_ROOT):
        return
    for other in os.listdir(BUILD_ROOT):
        if tag + "-" in other:
            shutil.rmtree(os.path.join(BUILD_ROOT, other), ignore_errors=True)


def use_build(asan=False):
    """Make `import pyunicorn` in *this* process (and children) resolve to the
    build of the current working tree."""
    src = ensure_build(asan=asan)
    sys.path.insert(0, src)
    os.environ["PYTHONPATH"] = src + os.pathsep + os.environ.get("PYTHONPATH", "")
    for k in [k for k in sys.modules if k == "pyunicorn" or k.startswith("pyunicorn.")]:
        del sys.modules[k]
    import pyunicorn  # noqa
    assert os.path.realpath(pyunicorn.__file__).startswith(os.path.realpath(src)), \
        pyunicorn.__file__
    return src


# ----------------------------------------------------------------------------
# Lean
# ----------------------------------------------------------------------------

def _run(cmd, cwd=None, timeout=3600, env=None):
    r = subprocess.run(cmd, cwd=cwd, stdout=subprocess.PIPE,
                       stderr=subprocess.STDOUT, text=True, timeout=timeout,
                       env=env)
    return r.returncode, r.stdout


def lake_build(targets, timeout=3600):
    """`lake build <targets>` under a lock (lake is not re-entrant on one
    workspace).  Returns (ok, output)."""
    os.makedirs(os.path.join(LEAN, ".lake"), exist_ok=True)
    lock = open(os.path.join(LEAN, ".lake", ".verif.lock"), "w")
    fcntl.flock(lock, fcntl.LOCK_EX)
    try:
        rc, out = _run(["lake", "build"] + list(targets), cwd=LEAN,
                       timeout=timeout)
        return rc == 0, out
    finally:
        fcntl.flock(lock, fcntl.LOCK_UN)
        lock.close()


def _strip_comments(text):
    # remove /- ... -/ (nested not needed here) and -- ... comments
    text = re.sub(r"/-.*?-/", lambda m: "\n" * m.group(0).count("\n"), text,
                  flags=re.S)
    return "\n".join(l.split("--")[0] for l in text.split("\n"))


def banned_tokens(files):
    hits = []
    for f in files:
        txt = _strip_comments(open(f).read())
        for n, line in enumerate(txt.split("\n"), 1):
            if BANNED.search(line):
                hits.append(f"{os.path.relpath(f, VERIF)}:{n}: {line.strip()}")
    return hits


def lean_files():
    out = []
    for root, _, fns in os.walk(os.path.join(LEAN, "Pyunicorn")):
        for fn in fns:
            if fn.endswith(".lean"):
                out.append(os.path.join(root, fn))
    for fn in os.listdir(os.path.join(LEAN, "Drivers")):
        if fn.endswith(".lean"):
            out.append(os.path.join(LEAN, "Drivers", fn))
    return sorted(out)


def module_theorems(relpath):
    """Names of `theorem`s declared in a Lean file (namespace-aware enough
    for our flat property files: one `namespace` per file)."""
    txt = _strip_comments(open(os.path.join(LEAN, relpath)).read())
    ns = []
    names = []
    for line in txt.split("\n"):
        m = re.match(r"\s*namespace\s+(\S+)", line)
        if m:
            ns.append(m.group(1))
            continue
        m = re.match(r"\s*end\s+(\S+)\s*$", line)
        if m and ns and ns[-1] == m.group(1):
            ns.pop()
            continue
        m = re.match(r"\s*(?:protected\s+)?theorem\s+(\S+)", line)
        if m:
            names.append(".".join(ns + [m.group(1)]))
    return names


def axiom_audit(module, theorems):
    """Return ({theorem: [axioms]}, raw output).  Runs `#print axioms` through
    `lake env lean` on a scratch file."""
    scratch = os.path.join(LEAN, ".lake", f"audit_{module.replace('.', '_')}.lean")
    os.makedirs(os.path.dirname(scratch), exist_ok=True)
    with open(scratch, "w") as fh:
        fh.write(f"import {module}\n")
        for t in theorems:
            fh.write(f"#print axioms {t}\n")
    rc, out = _run(["lake", "env", "lean", scratch], cwd=LEAN, timeout=1800)
    res = {}
    flat = re.sub(r"\s+", " ", out)
    for t in theorems:
        m = re.search(r"'" + re.escape(t) + r"' depends on axioms: \[([^\]]*)\]", flat)
        if m:
            res[t] = [a.strip() for a in m.group(1).split(",") if a.strip()]
        elif re.search(r"'" + re.escape(t) + r"' does not depend on any axioms", flat):
            res[t] = []
        else:
            res[t] = None
    return res, out


def gen_lake():
    subprocess.run([sys.executable, os.path.join(VERIF, "tools", "gen_lake.py")], check=True)


def gen_arith(pid):
    """Run the translators of property `pid`: translate/arith_<pid>.json through
    gen_arith.py (-> Generated/Arith<pid>.lean) and, if present, the structural
    translator translate/gen_<pid>.py (-> Generated/Struct<pid>.lean).
    Returns (ok, message)."""
    env = dict(os.environ, VERIF_REPO=REPO)
    ok, msgs = True, []
    spec = os.path.join(VERIF, "translate", f"arith_{pid}.json")
    if os.path.exists(spec):
        out = os.path.join(LEAN, "Pyunicorn", "Generated", f"Arith{pid}.lean")
        rc, msg = _run([sys.executable, os.path.join(VERIF, "translate", "gen_arith.py"),
                        spec, out], env=env)
        ok &= rc == 0
        msgs.append(msg)
    extra = os.path.join(VERIF, "translate", f"gen_{pid}.py")
    if os.path.exists(extra):
        out = os.path.join(LEAN, "Pyunicorn", "Generated", f"Struct{pid}.lean")
        rc, msg = _run([sys.executable, extra, out], env=env)
        ok &= rc == 0
        msgs.append(msg)
    return ok, "\n".join(m for m in msgs if m)


def has_translators(pid):
    return any(os.path.exists(os.path.join(VERIF, "translate", f))
               for f in (f"arith_{pid}.json", f"gen_{pid}.py"))


def driver_path(pid):
    return os.path.join(LEAN, ".lake", "build", "bin", f"drv_{pid.lower()}")


def driver(pid, lines, timeout=3600):
    """Feed request lines to the Lean model driver of property `pid`, return
    the answer lines."""
    exe = driver_path(pid)
    if not os.path.exists(exe):
        gen_lake()
        ok, out = lake_build([f"drv_{pid.lower()}"])
        if not ok:
            raise BuildError("driver build failed:\n" + out[-3000:])
    if not lines:
        return []
    data = "\n".join(lines) + "\n"
    r = subprocess.run([exe], input=data, stdout=subprocess.PIPE,
                       stderr=subprocess.PIPE, text=True, timeout=timeout)
    if r.returncode != 0:
        raise BuildError(f"driver crashed rc={r.returncode}: {r.stderr[-2000:]}")
    ans = r.stdout.split("\n")
    if ans and ans[-1] == "":
        ans.pop()
    if len(ans) != len(lines):
        raise BuildError(f"driver answered {len(ans)} lines for {len(lines)} requests")
    return ans


# ----------------------------------------------------------------------------
# check context: obligations, correspondence, oracle failures, evidence
# ----------------------------------------------------------------------------

def load_findings():
    """known_findings.json (aggregated from findings/<id>.json by
    tools/mk_manifest.py, committed, never written at run time):
    {"findings": [{"id","property","signature","what"}],
     "fixed": ["fixed: property=<id> <commit> <what failed>", ...]}"""
    p = os.path.join(VERIF, "known_findings.json")
    if not os.path.exists(p):
        return {"findings": [], "fixed": []}
    return json.load(open(p))


def _canon(o):
    return json.dumps(o, sort_keys=True, default=str)


class Ctx:
    def __init__(self, pid, tier, seed):
        self.pid, self.tier, self.seed = pid, tier, seed
        self.rng = random.Random(seed * 1000003 + int(pid[1:]))
        self.t0 = time.time()
        self.obligations = []      # (name, kind, ok, detail)
        self.broken = []           # names of obligations that no longer check
        self.failures = []         # oracle failures on the real code
        self.known_hits = {}       # finding id -> count
        self.samples = []
        self.seen = set()
        self.evaluations = 0
        self.nontrivial = 0
        self.hist = {}
        self.assumptions = []
        self.trusted = []
        self.extra = {}
        self.rule = ""
        self.checker_cmd = ""
        self.findings = [f for f in load_findings().get("findings", [])
                         if f.get("property") == pid]

    # -- bookkeeping ---------------------------------------------------------
    def count(self, key, n=1):
        self.hist[key] = self.hist.get(key, 0) + n

    def case(self, canon, nontrivial=True, sample=None):
        """Register one explored case (for the evidence counters)."""
        self.evaluations += 1
        h = hashlib.sha1(_canon(canon).encode()).digest()[:10]
        if h not in self.seen:
            self.seen.add(h)
            if nontrivial:
                self.nontrivial += 1
                if sample is not None and len(self.samples) < 4 and \
                        self.rng.random() < 0.25:
                    self.samples.append(sample)
        if sample is not None and not self.samples:
            self.samples.append(sample)

    def obligation(self, name, kind, ok, detail=""):
        self.obligations.append(
            {"name": name, "kind": kind, "ok": bool(ok), "detail": detail[:600]})
        if not ok:
            self.broken.append({"name": name, "kind": kind, "detail": detail[:3000]})

    # -- proof layer ---------------------------------------------------------
    def proofs(self, module=None, relpath=None, extra_theorems=()):
        """Regenerate translator output, build the property module and its
        driver, audit every theorem of the property file."""
        module = module or f"Pyunicorn.Properties.{self.pid}"
        relpath = relpath or (module.replace(".", "/") + ".lean")
        gen_lake()
        ok, msg = gen_arith(self.pid)
        if has_translators(self.pid):
            self.obligation("translators regenerate lean/Pyunicorn/Generated/"
                            f"{{Arith,Struct}}{self.pid}.lean from /repo", "translator", ok, msg)
        hits = banned_tokens(lean_files())
        self.obligation("no sorry/axiom/native_decide in lean/", "grep",
                        not hits, "\n".join(hits))
        drv = f"drv_{self.pid.lower()}"
        self.checker_cmd = (f"cd lean && lake build {module} {drv} && lake env lean "
                            f"<#print axioms of every theorem of {relpath}>")
        okd, outd = lake_build([drv])
        if not okd:
            raise BuildError(f"driver {drv} does not build:\n" + outd[-3000:])
        ok, out = lake_build([module])
        if not ok:
            errs = [l for l in out.split("\n") if "error" in l.lower()][:20]
            self.obligation(f"lake build {module}", "lean-build", False,
                            "\n".join(errs) + "\n" + out[-1500:])
            return False
        self.obligation(f"lake build {module}", "lean-build", True)
        thms = module_theorems(relpath) + list(extra_theorems)
        res, raw = axiom_audit(module, thms)
        allok = True
        for t in thms:
            ax = res.get(t)
            good = ax is not None and set(ax) <= ALLOWED_AXIOMS
            allok &= good
            self.obligation(f"theorem {t}", "theorem", good,
                            f"axioms={ax}" if ax is not None else
                            "not found in audit output: " + raw[-400:])
        self.extra.setdefault("theorems", []).extend(
            {"name": t, "axioms": res.get(t)} for t in thms)
        # independent re-check of the compiled property module (and what it imports from this
        # project) with the toolchain's external checker
        rc, outc = _run(["lake", "env", "leanchecker", module], cwd=LEAN, timeout=1800)
        self.obligation(f"leanchecker {module}", "leanchecker", rc == 0, outc[-600:])
        return allok and rc == 0

    def correspond(self, name, reqs, impl):
        """Compare implementation answers with the Lean model's answers to the
        same requests.  Returns the list of disagreeing indices."""
        model = driver(self.pid, reqs)
        bad = [i for i in range(len(reqs)) if model[i] != impl[i]]
        self.obligation(f"correspondence: {name} ({len(reqs)} requests)", "correspondence",
                        not bad, "\n".join(
                            f"{reqs[i][:300]} :: model={model[i][:200]} impl={impl[i][:200]}"
                            for i in bad[:5]))
        self.extra["requests_compared"] = self.extra.get("requests_compared", 0) + len(reqs)
        return bad, model

    # -- failures on the real code ------------------------------------------------
    def fail(self, signature, what, replay):
        """An oracle failure observed on the implementation.  `signature` is a
        dict matched against known_findings.json entries (exact match of every
        key the entry lists)."""
        for f in self.findings:
            sig = f["signature"]
            if all(signature.get(k) == v for k, v in sig.items()):
                self.known_hits.setdefault(f["id"], {"what": f["what"], "n": 0})["n"] += 1
                return "known"
        self.failures.append({"signature": signature, "what": what,
                              "replay": replay})
        return "new"

    # -- finish ----------------------------------------------------------------
    def finish(self, level="proof"):
        wall = time.time() - self.t0
        os.makedirs(os.path.join(VERIF, "evidence"), exist_ok=True)
        os.makedirs(os.path.join(VERIF, "replays"), exist_ok=True)
        lines = []
        nviol = 0
        for fid, v in sorted(self.known_hits.items()):
            lines.append(f"KNOWN-FINDING: property={self.pid} {fid}: {v['what']} (hit {v['n']}x)")
        if self.failures:
            # group by signature, report the first (smallest) replay of each
            groups = {}
            for f in self.failures:
                groups.setdefault(_canon(f["signature"]), []).append(f)
            allgroups = sorted(groups.items())
            if len(allgroups) > 20:
                print(f"  ({len(allgroups)} distinct violation signatures; the first 20 are reported)")
            for i, (k, fs) in enumerate(allgroups[:20]):
                fs.sort(key=lambda f: len(_canon(f["replay"])))
                path = os.path.join(VERIF, "replays", f"{self.pid}_{self.tier}_{self.seed}_{i}.json")
                json.dump({"property": self.pid, "signature": fs[0]["signature"],
                           "what": fs[0]["what"], "replay": fs[0]["replay"],
                           "occurrences": len(fs),
                           "broken_obligations": self.broken}, open(path, "w"),
                          indent=1, default=str)
                lines.append(f"VIOLATION property={self.pid} replay={path}")
                print(f"  -> {fs[0]['what']}")
                nviol += 1
        elif self.broken:
            path = os.path.join(VERIF, "replays", f"{self.pid}_{self.tier}_{self.seed}_broken.json")
            json.dump({"property": self.pid, "no_failing_input_found": True,
                       "broken_obligations": self.broken}, open(path, "w"),
                      indent=1, default=str)
            for b in self.broken:
                print(f"  -> no longer checks: [{b['kind']}] {b['name']}: {b['detail'][:300]}")
            lines.append(f"VIOLATION property={self.pid} replay={path} no-failing-input-found")
            nviol += 1
        nob = len(self.obligations)
        ndis = sum(1 for o in self.obligations if o["ok"])
        cov = {
            "obligations": nob, "discharged": ndis,
            "checker_cmd": self.checker_cmd or "./check " + self.pid,
            "trusted_base": self.trusted or DEFAULT_TRUSTED,
            "evaluations": self.evaluations,
            "distinct_nontrivial": self.nontrivial,
            "rule": self.rule,
            "samples": self.samples[:6] or ["(none)"],
            "input_distribution": self.hist,
            "obligation_list": self.obligations,
            "known_findings_hit": self.known_hits,
        }
        cov.update(self.extra)
        ev = {"property_id": self.pid, "tier": self.tier, "seed": self.seed,
              "level": level, "coverage": cov,
              "assumptions": self.assumptions, "wall_s": round(wall, 2),
              "violations": nviol}
        # VERIF_EVIDENCE_DIR: used by tools/seed_eval.py so that runs against a deliberately
        # broken tree never overwrite the evidence of the real tree
        evdir = os.environ.get("VERIF_EVIDENCE_DIR") or os.path.join(VERIF, "evidence")
        os.makedirs(evdir, exist_ok=True)
        json.dump(ev, open(os.path.join(evdir, f"{self.pid}.json"), "w"),
                  indent=1, default=str)
        for l in lines:
            print(l)
        print(f"[{self.pid}] tier={self.tier} seed={self.seed} obligations={ndis}/{nob} "
              f"cases={self.evaluations} distinct_nontrivial={self.nontrivial} "
              f"violations={nviol} known={len(self.known_hits)} wall={wall:.1f}s")
        return 1 if nviol else 0


DEFAULT_TRUSTED = [
    "Lean 4.33 kernel; axioms allowed in theorems: propext, Classical.choice, Quot.sound (audited by #print axioms each run)",
    "the correspondence harness (harness/*.py) and the line-protocol driver (lean/Main.lean)",
    "numpy/scipy/igraph, CPython, Cython bounds checks: modelled as their documented mathematical operations",
]


def shrink_list(xs, still_fails, min_len=0):
    """ddmin-style: drop elements while the predicate still fails."""
    xs = list(xs)
    n = 2
    while len(xs) > min_len and n <= len(xs) * 2:
        chunk = max(1, len(xs) // n)
        progressed = False
        i = 0
        while i < len(xs):
            cand = xs[:i] + xs[i + chunk:]
            if len(cand) >= min_len and still_fails(cand):
                xs = cand
                progressed = True
            else:
                i += chunk
        if not progressed:
            if chunk == 1:
                break
            n *= 2
    return xs
