"""C01 (round 5) — owned `Cached` objects: the pair (owner, owned object).

An analysis object may own another `Cached` object and list it in its `__cache_state__`
(`MutualInfo/Havlin/HilbertClimateNetwork.data`, `ClimateNetwork.grid`,
`InterSystemRecurrenceNetwork.rp_x / rp_y / crp_xy`).  Lean (`Model/MemoOwned.lean`,
`owned_pairs_ok`, `ocoherent_all`) composes the owner's table with the owned class's OWN table;
this module ties the composed table to the real objects and searches the real objects:

  * static (informational since the translator derives it): what translate/fields_C01.json may
    still say about an owned object vs what the translator derives from the owned class's source;
  * correspondence: for EVERY public mutator Z of the owned class (from the owned class's table,
    invoker derived as in c01_generic), cached queries Y of the owned object and X of the owner:
    `Y; X; o.comp.Z(...); Y; X; X` on one owner object — hit / miss of the three calls after the
    mutator == the Lean machine on `compose owner owned` (`onhist`), and the machine reports them
    coherent;
  * oracle (independent of the model): what the owner and the owned object serve after
    `o.comp.Z(...)` == what they compute after `cache_clear()` — for the owner's cached queries,
    its summary expressions and every public zero-argument method of the owner whose source
    mentions `self.<comp>` (uncached wrappers around the owned object's cached methods:
    `InterSystemRecurrenceNetwork.internal_recurrence_rates()`, `cross_recurrence_rate()`, …).
"""
import inspect

from . import c01_generic as G


def quiet(fn, *a, **k):
    return G.quiet(fn, *a, **k)


def _cached(cls, name):
    return hasattr(getattr(cls, name, None), "cache_info")


def _mentions(cls, name, comp):
    try:
        return f"self.{comp}" in inspect.getsource(getattr(cls, name))
    except (OSError, TypeError):
        return False


def static_problems(ometa):
    bad = []
    for key, m in ometa.items():
        if m["json_state"] and sorted(m["json_state"]) != sorted(m["derived_state"]):
            bad.append(f"{key}: fields_C01.json says the state of the owned {m['class']} is "
                       f"{m['json_state']}, its __cache_state__ (translator) is {m['derived_state']}")
        if m["dangling"]:
            bad.append(f"{key}: fields_C01.json lists mutators {m['dangling']} that class "
                       f"{m['class']} does not have")
    return bad


def owned_stage(ctx, cname, spec, tables, ometa, usable, quick, same, brief, eval_summary, skip_now):
    """returns (driver requests, observed hit/miss triples, meta, unexercised)"""
    cls, rng = spec["cls"], ctx.rng
    t = tables[cname]
    reqs, impl, metas, unexercised = [], [], [], []
    for key, meta in sorted(ometa.items()):
        if key.split(":")[0] != cname:
            continue
        comp, ocls = key.split(":")[1], meta["class"]
        ut = tables[ocls]
        try:
            probe = quiet(spec["make"], rng)
            co = getattr(probe, comp)
        except Exception as ex:  # noqa
            ctx.count(f"{cname}:owned:{comp}:make-raises:{type(ex).__name__}")
            continue
        if co is None:
            continue
        ccls = type(co)
        n_owned, kept = len(meta["owned_methods"]), len(meta["owner_mutators"])
        unames = meta["owned_mutators"]
        ys = [y for y in meta["owned_methods"] if _cached(ccls, y) and G._zero_arg(ccls, y)]
        xs_all = [m for m, kw in usable if not kw and m in t["order"] and _cached(cls, m)]
        calling = {t["order"][c[0]] for c in meta["ocalls"]}
        xs_call = [m for m in xs_all if m in calling]
        wrappers = [m for m, kw in usable if not kw and m not in xs_all and _mentions(cls, m, comp)]
        # the owned class without mutators (GeoGrid): the nested lookup only
        for oname in (unames or [None]):
            f = None
            if oname is not None:
                src, cands = G.candidates(ocls, ccls, {"mutators": {}}, oname)
                for g in cands:
                    try:
                        p2 = quiet(spec["make"], rng)
                    except Exception:  # noqa
                        break
                    if G.seeded_call(g, getattr(p2, comp), rng, 1) is None:
                        f = g
                        break
                if f is None and cands:
                    f = cands[0]
                if f is None:
                    unexercised.append(f"{cname}.{comp}.{oname}")
                    continue
            try:
                obj = quiet(spec["make"], rng)
                co = getattr(obj, comp)
            except Exception:  # noqa
                continue
            xs = xs_call + rng.sample([m for m in xs_all if m not in xs_call],
                                      min(len(xs_all) - len(xs_call), 2 if quick else 8))
            yy = rng.sample(ys, min(len(ys), 2 if quick else 5))
            try:
                for y in yy:
                    quiet(getattr(co, y))
                for x in xs:
                    quiet(getattr(obj, x))
                for w in wrappers:
                    G.outcome(lambda: quiet(getattr(obj, w)))
                for expr in spec["summary"]:
                    G.outcome(lambda: eval_summary(obj, expr))
            except Exception as ex:  # noqa
                ctx.count(f"{cname}:owned:{comp}:query-raises:{type(ex).__name__}")
                continue
            err = None
            if f is not None:
                err = G.seeded_call(f, co, rng, rng.randrange(2 ** 31))
                ctx.count(f"{cname}:owned:{comp}:mutators")
                if err is not None:
                    ctx.count(f"{cname}:owned:{comp}:mutator-raises:{oname}:{type(err).__name__}")
            ctx.case((cname, "owned", comp, oname), True, {"class": cname, "owned": comp,
                                                           "mutator": oname})

            # ---- hit / miss after the mutator, on the real lru caches -----------------------
            def hm(c, o, name):
                c0 = getattr(c, name).cache_info()
                quiet(getattr(o, name))
                c1 = getattr(c, name).cache_info()
                return "H" if c1.misses == c0.misses else "M"
            zi = f"m{kept + unames.index(oname)}" if oname is not None else None
            calls = set(ut["mutators"].get(oname, {}).get("calls", [])) if oname else set()
            if err is None:
                try:
                    obs_y = {y: hm(ccls, co, y) for y in yy}
                    obs_x = {x: (hm(cls, obj, x), hm(cls, obj, x)) for x in xs}
                except Exception as ex:  # noqa
                    ctx.count(f"{cname}:owned:{comp}:query-raises-after:{type(ex).__name__}")
                    obs_y, obs_x = {}, {}
                pre = [f"q{ut['order'].index(y)}.0" for y in yy] + \
                      [f"q{n_owned + t['order'].index(x)}.0" for x in xs]
                post, want = [], []
                for y in obs_y:
                    post.append(f"q{ut['order'].index(y)}.0")
                    want.append((obs_y[y], y in calls, f"{comp}.{y}"))
                for x in obs_x:
                    post += [f"q{n_owned + t['order'].index(x)}.0"] * 2
                    want += [(obs_x[x][0], False, x), (obs_x[x][1], False, x)]
                if post:
                    reqs.append(f"onhist {cname} {comp} " + ",".join(pre + ([zi] if zi else []) + post))
                    impl.append(want)
                    metas.append((cname, comp, oname, len(pre) + (1 if zi else 0)))
                    ctx.count(f"{cname}:owned:{comp}:hit-miss-calls", len(post))
            # ---- oracle: served after the change == recomputed after cache_clear() ----------
            qs = [(obj, x) for x in xs] + [(obj, w) for w in wrappers] + [(co, y) for y in yy]
            after = {}
            for o, m in qs:
                if not skip_now(o, m):
                    after[(id(o), m)] = G.outcome(lambda: quiet(getattr(o, m)))
            summ = {e: G.outcome(lambda: eval_summary(obj, e)) for e in spec["summary"]}
            try:
                quiet(obj.cache_clear)
                quiet(co.cache_clear)
            except Exception:  # noqa
                continue

            def eq(a, b):
                return a[0] == b[0] and (same(a[1], b[1]) if a[0] == "value" else a[1] == b[1])
            for o, m in qs:
                if (id(o), m) not in after:
                    continue
                oc = G.outcome(lambda: quiet(getattr(o, m)))
                ctx.count(f"{cname}:owned:{comp}:recomputed")
                if not eq(after[(id(o), m)], oc):
                    quiet(obj.cache_clear)
                    quiet(co.cache_clear)
                    if eq(oc, G.outcome(lambda: quiet(getattr(o, m)))):
                        what = m if o is obj else f"{comp}.{m}"
                        sig = {"kind": "stale-query", "class": cname, "mutator": f"{comp}.{oname}",
                               "oracle": "recomputation", "query": what}
                        ctx.fail(sig, f"{cname}.{what}() after o.{comp}.{oname}(…) is "
                                 f"{brief(after[(id(o), m)][1])} but recomputation after "
                                 f"cache_clear() gives {brief(oc[1])}",
                                 dict(sig, observed=brief(after[(id(o), m)][1]), expected=brief(oc[1])))
            for e in spec["summary"]:
                sc = G.outcome(lambda: eval_summary(obj, e))
                if not eq(summ[e], sc):
                    sig = {"kind": "stale-summary", "class": cname, "mutator": f"{comp}.{oname}",
                           "oracle": "recomputation", "attribute": e}
                    ctx.fail(sig, f"{cname}.{e} after o.{comp}.{oname}(…) is {brief(summ[e][1])} but "
                             f"after cache_clear() {brief(sc[1])}",
                             dict(sig, observed=brief(summ[e][1]), expected=brief(sc[1])))
    return reqs, impl, metas, unexercised


def compare(reqs, answers, impl, metas):
    """top-level hit / miss of the calls after the mutator: Lean machine vs real caches"""
    bad, n = [], 0
    for req, a, want, (cname, comp, oname, skip) in zip(reqs, answers, impl, metas):
        outs = a.split(",")[skip:]
        if len(outs) != len(want):
            bad.append(f"{cname}.{comp}.{oname}: driver answered {a!r}")
            continue
        for o, (obs, allow_hit, what) in zip(outs, want):
            n += 1
            first = o.split("+")[0].split("=")[0]
            pred = "H" if first.endswith(".H") else "M"
            if not o.endswith("=1"):
                bad.append(f"{cname}: {what}() after {comp}.{oname}: the Lean machine reports a "
                           f"stale value ({o})")
            elif pred != obs and not (allow_hit and obs == "H"):
                bad.append(f"{cname}: {what}() after {comp}.{oname}: model={pred} impl={obs} ({req})")
    return n, bad
