"""C19 — the REAL `utils/mpi.py` master code and the REAL slave loop (`run()` ->
`serve()`) executed against each other in one process.

`utils/mpi.py` defines the master's functions or the slave's functions at import
time, depending on `comm.rank`.  For a world of `size` ranks the module source is
therefore executed `size` times (fresh module objects), each time with a fake
`mpi4py.MPI.COMM_WORLD` of the respective rank.  Every rank runs `run()` in its
own thread; a baton-passing scheduler lets exactly one thread run at a time and
decides, at every scheduling point, who continues (seeded / adversarial policies).
Channels are FIFO queues per (source, destination) — MPI's non-overtaking rule.

Scheduling points: a slave at every `comm.recv` (top of the `serve()` loop), the
master before every call of the master program and when `comm.recv` finds its
channel empty.  The log of *completed* steps (0 = one master call / terminate,
r = one `serve()` iteration of rank r) is a schedule the Lean model replays.
"""
import collections
import importlib.util
import io
import os
import sys
import threading
import types

from . import common

JOBS_MODULE = "_c19_jobs"
POLICIES = ("random", "master-first", "slaves-first", "reverse-rank", "starve-one", "round-robin")


class WorldClosed(BaseException):
    pass


class Aborted(BaseException):
    pass


class World:
    def __init__(self, size, rng, policy):
        self.size, self.rng, self.policy = size, rng, policy
        self.chan = collections.defaultdict(collections.deque)   # (src, dst) -> FIFO
        self.cv = threading.Condition()
        self.turn = None
        self.state = {r: "new" for r in range(size)}     # new / ready / ('blocked', src) / done
        self.sched = []            # completed steps
        self.sends = []            # (src, dst, obj) in global order
        self.execs = []            # (rank, tag) of every executed job
        self.closed = False
        self.aborted = False
        self.starved = rng.randrange(1, size) if size > 1 else None
        self.rr = 0
        self.yield_on_send = False
        self.master_blocked_steps = 0

    # -- called by rank threads ------------------------------------------------
    def yield_(self, rank, waiting=None):
        with self.cv:
            self.state[rank] = ("blocked", waiting) if waiting is not None else "ready"
            self.turn = None
            self.cv.notify_all()
            while self.turn != rank:
                if self.closed:
                    raise WorldClosed()
                self.cv.wait()
            if self.aborted:
                raise Aborted()
            self.state[rank] = "running"

    def finish(self, rank):
        with self.cv:
            self.state[rank] = "done"
            self.turn = None
            self.cv.notify_all()

    # -- scheduler (main thread) --------------------------------------------------
    def runnable(self):
        res = []
        for r, s in self.state.items():
            if s == "ready":
                res.append(r)
            elif isinstance(s, tuple) and self.chan[(s[1], r)]:
                res.append(r)
        return sorted(res)

    def pick(self, cands):
        p = self.policy
        if p == "master-first":
            return cands[0]
        if p == "slaves-first":
            sl = [c for c in cands if c != 0]
            return self.rng.choice(sl) if sl else 0
        if p == "reverse-rank":
            return cands[-1]
        if p == "starve-one":
            ok = [c for c in cands if c != self.starved]
            return self.rng.choice(ok) if ok else cands[0]
        if p == "round-robin":
            self.rr += 1
            return cands[self.rr % len(cands)]
        return self.rng.choice(cands)

    def schedule(self, master_alive):
        """run until nobody can move; returns 'ok' or 'deadlock'"""
        with self.cv:
            while True:
                while self.turn is not None or any(s in ("new", "running") for s in self.state.values()):
                    self.cv.wait()
                cands = self.runnable()
                if not cands:
                    verdict = "deadlock" if master_alive() else "ok"
                    self.closed = True
                    self.cv.notify_all()
                    return verdict
                r = self.pick(cands)
                if r != 0 and isinstance(self.state[r], tuple):
                    self.sched.append(r)       # one serve() iteration of rank r
                self.turn = r
                self.cv.notify_all()


class SimComm:
    def __init__(self, world, rank):
        self.world, self.rank, self.size = world, rank, world.size

    def send(self, obj, dest):
        dest = int(dest)
        w = self.world
        if self.rank == 0 and w.yield_on_send:
            w.yield_(0)
        w.sends.append((self.rank, dest, obj))
        w.chan[(self.rank, dest)].append(obj)

    def recv(self, source):
        source = int(source)
        w = self.world
        q = w.chan[(source, self.rank)]
        if self.rank != 0 or not q:
            if self.rank == 0:
                w.master_blocked_steps += 1
            w.yield_(self.rank, waiting=source)
        return q.popleft()

    def Abort(self):
        self.world.aborted = True
        raise Aborted()


def mpi_source():
    return os.path.join(common.REPO, "src/pyunicorn/utils/mpi.py")


def load_rank(world, rank, mode="mpi"):
    """execute utils/mpi.py afresh as rank `rank` of `world` (mode 'noimport':
    mpi4py cannot be imported — the situation of the test environment)"""
    saved = sys.modules.get("mpi4py", "absent")
    if mode == "noimport":
        sys.modules["mpi4py"] = None
    else:
        fake = types.ModuleType("mpi4py")
        fake.MPI = types.SimpleNamespace(COMM_WORLD=SimComm(world, rank))
        sys.modules["mpi4py"] = fake
    try:
        spec = importlib.util.spec_from_file_location(f"_c19_mpi_rank{rank}", mpi_source())
        mod = importlib.util.module_from_spec(spec)
        spec.loader.exec_module(mod)
    finally:
        if saved == "absent":
            sys.modules.pop("mpi4py", None)
        else:
            sys.modules["mpi4py"] = saved
    return mod


def install_jobs(world):
    m = types.ModuleType(JOBS_MODULE)

    def job(tag):
        rank = next((r for r, s in world.state.items() if s == "running"), 0)
        world.execs.append((rank, tag))
        return tag * tag + 1
    m.job = job
    sys.modules[JOBS_MODULE] = m


def run_world(size, rng, policy, master_fn, mode="mpi", yield_on_send=False, verbose=False):
    """Run `master_fn(inst0, world)` as `master()` under the real `run()` on rank 0 and
    the real `run()` (-> `serve()`) on ranks 1..size-1.  Returns a dict of observations."""
    world = World(size, rng, policy)
    world.yield_on_send = yield_on_send
    insts = [load_rank(world, r, mode) for r in range(size)]
    install_jobs(world)
    out = {"err": None, "exc": None, "slave_exc": {}, "returned": {}}
    main = sys.modules["__main__"]
    had = main.__dict__.get("master", None)
    had_slave = main.__dict__.pop("slave", None)

    def master():
        master_fn(insts[0], world)

    def body(rank):
        try:
            world.yield_(rank)
            if verbose:
                insts[rank].run(verbose=True)      # the `if _verbose:` statements of every function
            else:
                insts[rank].run()
            out["returned"][rank] = True
            if rank == 0:
                world.sched.append(0)          # terminate() inside run()
        except (WorldClosed, Aborted):
            pass
        except BaseException as ex:  # noqa
            if rank == 0:
                out["exc"] = ex
            else:
                out["slave_exc"][rank] = ex
        finally:
            world.finish(rank)

    main.master = master
    threads = [threading.Thread(target=body, args=(r,), daemon=True) for r in range(size)]
    saved_stdout = sys.stdout
    if verbose:
        sys.stdout = io.StringIO()
    try:
        for t in threads:
            t.start()
        out["verdict"] = world.schedule(
            lambda: world.state[0] != "done")
        for t in threads:
            t.join(timeout=30)
    finally:
        if verbose:
            out["printed"] = sys.stdout.getvalue()
            sys.stdout = saved_stdout
        if had is None:
            main.__dict__.pop("master", None)
        else:
            main.master = had
        if had_slave is not None:
            main.slave = had_slave
        sys.modules.pop(JOBS_MODULE, None)
    out["world"], out["insts"] = world, insts
    return out


# --------------------------------------------------------------------------
# master programs (the same encoding the Lean driver parses)
# --------------------------------------------------------------------------

def op_str(op):
    if op[0] == "s":
        _, i, p, e, sl = op
        return f"s.{i}.{p}.{e}.{'x' if sl is None else sl}"
    if op[0] == "g":
        return f"g.{op[1]}"
    return "n"


def gen_program(rng, size):
    """mostly valid programs: submissions and collections in submission order, with
    explicit / out-of-range `slave=` arguments, interleavings, id re-use; sometimes an
    out-of-order collection, a duplicate id or an unknown id (error branches)."""
    k = rng.choice([1, 2, 3, 4, 5, 7, 9, 12])
    style = rng.choice(["batch", "batch", "next", "interleaved", "interleaved", "risky"])
    tag = [rng.randrange(0, 50)]

    def sub(i):
        tag[0] += rng.randrange(1, 4)
        sl = None
        x = rng.random()
        if x < 0.15:
            sl = rng.randrange(1, max(2, size))
        elif x < 0.25:
            sl = rng.choice([0, size, size + 3])
        return ("s", i, tag[0], rng.choice([1, 1, 1, 2, 3, 5]), sl)
    ops = []
    if style == "batch":
        ids = rng.sample(range(0, 3 * k), k) if rng.random() < 0.3 else list(range(k))
        ops = [sub(i) for i in ids] + [("g", i) for i in ids]
    elif style == "next":
        ops = [sub(i) for i in range(k)] + [("n",)] * (k + rng.choice([0, 1]))
    else:
        pending, nxt = [], 0
        for _ in range(3 * k):
            x = rng.random()
            if x < 0.5 or not pending:
                i = nxt if rng.random() < 0.8 or nxt == 0 else rng.randrange(nxt)
                if i in pending and style != "risky":
                    i = nxt
                if i == nxt:
                    nxt += 1
                ops.append(sub(i))
                if i not in pending:
                    pending.append(i)
            elif x < 0.8:
                ops.append(("g", pending.pop(0)))
            elif x < 0.9:
                ops.append(("n",))
                pending.pop(0)
            elif style == "risky":
                if rng.random() < 0.7:
                    i = rng.choice(pending)
                    pending.remove(i)
                    ops.append(("g", i))
                else:
                    ops.append(("g", nxt + 5))
            else:
                ops.append(("g", pending.pop(0)))
        ops += [("g", i) for i in pending]
    return ops


def classify(ex):
    if ex is None:
        return "none"
    if isinstance(ex, KeyError):
        return "keyError"
    msg = str(ex)
    if type(ex).__name__ == "MPIException":
        if "already in queue" in msg:
            return "alreadyQueued"
        if "called before" in msg:
            return "outOfOrder"
    return f"{type(ex).__name__}({msg[:80]})"


def tag_of(msg):
    """the job's tag in a call tuple `(name, args, kwargs, module, time_est)`"""
    return msg[1][0] if msg[1] else msg[2]["tag"]


def uniquify(ops):
    """give every submission a fresh id (what `id=None` does with random floats); collections
    refer to the latest submission under the old id, unknown ids stay unknown"""
    cur, n, res = {}, 0, []
    for o in ops:
        if o[0] == "s":
            cur[o[1]] = n
            res.append(("s", n) + tuple(o[2:]))
            n += 1
        elif o[0] == "g":
            res.append(("g", cur.get(o[1], 1000 + o[1])))
        else:
            res.append(o)
    return res


def run_program(size, ops, rng, policy, mode="mpi", auto=False, verbose=False, use_kwargs=False):
    """returns (request line for the driver, implementation answer, observations).
    `auto`: every `submit_call` is made with `id=None` (the library draws the id; `ops` must
    come from `uniquify`), `verbose`: `run(verbose=True)` on every rank, `use_kwargs`: the job's
    argument travels in `kwargs` instead of `args`."""
    got = []
    state = {"todo": len(ops)}
    real, back = {}, {}          # program id -> id used with the library and back

    def master_fn(m, world):
        for op in ops:
            world.yield_(0)
            try:
                if op[0] == "s":
                    _, i, p, e, sl = op
                    a, kw = ((), {"tag": p}) if use_kwargs else ((p,), {})
                    rid = m.submit_call("job", a, kw, module=JOBS_MODULE, time_est=e,
                                        id=None if auto else i, slave=sl)
                    real[i], back[rid] = rid, i
                elif op[0] == "g":
                    got.append((op[1], m.get_result(real.get(op[1], -7.5) if auto else op[1])))
                else:
                    i = back[m.queue[0]] if m.queue else None
                    v = m.get_next_result()
                    if i is not None:
                        got.append((i, v))
            except Exception:
                world.sched.append(0)      # the step that raises is a completed master step
                raise
            state["todo"] -= 1
            world.sched.append(0)

    out = run_world(size, rng, policy, master_fn, mode, verbose=verbose)
    w, m = out["world"], out["insts"][0]
    ranks = range(1, size)
    sent = [(d, tag_of(o)) for s, d, o in w.sends if s == 0 and o[0] != "terminate"]
    if size < 2 or mode == "noimport":
        sent = list(w.execs)                   # single-process mode: executed by rank 0 at submit
    dash = lambda xs: ",".join(xs) if xs else "-"   # noqa
    ans = (f"err={classify(out['exc'])} fin={1 if out['returned'].get(0) else 0} "
           f"got={dash([f'{i}:{v}' for i, v in got])} "
           f"sent={dash([f'{s}:{p}' for s, p in sent])} "
           f"exec={dash([f'{s}:{p}' for s, p in w.execs])} "
           f"nproc={dash([str(int(m.n_processed[r])) for r in ranks])} "
           f"snproc={dash([str(int(out['insts'][r].n_processed[r])) for r in ranks])} "
           f"est={dash([str(int(m.total_time_est[r])) for r in ranks])} "
           f"left={dash([str(back[i]) for i in m.queue])} "
           f"assigned={dash([f'{back[i]}:{int(s)}' for i, s in m.assigned.items()])} "
           f"alive={dash(['0' if out['returned'].get(r) else '1' for r in ranks])} "
           f"todo={state['todo']} skipped=0")
    # round 5: what is left in the channels and the termination measure of the final state,
    # computed from the world (not from the model): 2·(calls master() has not made) + size + 1
    # while the master is neither done nor has raised, + messages waiting master -> slave
    msize = 1 if mode == "noimport" else size
    inbox = [len(w.chan[(0, r)]) for r in ranks]
    outbox = [len(w.chan[(r, 0)]) for r in ranks]
    dead = bool(out["returned"].get(0)) or out["exc"] is not None
    measure = (0 if dead else 2 * state["todo"] + msize + 1) + sum(inbox)
    ans += (f" inbox={dash([str(x) for x in inbox])} outbox={dash([str(x) for x in outbox])} "
            f"steps={len(w.sched)} measure={measure} measure0={2 * len(ops) + msize + 1}")
    # round 5c: the exact number of steps an error-free run still has to make, from the world:
    # calls master() has not made + terminate() (+ with slaves: one serve() iteration per
    # submit_call not yet made and one per slave for the terminate tuple) + messages waiting
    nsub = sum(1 for o in ops if o[0] == "s")
    nsub_left = sum(1 for o in ops[len(ops) - state["todo"]:] if o[0] == "s")
    slaves = msize >= 2
    stepsleft = (0 if dead else state["todo"] + 1 + (nsub_left + msize - 1 if slaves else 0)) \
        + sum(inbox)
    exact = len(ops) + nsub + msize if slaves else len(ops) + 1
    ans += f" stepsleft={stepsleft} exact={exact}"
    out["stepsleft"], out["exact_steps"] = stepsleft, exact
    req = (f"proto {1 if mode == 'noimport' else size} {dash([op_str(o) for o in ops])} "
           f"{dash([str(c) for c in w.sched])}")
    return req, ans, out, got


def run_measure(call, size, rng, policy):
    """`call()` (a Network measure) as `master()` on rank 0 with `core.network.mpi` bound to
    the rank-0 instance of utils/mpi.py; ranks 1..size-1 run the real `run()` -> `serve()`.
    The master yields at every `comm.send`, so slaves work while submission goes on."""
    import pyunicorn.core.network as nw
    res = {}

    def master_fn(m, world):
        saved = nw.mpi
        nw.mpi = m
        try:
            res["value"] = call()
        finally:
            nw.mpi = saved
    out = run_world(size, rng, policy, master_fn, yield_on_send=True)
    return res.get("value"), out


class FakePoolContext:
    """stands in for multiprocessing.get_context("spawn"): Pool().map runs the batches
    in-process (in a shuffled order) and records them"""

    def __init__(self, rng, record):
        self.rng, self.record = rng, record

    def Pool(self, *a, **k):
        return self

    def __enter__(self):
        return self

    def __exit__(self, *a):
        return False

    def map(self, fn, batches):
        batches = list(batches)
        self.record.append([[int(t) for t in b] for b in batches])
        order = list(range(len(batches)))
        self.rng.shuffle(order)
        res = [None] * len(batches)
        for i in order:
            res[i] = fn(batches[i])
        return res

    def close(self):
        pass

    def join(self):
        pass
