"""C14 — visibility graphs realise the geometric visibility criterion.

proof  : lean/Pyunicorn/Properties/C14.lean (kernel loops = chord / horizontal
         criterion, missing samples, affine invariance, time reversal,
         retarded + advanced = degree, clustering counters; round 2: the matrix
         as state, the float32 kernel under order faithfulness, closeness and
         boundary-corrected measures under reversal, path lengths = least walks;
         round 3: betweenness-type measures under reversal, float kernel subgraph of the
         exact graph, order invariance of the horizontal graph, loop bounds from the source;
         round 4: rndF32 = binary32 round-to-nearest-even, monotone, scale-covariant; pathLen =
         breadth-first search of C03's model; horizontal graph of float64 callers' data;
         round 5: the float32 kernels and the constructor in FIELD arithmetic (classLogR) are
         invariant under power-of-two rescalings without underflow, small integer series are
         order-faithful, the compiled constructor = the exact constructor on the stored data)
tie    : exact correspondence of the Lean model (lean/Pyunicorn/Model/Visibility.lean)
         with the compiled kernels at the kernel boundary and with
         `VisibilityGraph` at the object level, on data whose float32 slope
         comparisons are *checked* to coincide with the rational ones
search : the geometric criterion decided division-free in `fractions.Fraction`
         for every pair and every intermediate sample; affine images and the
         time-reversed series on the implementation; degree / clustering
         identities counted by brute force
"""
import itertools
from fractions import Fraction as Fr

import numpy as np

from . import common

NAN = None          # a missing sample in the harness' exact representation


# --------------------------------------------------------------------------
# encoding
# --------------------------------------------------------------------------

def enc_fr(v):
    if v is None:
        return "nan"
    v = Fr(v)
    return str(v.numerator) if v.denominator == 1 else f"{v.numerator}/{v.denominator}"


def enc_vals(xs):
    return ",".join(enc_fr(v) for v in xs) or "-"


def enc_bools(bs):
    return ",".join("1" if b else "0" for b in bs) or "-"


def enc_mat(A):
    return ";".join(",".join(str(int(v)) for v in row) for row in A) or "-"


def f32(xs):
    """exact conversion to the FIELD (float32) array the kernels take"""
    a = np.array([np.nan if v is None else float(v) for v in xs], dtype=np.float32)
    for v, w in zip(xs, a):
        if v is not None and Fr(float(w)) != Fr(v):
            raise ValueError(f"{v} is not a float32")
    return a


def f64(xs):
    return np.array([np.nan if v is None else float(v) for v in xs], dtype=np.float64)


def canon_rat(v, maxden=5000):
    """canonical rational of a float64 quotient counter/norm (tolerance 1e-12)"""
    if not np.isfinite(v):
        return f"float:{float(v)!r}"
    fr = Fr(float(v)).limit_denominator(maxden)
    if abs(float(fr) - float(v)) > 1e-12 * max(1.0, abs(float(v))):
        return f"float:{float(v)!r}"
    return enc_fr(fr)


# --------------------------------------------------------------------------
# float32 exactness of the slope comparisons (checked, not argued)
# --------------------------------------------------------------------------

def f32_exact(x, t):
    """True iff for every left end i the float32 quotients
    (x[k]-x[i])/(t[k]-t[i]) are ordered exactly like the rational ones (NaN
    samples are skipped: every comparison with them is false on both sides)."""
    n = len(x)
    idx = [k for k in range(n) if x[k] is not None]
    if len(idx) < 3:
        return True
    xa, ta = f32(x), f32(t)
    for i in idx:
        ks = [k for k in idx if k != i and t[k] != t[i]]
        if len(ks) < 2:
            continue
        fr = [(x[k] - x[i]) / (t[k] - t[i]) for k in ks]
        with np.errstate(all="ignore"):
            fl = ((xa[ks] - xa[i]) / (ta[ks] - ta[i])).astype(np.float32)
        rank = {v: r for r, v in enumerate(sorted(set(fr)))}
        rk = np.array([rank[v] for v in fr], dtype=np.int64)
        s_fr = np.sign(rk[:, None] - rk[None, :])
        s_fl = np.sign(fl[:, None].astype(np.float64) - fl[None, :].astype(np.float64))
        if not np.array_equal(s_fr, s_fl):
            return False
    return True


# --------------------------------------------------------------------------
# the oracle: geometric criterion, division free, in Fraction
# --------------------------------------------------------------------------

def natural_visible(x, t, a, b):
    """a < b: both ends present and every intermediate sample present and
    strictly below the chord from (t[a], x[a]) to (t[b], x[b])"""
    if x[a] is None or x[b] is None:
        return False
    for k in range(a + 1, b):
        if x[k] is None:
            return False
        # x[k] < x[a] + (x[b]-x[a]) (t[k]-t[a]) / (t[b]-t[a]),   t[b] > t[a]
        if not (x[k] - x[a]) * (t[b] - t[a]) < (x[b] - x[a]) * (t[k] - t[a]):
            return False
    return True


def horizontal_visible(x, a, b):
    if x[a] is None or x[b] is None:
        return False
    for k in range(a + 1, b):
        if x[k] is None or not (x[k] < x[a] and x[k] < x[b]):
            return False
    return True


def expected_adjacency(x, t, horizontal):
    n = len(x)
    A = np.zeros((n, n), dtype=int)
    for a in range(n):
        for b in range(a + 1, n):
            v = horizontal_visible(x, a, b) if horizontal else natural_visible(x, t, a, b)
            A[a, b] = A[b, a] = int(v)
    return A


def brute_clustering(A, i, side):
    """linked pairs among the neighbours of i in its past / future, divided by
    the number of such pairs"""
    n = len(A)
    nb = [j for j in (range(i) if side == "ret" else range(i + 1, n)) if A[i][j]]
    d = len(nb)
    if d < 2:
        return Fr(0)
    c = sum(1 for p, q in itertools.combinations(nb, 2) if A[p][q])
    return Fr(c, d * (d - 1) // 2)


# --------------------------------------------------------------------------
# calling the implementation
# --------------------------------------------------------------------------

def exc_name(e):
    return "raise:" + type(e).__name__


def call_kernel(K, kind, x, t, N, mv=None):
    A = np.zeros((N, N), dtype=np.int8)
    try:
        if kind == "nvg_mv":
            K._visibility_relations_missingvalues(f32(x), f32(t), N, A, np.array(mv, dtype=bool))
        elif kind == "nvg":
            K._visibility_relations_no_missingvalues(f32(x), f32(t), N, A)
        else:
            K._visibility_relations_horizontal(f32(x), N, A)
    except (ZeroDivisionError, IndexError) as e:
        return exc_name(e)
    return enc_mat(A)


FORMS = ("f64", "f32", "strided", "negstride", "int", "held", "x64_t32", "x32_tint")
# round 3: the timings in a form of their own (float32 timings under float64 values, int64 timings
# under float32 values); plain Python lists are not accepted by to_cy (the docstring asks for arrays)


def as_caller_array(v, form):
    """the caller's array in one of the forms the constructor has to cope with:
    float64 / float32, non-contiguous (stride 2, negative stride) views, an integer
    array (NaN-free integer data only; else float64)"""
    if form == "f32":
        return f32(v)
    a = f64(v)
    if form == "strided":
        b = np.full(2 * len(a) + 1, 7.5)
        b[::2][:len(a)] = a
        return b[::2][:len(a)]
    if form == "negstride":
        return np.ascontiguousarray(a[::-1])[::-1]
    if form == "int" and all(w is not None and Fr(w).denominator == 1 for w in v):
        return np.array([int(w) for w in v], dtype=np.int64)
    return a


def make_vg(VG, x, t, missing, horizontal, form="f64", silence_level=3):
    if form == "held":
        # arrays already held by the library: the FIELD arrays stored by another object
        first = VG(f64(x), timings=None if t is None else f64(t), missing_values=missing,
                   horizontal=not horizontal, silence_level=3)
        return VG(first.time_series, timings=None if t is None else first.timings,
                  missing_values=missing, horizontal=horizontal, silence_level=silence_level)
    xform, tform = {"x64_t32": ("f64", "f32"), "x32_tint": ("f32", "int")}.get(form, (form, form))
    return VG(as_caller_array(x, xform), timings=None if t is None else as_caller_array(t, tform),
              missing_values=missing, horizontal=horizontal, silence_level=silence_level)


def canon_orat(v, maxden=10 ** 6):
    return "nan" if np.isnan(v) else canon_rat(v, maxden)


def path_observables(vg):
    """closeness and boundary-corrected measures in the driver's format (NaN = mean over
    an empty past / future)"""
    import warnings
    with warnings.catch_warnings(), np.errstate(all="ignore"):
        warnings.simplefilter("ignore")
        rcl = [canon_orat(v) for v in vg.retarded_closeness()]
        acl = [canon_orat(v) for v in vg.advanced_closeness()]
        bcd = [canon_rat(v, 10 ** 6) for v in vg.boundary_corrected_degree()]
        bcc = [canon_orat(v) for v in vg.boundary_corrected_closeness()]
    return rcl, acl, bcd, bcc


def betw_observables(vg):
    """retarded / advanced / trans betweenness as canonical rationals"""
    import warnings
    with warnings.catch_warnings(), np.errstate(all="ignore"):
        warnings.simplefilter("ignore")
        return [",".join(canon_rat(v, 10 ** 7) for v in getattr(vg, m)()) or "-"
                for m in ("retarded_betweenness", "advanced_betweenness", "trans_betweenness")]


def betw_definition(A, i, src, tgt):
    """definition, independent of the model and of the kernel: over ordered (target, source)
    pairs the fraction of shortest paths that pass through i; the shortest paths are enumerated
    one by one (i is neither a source nor a target)"""
    n = len(A)
    INF = 10 ** 9
    d = [[0 if a == b else (1 if A[a][b] else INF) for b in range(n)] for a in range(n)]
    for k in range(n):
        for a in range(n):
            for b in range(n):
                if d[a][k] + d[k][b] < d[a][b]:
                    d[a][b] = d[a][k] + d[k][b]

    def paths(a, b):
        if a == b:
            yield (a,)
            return
        for c in range(n):
            if A[a][c] and d[c][b] == d[a][b] - 1:
                for rest in paths(c, b):
                    yield (a,) + rest
    tot = Fr(0)
    for tg in tgt:
        for s in src:
            if s == tg or s == i or tg == i or d[tg][s] >= INF:
                continue
            ps = list(paths(tg, s))
            tot += Fr(sum(1 for p in ps if i in p), len(ps))
    return tot


def class_answer(VG, x, t, missing, horizontal, paths=False, form="f64", vg=None):
    """the object-level observables in the driver's format, plus the raw pieces"""
    try:
        if vg is None:
            vg = make_vg(VG, x, t, missing, horizontal, form)
    except (ZeroDivisionError, IndexError) as e:
        return exc_name(e), None
    A = np.array(vg.adjacency)
    ret = [int(round(v)) for v in vg.retarded_degree()]
    adv = [int(round(v)) for v in vg.advanced_degree()]
    deg = [int(v) for v in vg.degree()]
    rc = [canon_rat(v) for v in vg.retarded_local_clustering()]
    ac = [canon_rat(v) for v in vg.advanced_local_clustering()]
    parts = [enc_mat(A), ",".join(map(str, ret)), ",".join(map(str, adv)),
             ",".join(map(str, deg)), ",".join(rc), ",".join(ac)]
    obs = {"A": A, "ret": ret, "adv": adv, "deg": deg, "rc": rc, "ac": ac, "vg": vg}
    if paths:
        rcl, acl, bcd, bcc = path_observables(vg)
        parts += [",".join(rcl), ",".join(acl), ",".join(bcd), ",".join(bcc)]
        obs.update({"rcl": rcl, "acl": acl, "bcd": bcd, "bcc": bcc})
    return "|".join(parts), obs


# --------------------------------------------------------------------------
# oracle on one (series, timings, flags)
# --------------------------------------------------------------------------

def sig(missing, horizontal, clause, has_nan=False, **kw):
    d = {"class": "VisibilityGraph", "missing_values": bool(missing),
         "horizontal": bool(horizontal), "clause": clause,
         "nan_in_series": bool(has_nan)}
    d.update(kw)
    return d


def bfs_closeness(A, i, side):
    """definition: inverse of the mean shortest-path length from i to the nodes in its
    past / future (NaN if there are none, 0 if one of them is unreachable)"""
    n = len(A)
    dist = {i: 0}
    front = [i]
    while front:
        nxt = []
        for u in front:
            for v in range(n):
                if A[u][v] and v not in dist:
                    dist[v] = dist[u] + 1
                    nxt.append(v)
        front = nxt
    nodes = range(i) if side == "ret" else range(i + 1, n)
    if len(nodes) == 0:
        return "nan"
    if any(v not in dist for v in nodes):
        return "0"
    return enc_fr(Fr(len(nodes), sum(dist[v] for v in nodes)))


def oracle_case(VG, x, t, missing, horizontal, transforms=True, paths=True, form="f64"):
    """All violations of the property statement visible on this input.
    Returns a list of (signature, what, details)."""
    out = []
    n = len(x)
    tt = t if t is not None else [Fr(i) for i in range(n)]
    has_nan = any(v is None for v in x)
    close = 2 <= n <= 12
    ans, obs = class_answer(VG, x, t, missing, horizontal, paths=close, form=form)
    if obs is not None and paths and 2 <= n <= 8:
        obs["betw"] = betw_observables(obs["vg"])
    if obs is None:
        out.append((sig(missing, horizontal, "raises", has_nan, error=ans),
                    f"constructor {ans} on increasing exact timings", {"observed": ans}))
        return out
    A = obs["A"]
    E = expected_adjacency(x, tt, horizontal)
    if not np.array_equal(A, E):
        bad = [(int(a), int(b)) for a, b in zip(*np.nonzero(A != E)) if a < b]
        groups = {}
        for a, b in bad:
            nan_end = x[a] is None or x[b] is None
            if nan_end and A[a, b] == 1:
                key = ("nan-endpoint-linked", b == a + 1)
            elif A[a, b] == 1:
                key = ("linked-not-visible", b == a + 1)
            else:
                key = ("visible-not-linked", b == a + 1)
            groups.setdefault(key, []).append((a, b))
        for (clause, adjacent), prs in sorted(groups.items()):
            out.append((sig(missing, horizontal, clause, has_nan, adjacent=adjacent),
                        f"{'horizontal' if horizontal else 'natural'} graph (missing_values="
                        f"{missing}): pairs {prs[:4]} {clause} against the exact criterion",
                        {"pairs": prs[:10], "expected": enc_mat(E), "observed": enc_mat(A)}))
    # structure of the matrix
    if not np.array_equal(A, A.T) or np.trace(A) != 0:
        out.append((sig(missing, horizontal, "symmetric-loopfree", has_nan),
                    "adjacency not symmetric with zero diagonal", {"observed": enc_mat(A)}))
    # retarded + advanced = degree; each is the count of past / future neighbours
    for i in range(n):
        r = int(A[i, :i].sum())
        a = int(A[i, i + 1:].sum())
        if obs["ret"][i] != r or obs["adv"][i] != a or obs["deg"][i] != r + a or \
                obs["ret"][i] + obs["adv"][i] != obs["deg"][i]:
            out.append((sig(missing, horizontal, "degrees", has_nan),
                        f"node {i}: retarded {obs['ret'][i]} advanced {obs['adv'][i]} degree "
                        f"{obs['deg'][i]}; past/future neighbours {r}/{a}",
                        {"node": i, "observed": [obs["ret"], obs["adv"], obs["deg"]]}))
            break
    for i in range(n):
        er, ea = brute_clustering(A, i, "ret"), brute_clustering(A, i, "adv")
        if obs["rc"][i] != enc_fr(er) or obs["ac"][i] != enc_fr(ea):
            out.append((sig(missing, horizontal, "clustering", has_nan),
                        f"node {i}: retarded/advanced clustering {obs['rc'][i]}/{obs['ac'][i]}, "
                        f"linked pairs among past/future neighbours give {er}/{ea}",
                        {"node": i, "observed": [obs["rc"], obs["ac"]]}))
            break
    # the public wrappers read the same matrix
    vg = obs["vg"]
    if n <= 8:
        for a in range(n):
            row = np.asarray(vg.visibility_single(a))
            if not np.array_equal(row, A[a, :]) or \
                    any(int(vg.visibility(a, b)) != int(A[a, b]) for b in range(n)):
                out.append((sig(missing, horizontal, "wrappers", has_nan),
                            f"visibility()/visibility_single() of node {a} differ from the adjacency",
                            {"node": a, "observed": enc_mat(A)}))
                break
    # closeness: inverse mean shortest-path length to the past / future (definition, BFS);
    # boundary-corrected degree from its definition
    if close:
        Al = A.tolist()
        er = [bfs_closeness(Al, i, "ret") for i in range(n)]
        ea = [bfs_closeness(Al, i, "adv") for i in range(n)]
        eb = [enc_fr(Fr(int(A[i, :i].sum()) * i + int(A[i, i + 1:].sum()) * (n - 1 - i), n - 1))
              for i in range(n)]
        if obs["rcl"] != er or obs["acl"] != ea or obs["bcd"] != eb:
            out.append((sig(missing, horizontal, "closeness", has_nan),
                        f"retarded/advanced closeness {obs['rcl']}/{obs['acl']}, boundary-corrected "
                        f"degree {obs['bcd']}; by definition {er}/{ea}, {eb}",
                        {"observed": [obs["rcl"], obs["acl"], obs["bcd"]]}))
    # betweenness-type measures from their definition (shortest paths enumerated)
    if "betw" in obs:
        Al = A.tolist()
        eb = [",".join(enc_fr(betw_definition(Al, i, sr(i), tg(i))) for i in range(n))
              for sr, tg in ((lambda i: range(i), lambda i: range(i)),
                             (lambda i: range(i + 1, n), lambda i: range(i + 1, n)),
                             (lambda i: range(i), lambda i: range(i + 1, n)))]
        if obs["betw"] != eb:
            out.append((sig(missing, horizontal, "betweenness", has_nan),
                        f"retarded/advanced/trans betweenness {obs['betw']}; shortest paths counted "
                        f"one by one give {eb}", {"observed": obs["betw"], "expected": eb}))
    if not transforms:
        return out
    # positive affine maps of values and times
    # (incl. extreme power-of-two rescalings: exact in float32, slopes scale by 2^-22 .. 2^22 —
    # an absolute tolerance anywhere in the slope comparison would show here)
    for (a, b, c, d) in ((2, 3, 1, 0), (Fr(1, 2), -1, 2, 5), (1, 0, Fr(1, 2), -3),
                         (Fr(1, 2 ** 22), 0, 1, 0), (1, 0, 2 ** 22, 0),
                         (Fr(1, 2 ** 10), 0, 2 ** 12, 0), (2 ** 20, 0, Fr(1, 2 ** 4), 0)):
        x2 = [None if v is None else a * v + b for v in x]
        t2 = [c * v + d for v in tt]
        if t is None and (c, d) == (1, 0):
            t2 = None
        try:
            f32(x2)
            if t2 is not None:
                f32(t2)
            ok = f32_exact(x2, t2 if t2 is not None else tt)
        except ValueError:
            ok = False
        if not ok:
            continue
        _, o2 = class_answer(VG, x2, t2, missing, horizontal, form=form if form != "int" else "f64")
        if o2 is None or not np.array_equal(o2["A"], A):
            out.append((sig(missing, horizontal, "affine", has_nan),
                        f"graph changes under x -> {a}x+{b}, t -> {c}t+{d}",
                        {"map": [str(a), str(b), str(c), str(d)], "observed": enc_mat(A),
                         "observed_image": None if o2 is None else enc_mat(o2["A"])}))
    # time reversal mirrors the graph and exchanges retarded and advanced measures
    T = tt[0] + tt[-1] if n else Fr(0)
    xr = list(reversed(x))
    tr = [T - v for v in reversed(tt)]
    if f32_exact(xr, tr):
        _, orv = class_answer(VG, xr, tr, missing, horizontal, paths=close, form=form)
        if orv is None or not np.array_equal(orv["A"], A[::-1, ::-1]):
            out.append((sig(missing, horizontal, "reversal", has_nan),
                        "graph of the time-reversed series is not the mirrored graph",
                        {"observed": enc_mat(A),
                         "observed_reversed": None if orv is None else enc_mat(orv["A"])}))
        elif orv["ret"] != obs["adv"][::-1] or orv["adv"] != obs["ret"][::-1] or \
                orv["rc"] != obs["ac"][::-1] or orv["ac"] != obs["rc"][::-1]:
            out.append((sig(missing, horizontal, "reversal-measures", has_nan),
                        "time reversal does not exchange retarded and advanced measures",
                        {"forward": [obs["ret"], obs["adv"], obs["rc"], obs["ac"]],
                         "reversed": [orv["ret"], orv["adv"], orv["rc"], orv["ac"]]}))
        elif close and (orv["rcl"] != obs["acl"][::-1] or orv["acl"] != obs["rcl"][::-1] or
                        orv["bcd"] != obs["bcd"][::-1] or orv["bcc"] != obs["bcc"][::-1]):
            out.append((sig(missing, horizontal, "reversal-path-measures", has_nan,
                            measure="closeness/boundary-corrected"),
                        "time reversal does not exchange retarded and advanced closeness / mirror "
                        "the boundary-corrected measures",
                        {"forward": [obs["rcl"], obs["acl"], obs["bcd"], obs["bcc"]],
                         "reversed": [orv["rcl"], orv["acl"], orv["bcd"], orv["bcc"]]}))
        elif "betw" in obs and (lambda b2: b2[0].split(",") != obs["betw"][1].split(",")[::-1] or
                                b2[1].split(",") != obs["betw"][0].split(",")[::-1] or
                                b2[2].split(",") != obs["betw"][2].split(",")[::-1])(
                                    betw_observables(orv["vg"])):
            out.append((sig(missing, horizontal, "reversal-path-measures", has_nan,
                            measure="betweenness"),
                        "time reversal does not exchange retarded and advanced betweenness / mirror "
                        "trans_betweenness",
                        {"forward": obs["betw"], "reversed": betw_observables(orv["vg"])}))
        elif paths and 3 <= n <= 7:
            # path-based time-directed measures (implementation only, tolerance 1e-9;
            # NaN = mean over an empty past/future, on both sides)
            bad = path_measures_exchanged(VG, x, t, xr, tr, missing, horizontal)
            if bad:
                out.append((sig(missing, horizontal, "reversal-path-measures", has_nan, measure=bad[0]),
                            f"time reversal does not exchange {bad[0]}",
                            {"forward": bad[1], "reversed": bad[2]}))
    return out


def path_measures_exchanged(VG, x, t, xr, tr, missing, horizontal):
    """retarded/advanced closeness and betweenness, trans_betweenness of the
    reversed series against the mirrored forward ones; None if exchanged (or
    if the measures cannot be evaluated)"""
    import warnings
    try:
        with warnings.catch_warnings(), np.errstate(all="ignore"):
            warnings.simplefilter("ignore")
            f = make_vg(VG, x, t, missing, horizontal)
            r = make_vg(VG, xr, tr, missing, horizontal)
            pairs = [("retarded_closeness", "advanced_closeness"),
                     ("advanced_closeness", "retarded_closeness"),
                     ("retarded_betweenness", "advanced_betweenness"),
                     ("advanced_betweenness", "retarded_betweenness"),
                     ("trans_betweenness", "trans_betweenness")]
            for a, b in pairs:
                fv = np.asarray(getattr(f, b)(), dtype=float)[::-1]
                rv = np.asarray(getattr(r, a)(), dtype=float)
                if not np.allclose(rv, fv, rtol=1e-9, atol=1e-12, equal_nan=True):
                    return (f"{a}/{b}", fv[::-1].tolist(), rv.tolist())
    except Exception:  # noqa  (Network-level failures are other properties' business)
        return None
    return None


def report(ctx, VG, x, t, missing, horizontal, viol, form="f64"):
    """shrink (drop samples while the same signature still fails) and report"""
    for s, what, det in viol:
        idx = list(range(len(x)))

        def still(ix):
            if len(ix) < 2:
                return False
            xs = [x[i] for i in ix]
            ts = None if t is None else [t[i] for i in ix]
            try:
                return any(s2 == s for s2, _, _ in
                           oracle_case(VG, xs, ts, missing, horizontal, form=form))
            except Exception:  # noqa
                return False
        is_known = any(all(s.get(k) == v for k, v in f["signature"].items())
                       for f in ctx.findings)
        if not is_known and len(x) <= 16:
            idx = common.shrink_list(idx, still, min_len=2)
        xs = [x[i] for i in idx]
        ts = None if t is None else [t[i] for i in idx]
        if len(idx) < len(x):
            again = [v for v in oracle_case(VG, xs, ts, missing, horizontal, form=form)
                     if v[0] == s]
            if again:
                what, det = again[0][1], again[0][2]
        ctx.fail(s, what, {"time_series": [enc_fr(v) for v in xs],
                           "timings": None if ts is None else [enc_fr(v) for v in ts],
                           "missing_values": missing, "horizontal": horizontal,
                           "caller_array": form, **det})


# --------------------------------------------------------------------------
# generators (all exact: integers and dyadic rationals)
# --------------------------------------------------------------------------

def gen_timings(rng, n, kind):
    if kind == "default" or n == 0:
        return None
    steps = {"unit2": [2], "half": [Fr(1, 2), 1, Fr(3, 2)], "mixed": [Fr(1, 2), 1, 2, 3],
             "quarter": [Fr(1, 4), Fr(1, 2), 1]}[kind]
    t0 = rng.choice([0, 1, -3, Fr(1, 2)])
    ts = [Fr(t0)]
    for _ in range(n - 1):
        ts.append(ts[-1] + rng.choice(steps))
    return ts


def gen_values(rng, n, kind, t):
    tt = t if t is not None else [Fr(i) for i in range(n)]
    if kind == "ints":
        return [Fr(rng.randint(-8, 8)) for _ in range(n)]
    if kind == "small":
        return [Fr(rng.randint(0, 3)) for _ in range(n)]
    if kind == "plateau":
        out, v = [], Fr(rng.randint(0, 4))
        while len(out) < n:
            out += [v] * rng.randint(1, 5)
            v = Fr(rng.randint(0, 4))
        return out[:n]
    if kind == "monotone":
        out, v, s = [], Fr(rng.randint(-4, 4)), rng.choice([-1, 1])
        while len(out) < n:
            for _ in range(rng.randint(2, 6)):
                out.append(v)
                v += s * rng.choice([0, 1, 1, 2])
            s = -s
        return [max(Fr(-32), min(Fr(32), w)) for w in out[:n]]
    if kind == "collinear":
        # piecewise linear in t with dyadic slopes: many collinear triples
        out, k = [], 0
        v = Fr(rng.randint(-4, 4))
        while k < n:
            sl = rng.choice([Fr(-1), Fr(-1, 2), Fr(0), Fr(1, 2), Fr(1), Fr(2)])
            for _ in range(rng.randint(2, 6)):
                if k >= n:
                    break
                if k > 0:
                    v = out[-1] + sl * (tt[k] - tt[k - 1])
                out.append(v)
                k += 1
        return out
    if kind == "convex":
        s = rng.choice([-1, 1])
        m = tt[n // 2] if n else 0
        return [s * (v - m) * (v - m) / 4 for v in tt]
    if kind == "dyadic":
        return [Fr(rng.randint(-32, 32), 4) for _ in range(n)]
    if kind == "spikes":
        return [Fr(rng.choice([0, 0, 0, 1, 8, -8])) for _ in range(n)]
    raise KeyError(kind)


VKINDS = ["ints", "small", "plateau", "monotone", "collinear", "convex", "dyadic", "spikes"]
TKINDS = ["default", "default", "unit2", "half", "mixed", "quarter"]


def with_nans(rng, x, p):
    return [None if rng.random() < p else v for v in x]


def usable(x, t, big=False):
    """values/timings are float32 numbers, small (unless `big`: extreme power-of-two
    rescalings), and the float32 slope order is exact"""
    n = len(x)
    tt = t if t is not None else [Fr(i) for i in range(n)]
    try:
        f32(x)
        f32(tt)
    except ValueError:
        return False
    if not big and any(v is not None and abs(v) > 4096 for v in x):
        return False
    return f32_exact(x, tt)


# --------------------------------------------------------------------------
# round 3: query-order histories on one object, hubs
# --------------------------------------------------------------------------

def enc_dist(D):
    """path_lengths() in the driver's format (`inf` = unreachable)"""
    return ";".join(",".join("inf" if np.isinf(v) else str(int(round(v))) for v in row)
                    for row in D) or "-"


def floyd_warshall(A):
    """all-pairs least numbers of links of the observed adjacency (independent of the model)"""
    n = len(A)
    INF = float("inf")
    d = [[0 if a == b else (1 if A[a][b] else INF) for b in range(n)] for a in range(n)]
    for k in range(n):
        for a in range(n):
            for b in range(n):
                if d[a][k] + d[k][b] < d[a][b]:
                    d[a][b] = d[a][k] + d[k][b]
    return np.array(d, dtype=float).reshape(n, n)


def rnd32_pool(rng, count):
    """rationals that are float64 numbers, aimed at the decisions of binary32 rounding: generic
    doubles over the whole exponent range, exact ties between neighbouring binary32 numbers (even
    and odd significands), the last binary32 step below a power of two (the rounding crosses an
    exponent boundary), the subnormal grid 2^-149 and the normal / subnormal boundary"""
    out = []
    two = Fr(2)
    for _ in range(count):
        kind = rng.choice(["double", "tie", "near-tie", "boundary", "subnormal", "small-int"])
        sgn = rng.choice([1, -1])
        if kind == "double":
            v = Fr(rng.getrandbits(52) | (1 << 52)) * two ** rng.randint(-205, 70)
        elif kind == "tie":
            m = rng.randrange(2 ** 23, 2 ** 24)
            v = Fr(2 * m + 1) * two ** (rng.randint(-149, 100) - 1)
        elif kind == "near-tie":
            m = rng.randrange(2 ** 23, 2 ** 24)
            v = (Fr(2 * m + 1) + rng.choice([1, -1]) * two ** -rng.randint(3, 27)) \
                * two ** (rng.randint(-140, 100) - 1)
        elif kind == "boundary":
            k = rng.randint(-130, 100)
            v = two ** k * (1 + rng.choice([-1, 1]) * two ** -rng.randint(22, 27)
                            + rng.choice([0, 0, 1, -1]) * two ** -rng.randint(30, 50))
        elif kind == "subnormal":
            v = (Fr(rng.choice([0, 1, 2, 3, 5, 2 ** 22, 2 ** 23 - 1, 2 ** 23]))
                 + Fr(rng.choice([0, 1, 2, 3]), 4) + rng.choice([0, 0, 1, -1]) * two ** -30) * two ** -149
        else:
            v = Fr(rng.randint(0, 2 ** 25))
        if v != 0 and Fr(float(v)) == v:
            out.append((kind, sgn * v))
    return out


OWN_METHODS = ["visibility_relations", "visibility_relations_horizontal", "visibility",
               "visibility_single", "retarded_degree", "advanced_degree",
               "retarded_local_clustering", "advanced_local_clustering", "retarded_closeness",
               "advanced_closeness", "retarded_betweenness", "advanced_betweenness",
               "trans_betweenness", "boundary_corrected_degree", "boundary_corrected_closeness",
               "degree"]


def call_method(vg, m):
    import warnings
    with warnings.catch_warnings(), np.errstate(all="ignore"):
        warnings.simplefilter("ignore")
        if m == "visibility":
            r = [vg.visibility(0, b) for b in range(vg.N)]
        elif m == "visibility_single":
            r = vg.visibility_single(vg.N - 1)
        else:
            r = getattr(vg, m)()
        return np.array(r, dtype=float)      # a copy: the harness never writes into a result


def query_order_histories(ctx, VG, rng, ocases, quick):
    """every ordered pair (m1, m2) of the class's own methods on ONE object: the answer of m2
    after m1 must be the answer of m2 on a fresh twin (cached or shared arrays edited in place
    by one method show up in the next); then all methods once more in a random order"""
    cand = [c for c in ocases if 5 <= len(c[0]) <= 9 and len(set(c[0])) > 2]
    picked = []
    for want in ((False, False), (True, False), (True, True), (False, True)):
        cs = [c for c in cand if (c[2], c[3]) == want and
              (any(v is None for v in c[0]) == want[0])]
        picked += rng.sample(cs, min(len(cs), 1 if quick else 3))
    for xx, t, missing, hor, form in picked:
        try:
            ref = {m: call_method(make_vg(VG, xx, t, missing, hor, form), m) for m in OWN_METHODS}
        except (ZeroDivisionError, IndexError):
            continue
        bad = None
        for m1 in OWN_METHODS:
            for m2 in OWN_METHODS:
                vg = make_vg(VG, xx, t, missing, hor, form)
                call_method(vg, m1)
                r2 = call_method(vg, m2)
                ctx.count("history:ordered-pairs")
                if not np.array_equal(r2, ref[m2], equal_nan=True):
                    bad = bad or (f"{m2}() after {m1}()", ref[m2], r2)
        vg = make_vg(VG, xx, t, missing, hor, form)
        for rep in range(2):
            order = list(OWN_METHODS)
            rng.shuffle(order)
            for m in order:
                r = call_method(vg, m)
                ctx.count("history:long-sequence-queries")
                if not np.array_equal(r, ref[m], equal_nan=True):
                    bad = bad or (f"{m}() in the sequence {order} (pass {rep + 1})", ref[m], r)
        ctx.case(("history", tuple(xx), None if t is None else tuple(t), missing, hor), True)
        if bad:
            ctx.fail(sig(missing, hor, "history", any(v is None for v in xx)),
                     f"{bad[0]} differs from the answer of a fresh object",
                     {"time_series": [enc_fr(v) for v in xx],
                      "timings": None if t is None else [enc_fr(v) for v in t],
                      "missing_values": missing, "horizontal": hor, "caller_array": form,
                      "fresh": bad[1].tolist(), "observed": bad[2].tolist()})


def hub_cases(ctx, VG, rng, quick):
    """hubs and sizes where small integer types wrap (degree > 127, > 255): the convex series
    k^2 (every pair sees each other: complete graph, exact in float32), and a random integer
    series of a few hundred samples against the criterion evaluated in integer arithmetic"""
    for n in ((130, 260) if quick else (130, 260, 300, 520)):
        x = [Fr(k * k) for k in range(n)]
        for missing, hor in ((False, False), (True, False)):
            vg = make_vg(VG, x, None, missing, hor)
            A = np.array(vg.adjacency)
            ctx.count("hub:convex-complete-graph")
            ctx.case(("hub", n, missing, hor), True)
            ok = np.array_equal(A, 1 - np.eye(n, dtype=A.dtype))
            rd, ad, dg = vg.retarded_degree(), vg.advanced_degree(), vg.degree()
            ok2 = np.array_equal(rd, np.arange(n)) and np.array_equal(ad, n - 1 - np.arange(n)) \
                and np.array_equal(dg, np.full(n, n - 1))
            rc, ac = vg.retarded_local_clustering(), vg.advanced_local_clustering()
            ok3 = np.array_equal(rc, (np.arange(n) >= 2).astype(float)) and \
                np.array_equal(ac, (np.arange(n) <= n - 3).astype(float))
            if not (ok and ok2 and ok3):
                ctx.fail(sig(missing, hor, "hub", False, n=n),
                         f"convex series k^2, {n} samples: "
                         + ("graph is not complete" if not ok else
                            "directional degrees are not i / N-1-i / N-1" if not ok2 else
                            "directional clustering is not 1"),
                         {"n": n, "series": "k*k", "missing_values": missing, "horizontal": hor,
                          "row_sums": A.sum(axis=1).tolist()[:8],
                          "retarded_degree": rd.tolist()[:8], "advanced_degree": ad.tolist()[-8:],
                          "retarded_clustering": rc.tolist()[:8]})
    for rep in range(1 if quick else 4):
        n = rng.choice([150, 200, 280])
        xi = np.array([rng.randint(0, 12) for _ in range(n)], dtype=np.int64)
        hub = rng.randrange(n)
        xi[hub] = 4000          # one sample towers over the rest
        ti = np.arange(n, dtype=np.int64)
        if not f32_exact([Fr(int(v)) for v in xi], [Fr(int(v)) for v in ti]):
            ctx.count("generator:rejected-not-float32-exact")
            continue
        for hor in (False, True):
            vg = VG(xi.astype(np.float64), silence_level=3, horizontal=hor)
            A = np.array(vg.adjacency)
            E = np.zeros((n, n), dtype=A.dtype)
            for a in range(n):
                for b in range(a + 1, n):
                    ks = slice(a + 1, b)
                    if hor:
                        v = bool(np.all(xi[ks] < min(xi[a], xi[b])))
                    else:
                        v = bool(np.all((xi[ks] - xi[a]) * (ti[b] - ti[a]) <
                                        (xi[b] - xi[a]) * (ti[ks] - ti[a])))
                    E[a, b] = E[b, a] = int(v)
            ctx.count("hub:random-integer-series-with-tower")
            ctx.case(("tower", n, hor, xi.tobytes().hex()), True)
            d = vg.retarded_degree() + vg.advanced_degree()
            if not np.array_equal(A, E) or not np.array_equal(d, vg.degree()) or \
                    not np.array_equal(d, E.sum(axis=1)):
                bad = [(int(a), int(b)) for a, b in zip(*np.nonzero(A != E)) if a < b][:5]
                ctx.fail(sig(False, hor, "hub", False, n=n),
                         f"{n} integer samples with a tower at {hub}: adjacency / degrees differ from "
                         f"the criterion in integer arithmetic (pairs {bad}, max degree {int(E.sum(axis=1).max())})",
                         {"x": xi.tolist(), "horizontal": hor, "pairs": bad,
                          "retarded_plus_advanced": d.tolist()[:10]})


def run(ctx):
    from pyunicorn.timeseries._ext import numerics as K
    from pyunicorn.timeseries import VisibilityGraph as VG
    rng = ctx.rng
    quick = ctx.tier == "quick"
    import time
    t_phase = [time.time()]

    def phase(name):
        now = time.time()
        ctx.extra.setdefault("phase_seconds", {})[name] = round(now - t_phase[0], 1)
        t_phase[0] = now
    ctx.rule = ("kernel level: the three visibility kernels on all series over {0..3}^n "
                f"(n <= {5 if quick else 7}, sampled beyond) with all / random masks, random structured "
                "exact series (plateaus, monotone runs, collinear segments, parabolas, spikes, "
                "dyadic values; uniform and non-uniform dyadic timings), masks independent of NaN, "
                "N smaller / larger than the arrays, tied and decreasing timings (error branch); "
                "extreme power-of-two rescalings, degenerate (constant / alternating / spike / all-missing) "
                "series; the float32 model on these and on generic float32 data (near ties, 2^±60 "
                "dynamic range, NaN); object level: VisibilityGraph adjacency, retarded/advanced degree, "
                "clustering, closeness, boundary-corrected degree/closeness for caller arrays in float64 / "
                "float32 / int64 / strided / negative-stride form and arrays held by another object, "
                "multi-step histories on one object, wrappers, silence_level=0; round 3: betweenness-type measures "
                "(N <= 8), every ordered pair of the 16 own methods on one object, hubs of 130..520 samples, NaN at the "
                "ends, timings in another float width / integer type than the values, nearly collinear data with exact "
                "differences (float links subset of exact links), generic float64 data for the horizontal graph; "
                "round 4: rndF32 against the machine's binary32 conversion / subtraction / division (ties, exponent "
                "boundaries, subnormals), path_lengths() matrices (N <= 14, connected and disconnected); "
                "round 5: both natural kernels on series rescaled by 2^a, 2^c up to the edges of the binary32 range "
                "(small integer series up to |x| = 2^22/n incl. steep nearly collinear ramps, dyadic, generic and "
                "nearly collinear float32 data, scalings into the subnormal range), VisibilityGraph on float64 callers' "
                "series and timings that are not binary32 numbers (doubles over 2^+-30, thirds, ramps, ties, NaN; all "
                "flag combinations) and the same objects in other power-of-two units; "
                "distinct = distinct (request); non-trivial = at least 3 samples, not all equal")
    ctx.trusted = common.DEFAULT_TRUSTED + [
        "float32: kernelNR rndF32 (differences and quotient rounded to binary32, RNE, no overflow) is "
        "compared exactly with the compiled natural kernels on generic float32 data; theorem "
        "nvg_float32_eq_exact reduces it to the exact model under `Faithful`, which the Lean driver "
        "decides for the series of the exact correspondence (f32_exact selects them independently)",
        "Network.path_lengths: igraph's C implementation of distances() is third-party code; its model is the "
        "breadth-first search Net.dist of property C03, proved equal to the specification pathLen (pathLen_is_bfs, "
        "path_lengths_are_least_walk_lengths) and compared with path_lengths() of the objects",
        "retarded/advanced/trans betweenness: modelled by property C03's model of the kernel _nsi_betweenness; the "
        "kernel model == published count over enumerated shortest paths (NetBetw.interregionalCount) is proved for every "
        "symmetric matrix (betweenness_kernel_eq_count, visibility_betweenness_kernel_eq_count; C03's kernel proof "
        "nsiBetweenness_eq_def_full with its three hypotheses discharged); the walk-count writing betwSpec of the same "
        "definition is proved equal to the kernel model and to interregionalCount on every symmetric matrix (round 5c: "
        "betweenness_kernel_eq_spec, betwSpec_eq_interregionalCount, through C02's Nsi.kernel_eq_nsiBetw_net), so the "
        "reversal theorems hold for the kernel model itself (betweenness_kernel_reversal)",
        "binary32: rndF32 is proved round-to-nearest-even onto m*2^e (|m| < 2^24, e >= -149) and monotone; that the "
        "machine's float arithmetic is this function is compared (rnd32 correspondence: conversion, subtraction, "
        "division), overflow is outside the model"]
    ctx.proofs()

    # ---------------- the series pool ---------------------------------------
    pool = []   # (x, t, tag)
    nmax = 5 if quick else 7
    for n in range(0, nmax + 1):
        allser = list(itertools.product(range(4), repeat=n))
        if n == 7:
            allser = rng.sample(allser, 4000)
        for s in allser:
            pool.append(([Fr(v) for v in s], None, "exhaustive{0..3}"))
    if quick:
        for s in rng.sample(list(itertools.product(range(4), repeat=6)), 700):
            pool.append(([Fr(v) for v in s], None, "exhaustive{0..3}"))
    else:
        for n in range(3, 7):
            allser = list(itertools.product(range(5), repeat=n))
            if n == 6:
                allser = rng.sample(allser, 6000)
            for s in allser:
                if max(s) == 4:
                    pool.append(([Fr(v) for v in s], None, "exhaustive{0..4}"))
    nrand = 500 if quick else 5000
    made = 0
    while made < nrand:
        n = rng.choice([2, 3, 4, 5, 6, 8, 10, 13, 17, 24, 32, 40])
        tk = rng.choice(TKINDS)
        vk = rng.choice(VKINDS)
        t = gen_timings(rng, n, tk)
        x = gen_values(rng, n, vk, t)
        if not usable(x, t):
            ctx.count("generator:rejected-not-float32-exact")
            continue
        pool.append((x, t, f"random:{vk}/{tk}"))
        made += 1
        # extreme-but-exact rescalings x -> 2^a x, t -> 2^c t + d (the exact model is invariant;
        # an absolute tolerance or a wrong rounding anywhere in the float slopes is not)
        if rng.random() < 0.12:
            a = Fr(2) ** rng.choice([-40, -22, -9, 9, 22, 40])
            c = Fr(2) ** rng.choice([-30, -12, 12, 30])
            tt0 = t if t is not None else [Fr(i) for i in range(n)]
            x2, t2 = [a * v for v in x], [c * v for v in tt0]
            if usable(x2, t2, big=True):
                pool.append((x2, t2, "rescaled:power-of-two"))
            else:
                ctx.count("generator:rejected-not-float32-exact")
    # degenerate series: constant, two levels, one spike
    for n in (2, 3, 5, 9, 16):
        pool.append(([Fr(1)] * n, None, "degenerate:constant"))
        pool.append(([Fr(i % 2) for i in range(n)], None, "degenerate:alternating"))
        pool.append(([Fr(5) if i == n // 2 else Fr(0) for i in range(n)], None, "degenerate:spike"))

    phase("proofs+pool")
    # ---------------- kernel-level correspondence ----------------------------
    reqs, impl = [], []

    xreqs, ximpl = [], []   # outside the property's domain: compared, reported, no obligation

    def add_kernel(kind, x, t, N, mv=None, domain=True):
        tt = t if t is not None else [Fr(i) for i in range(len(x))]
        if kind == "nvg_mv":
            r = f"nvg_mv {N} {enc_vals(x)} {enc_vals(tt)} {enc_bools(mv)}"
        elif kind == "nvg":
            r = f"nvg {N} {enc_vals(x)} {enc_vals(tt)}"
        else:
            r = f"hvg {N} {enc_vals(x)}"
        a = call_kernel(K, kind, x, tt, N, mv)
        if not domain:
            xreqs.append(r)
            ximpl.append(a)
            ctx.count(f"out-of-domain-result:{'raise' if a.startswith('raise') else 'matrix'}")
            return
        reqs.append(r)
        impl.append(a)
        nontriv = N >= 3 and len({v for v in x}) > 1
        ctx.case(r, nontriv, {"request": r} if N <= 5 else None)
        ctx.count(f"kernel:{kind}")
        ctx.count(f"kernel-result:{'raise' if a.startswith('raise') else 'matrix'}")

    def masks_for(n, x_nan=None):
        if n <= 4:
            return list(itertools.product([False, True], repeat=n))
        return [tuple(rng.random() < p for _ in range(n)) for p in (0.15, 0.4)]

    freqs = []      # Faithful rndF32 x t n, decided by the Lean driver
    rreqs, rimpl = [], []   # the float32 model kernelNR rndF32 against the compiled kernels
    for x, t, tag in pool:
        n = len(x)
        ctx.count("series:" + tag.split("/")[0])
        ctx.count(f"n={n}" if n <= 7 else ("n=8..16" if n <= 16 else "n>16"))
        if 3 <= n <= 16 and (n <= 5 or not tag.startswith("exhaustive") or rng.random() < 0.2):
            tt = t if t is not None else [Fr(i) for i in range(n)]
            freqs.append(f"faithful {n} {enc_vals(x)} {enc_vals(tt)}")
            rreqs.append(f"nvgR {n} {enc_vals(x)} {enc_vals(tt)}")
            rimpl.append(call_kernel(K, "nvg", x, tt, n))
        add_kernel("nvg", x, t, n)
        add_kernel("hvg", x, t, n)
        for m in (masks_for(n) if (n <= 3 or rng.random() < 0.35) else masks_for(n)[:1]):
            if not any(m) and n > 0:
                continue
            # (a) what the class passes: NaN exactly at the masked samples
            xn = [None if mm else v for v, mm in zip(x, m)]
            add_kernel("nvg_mv", xn, t, n, m)
            add_kernel("hvg", xn, t, n)
            add_kernel("nvg", xn, t, n)
            # (b) mask independent of the data (the kernel reads the mask, not NaN)
            if rng.random() < 0.5:
                add_kernel("nvg_mv", x, t, n, m, domain=False)
                ctx.count("out-of-domain:mask-independent-of-NaN")
        add_kernel("nvg_mv", x, t, n, [False] * n)
    # Outside the property's domain (the class always passes N = len and the NaN
    # mask; the statement is about increasing timings): N different from the array
    # lengths, tied / decreasing timings, masks independent of the data.  The model
    # mirrors the code there too (IndexError, ZeroDivisionError, negative divisors);
    # agreement is recorded in the evidence but is not an obligation, so that a
    # change of behaviour on invalid arguments alone never raises an alarm.
    extra = rng.sample(pool, min(len(pool), 150 if quick else 1500))
    for x, t, tag in extra:
        n = len(x)
        if n < 3:
            continue
        tt = t if t is not None else [Fr(i) for i in range(n)]
        m = [rng.random() < 0.2 for _ in range(n)]
        xn = [None if mm else v for v, mm in zip(x, m)]
        for N in (n - 1, n - 2, n + 1):
            add_kernel("nvg", x, tt, N, domain=False)
            add_kernel("hvg", x, tt, N, domain=False)
            add_kernel("nvg_mv", xn, tt, N, m, domain=False)
            ctx.count("out-of-domain:N!=len")
        i = rng.randrange(n - 1)
        tie = list(tt)
        tie[i + 1] = tie[i]
        add_kernel("nvg", x, tie, n, domain=False)
        add_kernel("nvg_mv", xn, tie, n, m, domain=False)
        ctx.count("out-of-domain:tied-timings")
        dec = [-v for v in tt]
        if f32_exact(x, dec):
            add_kernel("nvg", x, dec, n, domain=False)
            add_kernel("nvg_mv", xn, dec, n, m, domain=False)
            ctx.count("out-of-domain:decreasing-timings")
    xmodel = common.driver(ctx.pid, xreqs)
    xbad = [i for i in range(len(xreqs)) if xmodel[i] != ximpl[i]]
    ctx.extra["out_of_domain"] = {
        "requests": len(xreqs), "agree": len(xreqs) - len(xbad),
        "first_disagreements": [f"{xreqs[i][:200]} :: model={xmodel[i][:120]} impl={ximpl[i][:120]}"
                                for i in xbad[:3]]}
    if xbad:
        print(f"  note: model and kernels differ on {len(xbad)}/{len(xreqs)} requests outside the "
              "property's domain (invalid N / tied or decreasing timings / foreign mask); "
              "see evidence coverage.out_of_domain")
    ctx.correspond("Lean Visibility model == compiled visibility kernels", reqs, impl)
    ctx.extra["kernel_calls_compared"] = len(reqs)
    # hypothesis of theorem nvg_float32_eq_exact, decided inside Lean for the series above
    # (independently of f32_exact, which selected them)
    ctx.correspond("Faithful rndF32 x t N (hypothesis of nvg_float32_eq_exact) decided by the Lean "
                   "driver on the series of the exact correspondence", freqs, ["1"] * len(freqs))
    ctx.extra["faithful_checked_in_lean"] = len(freqs)

    phase("kernel-level")
    # ---------------- clustering kernels ---------------------------------------
    # in domain: symmetric loop-free matrices with the class's norm d(d-1)/2;
    # arbitrary (asymmetric) matrices and norms are compared for information only
    creqs, cimpl, cxreqs, cximpl = [], [], [], []
    nprng = np.random.RandomState(rng.randrange(2 ** 31))
    for c in range(200 if quick else 2000):
        n = rng.choice([0, 1, 2, 3, 4, 5, 6, 8, 12])
        A = (nprng.rand(n, n) < rng.choice([0.3, 0.6, 0.9])).astype(np.int8)
        domain = rng.random() < 0.7
        if domain:
            A = np.triu(A, 1)
            A = A | A.T
        for name, fn in (("retclust", K._retarded_local_clustering),
                         ("advclust", K._advanced_local_clustering)):
            if domain:
                d = [int(A[i, :i].sum()) if name == "retclust" else int(A[i, i:].sum())
                     for i in range(n)]
                norm = [Fr(k * (k - 1), 2) for k in d]
            else:
                norm = [Fr(rng.choice([0, 0, 1, 2, 3, 6, 10])) for _ in range(n)]
            out = np.zeros(n)
            fn(n, np.ascontiguousarray(A.reshape(n, n)), np.array([float(v) for v in norm]), out)
            r = f"{name} {n} {enc_mat(A)} {enc_vals(norm)}"
            a = ",".join(canon_rat(v) for v in out) or "-"
            if domain:
                creqs.append(r)
                cimpl.append(a)
                ctx.case(r, n >= 3 and A.any())
                ctx.count(f"kernel:{name}")
            else:
                cxreqs.append(r)
                cximpl.append(a)
                ctx.count("out-of-domain:clustering-on-asymmetric-matrix")
    ctx.correspond("Lean clustering counters == compiled clustering kernels", creqs, cimpl)
    cxmodel = common.driver(ctx.pid, cxreqs)
    cxbad = [i for i in range(len(cxreqs)) if cxmodel[i] != cximpl[i]]
    ctx.extra["out_of_domain"]["clustering_requests"] = len(cxreqs)
    ctx.extra["out_of_domain"]["clustering_agree"] = len(cxreqs) - len(cxbad)
    if cxbad:
        print(f"  note: clustering model and kernels differ on {len(cxbad)}/{len(cxreqs)} "
              "asymmetric matrices / foreign norms (outside the property's domain)")

    phase("clustering-kernels")
    # ---------------- object level: correspondence + oracle -------------------
    oreqs, oimpl, ocases = [], [], []
    breqs, bimpl = [], []          # round 3: betweenness-type measures (kernel model and definition)
    hreqs, himpl = [], []          # visibility_relations*() called again on a live object
    preqs, pimpl = [], []          # round 4: path_lengths() by breadth-first search
    objs = [p for p in pool if len(p[0]) >= 2]
    small = [p for p in objs if p[2].startswith("exhaustive")]
    rnd = [p for p in objs if not p[2].startswith("exhaustive")]
    objs = rng.sample(small, min(len(small), 400 if quick else 5000)) + rnd
    # all-missing and almost-all-missing series (every sample isolated / one sample left)
    for n in (2, 3, 6):
        objs.append(([None] * n, None, "degenerate:all-missing"))
        objs.append(([None] * (n - 1) + [Fr(1)], None, "degenerate:one-present"))
    # round 3: missing values at the first / last / both ends (and runs of them)
    for x0, t0, tag in rng.sample(rnd, min(len(rnd), 25 if quick else 250)):
        n0 = len(x0)
        if n0 < 3:
            continue
        k1, k2 = rng.choice([(1, 0), (0, 1), (1, 1), (2, 1), (1, 2)])
        if k1 + k2 >= n0:
            continue
        objs.append(([None] * k1 + list(x0[k1:n0 - k2]) + [None] * k2, t0, "nan-at-the-ends"))
    for x, t, tag in objs:
        n = len(x)
        if all(v is None for v in x):
            variants = [(x, True, False), (x, True, True)]
        elif tag == "nan-at-the-ends":
            variants = [(x, True, False), (x, True, True)]
            ctx.count("series:nan-at-the-ends")
        else:
            variants = [(x, False, False), (x, False, True), (x, True, False), (x, True, True)]
        for p in ((0.15, 0.4) if n > 2 else (0.5,)):
            xn = with_nans(rng, x, p)
            if any(v is None for v in xn) and not all(v is None for v in x):
                variants += [(xn, True, False), (xn, True, True)]
                if rng.random() < 0.2:
                    variants += [(xn, False, False), (xn, False, True)]
        for xx, missing, hor in variants:
            if rng.random() < (0.5 if len(variants) > 4 else 0.0) and not any(v is None for v in xx) \
                    and missing:
                continue
            form = rng.choice(FORMS) if rng.random() < 0.5 else "f64"
            paths = n <= 10
            ans, obs = class_answer(VG, xx, t, missing, hor, paths=paths, form=form)
            oreqs.append(f"{'classp' if paths else 'class'} {enc_vals(xx)} "
                         f"{'-' if t is None else enc_vals(t)} {int(missing)} {int(hor)}")
            oimpl.append(ans)
            ocases.append((xx, t, missing, hor, form))
            ctx.case(oreqs[-1], n >= 3 and len(set(xx)) > 1,
                     {"request": oreqs[-1]} if n <= 5 else None)
            ctx.count(f"object:missing_values={missing},horizontal={hor},"
                      f"nan={'yes' if any(v is None for v in xx) else 'no'}")
            ctx.count(f"caller-array:{form}")
            if paths:
                ctx.count("object:with-closeness-and-boundary-corrected")
            if obs is not None and 2 <= n <= 8 and rng.random() < (0.08 if quick else 0.05):
                b3 = betw_observables(obs["vg"])
                breqs.append(f"betw {enc_vals(xx)} {'-' if t is None else enc_vals(t)} "
                             f"{int(missing)} {int(hor)}")
                bimpl.append("|".join(b3 + b3 + b3))   # kernel model, betwSpec, interregionalCount (5b)
                ctx.count("object:with-betweenness")
            # round 4: path_lengths() of the object against the BFS of the model (Net.dist, C03's
            # model of graph.distances(); theorem pathLen_is_bfs) and against Floyd-Warshall on the
            # observed adjacency (independent of the model)
            if obs is not None and 2 <= n <= 14 and rng.random() < (0.12 if quick else 0.1):
                D = np.array(obs["vg"].path_lengths(), dtype=float)
                preqs.append(f"pl {enc_vals(xx)} {'-' if t is None else enc_vals(t)} "
                             f"{int(missing)} {int(hor)}")
                pimpl.append(enc_dist(D) + "|" + enc_dist(D))
                ctx.count("object:with-path-lengths")
                if np.isinf(D).any():
                    ctx.count("object:with-path-lengths-disconnected")
                if not np.array_equal(D, floyd_warshall(obs["A"])):
                    ctx.fail(sig(missing, hor, "path-lengths", any(v is None for v in xx)),
                             "path_lengths() of the VisibilityGraph is not the least number of links "
                             "between the samples in its own adjacency",
                             {"time_series": [enc_fr(v) for v in xx],
                              "timings": None if t is None else [enc_fr(v) for v in t],
                              "missing_values": missing, "horizontal": hor, "caller_array": form,
                              "observed": enc_dist(D)})
            # multi-step history on the live object: every measure again in another order,
            # both visibility_relations*() methods called again (the one the constructor did
            # not use is a non-default path), the wrappers; nothing may change
            if obs is not None and rng.random() < 0.25:
                vg = obs["vg"]
                tq = "-" if t is None else enc_vals(t)
                try:
                    with np.errstate(all="ignore"):
                        vg.advanced_local_clustering(), vg.retarded_degree(), vg.degree()
                        A_n = np.array(vg.visibility_relations())
                        A_h = np.array(vg.visibility_relations_horizontal())
                        if paths:
                            path_observables(vg)
                    hreqs += [f"mat {enc_vals(xx)} {tq} {int(missing)} 0",
                              f"mat {enc_vals(xx)} {tq} {int(missing)} 1"]
                    himpl += [enc_mat(A_n), enc_mat(A_h)]
                    ans2, _ = class_answer(VG, xx, t, missing, hor, paths=paths, vg=vg)
                except (ZeroDivisionError, IndexError) as e:
                    ans2 = exc_name(e)
                ctx.count("object:history-replayed")
                if ans2 != ans:
                    ctx.fail(sig(missing, hor, "history", any(v is None for v in xx)),
                             "observables of one VisibilityGraph object change after calling its "
                             "measures / visibility_relations*() again",
                             {"time_series": [enc_fr(v) for v in xx],
                              "timings": None if t is None else [enc_fr(v) for v in t],
                              "missing_values": missing, "horizontal": hor, "caller_array": form,
                              "first": ans, "second": ans2})
    ctx.correspond("Lean classMat/degree/clustering/closeness model == VisibilityGraph", oreqs, oimpl)
    ctx.correspond("Lean classMat == visibility_relations() / visibility_relations_horizontal() "
                   "called again on live objects", hreqs, himpl)
    # round 5b: kernel model == interregionalCount is now a theorem for every symmetric matrix
    # (betweenness_kernel_eq_count, from C03's NetBetw.nsiBetweenness_eq_def_full); the comparison stays as a
    # correspondence of model and definitions with the implementation - it is not a hypothesis of any theorem.
    ctx.correspond("retarded/advanced/trans betweenness: C03's kernel model (retBetw, advBetw, transBetw) "
                   "== pair-dependency definition betwSpec == count over enumerated shortest paths "
                   "(NetBetw.interregionalCount; all three proved equal on symmetric matrices, not a hypothesis of a theorem) "
                   "== VisibilityGraph", breqs, bimpl)
    ctx.extra["betweenness_cases_compared"] = len(breqs)
    ctx.correspond("path_lengths(): breadth-first search Net.dist (C03's model) == specification pathLen "
                   "== VisibilityGraph.path_lengths()", preqs, pimpl)
    query_order_histories(ctx, VG, rng, ocases, quick)
    hub_cases(ctx, VG, rng, quick)
    # non-default verbosity: the constructor prints, the graph is the same
    import contextlib
    import io
    for xx, t, missing, hor, form in rng.sample(ocases, min(len(ocases), 40)):
        buf = io.StringIO()
        try:
            with contextlib.redirect_stdout(buf):
                vg0 = make_vg(VG, xx, t, missing, hor, form, silence_level=0)
            vg3 = make_vg(VG, xx, t, missing, hor, form)
        except (ZeroDivisionError, IndexError):
            continue
        ctx.count("object:silence_level=0")
        if not np.array_equal(vg0.adjacency, vg3.adjacency):
            ctx.fail(sig(missing, hor, "silence_level", any(v is None for v in xx)),
                     "adjacency depends on silence_level",
                     {"time_series": [enc_fr(v) for v in xx],
                      "timings": None if t is None else [enc_fr(v) for v in t],
                      "missing_values": missing, "horizontal": hor, "caller_array": form})
    # informative samples for the evidence: object-level cases with their answers
    good = [i for i, c in enumerate(ocases) if 5 <= len(c[0]) <= 8 and len(set(c[0])) > 2]
    for i in rng.sample(good, min(3, len(good))):
        ctx.samples.insert(0, {"request": oreqs[i],
                               "answer(A|ret|adv|deg|retclust|advclust|retclose|advclose|bcdeg|bcclose)":
                                   oimpl[i]})

    phase("object-level-correspondence")
    # the oracle (independent of the model) on every object-level case
    nfail = 0
    for k, (xx, t, missing, hor, form) in enumerate(ocases):
        do_tr = len(xx) <= 8 or rng.random() < 0.3
        do_paths = 2 <= len(xx) <= 8 and rng.random() < (0.2 if quick else 0.15)
        viol = oracle_case(VG, xx, t, missing, hor, transforms=do_tr, paths=do_paths, form=form)
        ctx.count("oracle:cases")
        if do_tr:
            ctx.count("oracle:with-affine-and-reversal")
        if do_paths:
            ctx.count("oracle:with-betweenness-from-definition" +
                      ("-and-under-reversal" if do_tr else ""))
        if viol:
            nfail += 1
            if nfail <= 40:
                report(ctx, VG, xx, t, missing, hor, viol, form)
            else:
                for s, what, det in viol:
                    ctx.fail(s, what, {"time_series": [enc_fr(v) for v in xx],
                                       "timings": None if t is None else [enc_fr(v) for v in t],
                                       "missing_values": missing, "horizontal": hor,
                                       "caller_array": form, **det})

    phase("oracle")
    # ---------------- generic float32 data: the float32 model ------------------
    # Arbitrary float32 series (near ties, wide dynamic range, NaN): the compiled natural
    # kernels against (a) the Lean model `kernelNR rndF32` (both differences and the quotient
    # rounded to binary32), exactly; (b) a numpy float32 twin of the slope comparison
    # (independent of the model).  No claim about the rational criterion here — that is
    # theorem nvg_float32_eq_exact under `Faithful`.
    def fr32(a):
        return [None if np.isnan(v) else Fr(float(v)) for v in a]

    greqs, gimpl, gfaith = [], [], []

    for c in range(400 if quick else 4000):
        n = rng.randrange(3, 12 if rng.random() < 0.8 else 20)
        xs = nprng.rand(n).astype(np.float32)
        kind = rng.choice(["uniform", "eighths", "scaled", "ramp"])
        if kind == "eighths":
            xs = np.round(xs * 8).astype(np.float32) / 8
        ts = np.cumsum(nprng.rand(n).astype(np.float32) + np.float32(0.25)).astype(np.float32)
        if kind == "scaled":
            xs = (xs * np.float32(2.0) ** rng.randint(-60, 60)).astype(np.float32)
            ts = (ts * np.float32(2.0) ** rng.randint(-40, 40)).astype(np.float32)
        if kind == "ramp":     # nearly collinear: slopes differ in the last bits
            xs = (np.float32(0.3) * ts + xs * np.float32(2.0) ** -20).astype(np.float32)
        A = np.zeros((n, n), dtype=np.int8)
        K._visibility_relations_no_missingvalues(xs, ts, n, A)
        greqs.append(f"nvgR {n} {enc_vals(fr32(xs))} {enc_vals(fr32(ts))}")
        gimpl.append(enc_mat(A))
        gfaith.append(f"faithful {n} {enc_vals(fr32(xs))} {enc_vals(fr32(ts))}")
        E = np.zeros((n, n), dtype=np.int8)
        for i in range(n):
            for j in range(i + 1, n):
                sl = ((xs[i + 1:j + 1] - xs[i]) / (ts[i + 1:j + 1] - ts[i])).astype(np.float32)
                E[i, j] = E[j, i] = int(np.all(sl[:-1] < sl[-1]))
        ctx.count("float32:generic-" + kind)
        ctx.case(("twin", xs.tobytes().hex(), ts.tobytes().hex()), True)
        if not np.array_equal(A, E):
            ctx.fail({"kind": "kernel", "kernel": "_visibility_relations_no_missingvalues",
                      "clause": "float32-twin"},
                     "natural kernel differs from the float32 slope criterion on generic data",
                     {"x": [float(v) for v in xs], "t": [float(v) for v in ts],
                      "expected": enc_mat(E), "observed": enc_mat(A)})
        # the missing-value kernel on the same data with NaN at the masked samples
        m = [rng.random() < 0.2 for _ in range(n)]
        xn = xs.copy()
        xn[np.array(m)] = np.nan
        A2 = np.zeros((n, n), dtype=np.int8)
        K._visibility_relations_missingvalues(xn, ts, n, A2, np.array(m, dtype=bool))
        greqs.append(f"nvgR_mv {n} {enc_vals(fr32(xn))} {enc_vals(fr32(ts))} {enc_bools(m)}")
        gimpl.append(enc_mat(A2))
        gfaith.append(f"faithful {n} {enc_vals(fr32(xn))} {enc_vals(fr32(ts))}")
    # Obligation where the theorems speak: on series that are Faithful (decided in Lean) the
    # float model is the exact model is the geometric criterion, so *any* correct kernel must
    # agree.  On the other generic series (float32 ties between distinct slopes) agreement
    # of the compiled code with the binary32 model is recorded in the evidence only: an
    # implementation computing more accurately would differ there without violating C14.
    gf = common.driver(ctx.pid, gfaith)
    for r, a, f in zip(greqs, gimpl, gf):
        if f == "1":
            rreqs.append(r)
            rimpl.append(a)
            ctx.count("float32:generic-faithful")
    nf = [i for i, f in enumerate(gf) if f != "1"]
    nmodel = common.driver(ctx.pid, [greqs[i] for i in nf])
    nbad = [i for i, mdl in zip(nf, nmodel) if mdl != gimpl[i]]
    ctx.extra["float32_model_on_non_faithful_data"] = {
        "requests": len(nf), "agree": len(nf) - len(nbad),
        "first_disagreements": [greqs[i][:300] for i in nbad[:3]]}
    if nbad:
        print(f"  note: compiled natural kernels and the binary32 model differ on {len(nbad)}/{len(nf)} "
              "generic float32 series that are not order-faithful (outside the exact quantifier)")
    ctx.correspond("Lean float32 model kernelNR rndF32 == compiled natural kernels "
                   "(exact series and order-faithful generic float32 data)", rreqs, rimpl)
    ctx.extra["float32_model_calls_compared"] = len(rreqs)
    phase("float32-model")

    # ---------------- round 5: power-of-two rescalings of the compiled natural kernels ------------
    # Theorem nvg_f32_pow2_invariant: if no difference and no rounded quotient the kernels form is
    # subnormal before or after the rescaling (NoUflOn, decided by the Lean driver: `noufl`), the
    # binary32 kernels return on x*2^a, t*2^c exactly what they return on x, t.  Checked on the
    # compiled kernels (oracle: the affine clause on dyadic data) and, where the series is also
    # Faithful, against the model rescaled inside Lean (`nvgRs`).  Theorems
    # small_integer_series_faithful / nvg_f32_small_integer_series_rescaled_iff: for integer series
    # with B*N <= 2^22 on the default timings both hypotheses are theorems — the driver must say 1
    # (obligation) and the compiled kernels must return the exact (Fraction) criterion in every
    # power-of-two unit (oracle).  Where NoUflOn fails (underflow) agreement is only recorded.
    def scale_case(kind):
        if kind in ("smallint", "smallint-big", "smallint-collinear"):
            n = rng.randrange(3, 14 if rng.random() < 0.8 else 40)
            B = rng.choice([3, 15, 255, 4095]) if kind == "smallint" else (2 ** 22) // n
            if kind == "smallint-collinear":      # slopes that differ by 1/(dt dt') only
                if rng.random() < 0.5:      # the steepest ramps the class allows: |dx| up to 2B
                    sl = rng.choice([1, -1]) * rng.randint(B // n, (2 * B) // n)
                    off = -B if sl > 0 else B
                else:
                    sl, off = rng.randint(-(B // (2 * n)), B // (2 * n)), rng.randint(-B // 4, B // 4)
                xx = [Fr(max(-B, min(B, off + sl * k + rng.choice([0, 0, 0, 1, -1])))) for k in range(n)]
            else:
                xx = [Fr(rng.randint(-B, B)) for _ in range(n)]
            tt = [Fr(k) for k in range(n)]
            a = rng.choice([-126, -126, -100, -24, -1, 0, 1, 22, 60, 100, rng.randint(-126, 100)])
            lo, hi = max(-126, a - 100), min(100, a + 102)
            c = rng.choice([lo, hi, 0 if lo <= 0 <= hi else lo, rng.randint(lo, hi)])
            return n, xx, tt, a, c
        n = rng.randrange(3, 12)
        if kind == "deep":                       # towards / into the subnormal range
            xx, tt = [Fr(rng.randint(0, 15)) for _ in range(n)], [Fr(k) for k in range(n)]
            return n, xx, tt, rng.randint(-149, -115), rng.choice([0, 0, rng.randint(-20, 20)])
        if kind == "dyadic":
            tt = [Fr(0)]
            for _ in range(n - 1):
                tt.append(tt[-1] + rng.choice([Fr(1, 4), Fr(1, 2), 1, 1, 2, 3]))
            xx = [Fr(rng.randint(-64, 64), rng.choice([1, 2, 4, 8])) for _ in range(n)]
        else:
            ts = np.cumsum(nprng.rand(n).astype(np.float32) + np.float32(0.25)).astype(np.float32)
            xs = nprng.rand(n).astype(np.float32)
            if kind == "ramp32":
                xs = (np.float32(0.3) * ts + xs * np.float32(2.0) ** -20).astype(np.float32)
            xx, tt = fr32(xs), fr32(ts)
        return n, xx, tt, rng.randint(-100, 100), rng.randint(-100, 100)

    LIM = Fr(2) ** 126
    pw_reqs, pw_cases = [], []
    for cnum in range(300 if quick else 3000):
        kind = rng.choice(["smallint", "smallint-big", "smallint-collinear", "dyadic", "generic32",
                           "ramp32", "deep"])
        n, xx, tt, a, c = scale_case(kind)
        m = [rng.random() < 0.2 for _ in range(n)] if rng.random() < 0.5 else None
        xn = xx if m is None else [None if mm else v for v, mm in zip(xx, m)]
        xs_, ts_ = [None if v is None else v * Fr(2) ** a for v in xn], [v * Fr(2) ** c for v in tt]
        try:
            arrs = (f32(xn), f32(tt), f32(xs_), f32(ts_))
        except (ValueError, OverflowError):
            ctx.count("pow2:rejected-scaled-input-not-float32")
            continue
        pres = [k for k in range(n) if xn[k] is not None]
        dxs = [abs(xn[k] - xn[i]) for i in pres for k in pres if i < k]
        qs = [abs(xn[k] - xn[i]) / (tt[k] - tt[i]) for i in pres for k in pres if i < k]
        big = max(dxs + qs + [tt[-1] - tt[0]] + [d * Fr(2) ** a for d in dxs]
                  + [q * Fr(2) ** (a - c) for q in qs] + [(tt[-1] - tt[0]) * Fr(2) ** c])
        if big >= LIM:
            ctx.count("pow2:rejected-overflow")
            continue
        pw_reqs.append(f"noufl {n} {enc_vals(xn)} {enc_vals(tt)} {a} {c}")
        pw_reqs.append(f"faithful {n} {enc_vals(xn)} {enc_vals(tt)}")
        pw_cases.append((kind, n, xn, tt, a, c, m, arrs))
    pw_ans = common.driver(ctx.pid, pw_reqs)

    def run_nat(xa, ta, n, m):
        A = np.zeros((n, n), dtype=np.int8)
        try:
            if m is None:
                K._visibility_relations_no_missingvalues(xa, ta, n, A)
            else:
                K._visibility_relations_missingvalues(xa, ta, n, A, np.array(m, dtype=bool))
        except (ZeroDivisionError, IndexError) as e:
            return exc_name(e)
        return enc_mat(A)

    sreq2, simpl2, closed_bad = [], [], []
    uf = {"cases": 0, "compiled_unchanged": 0, "model_agrees_with_compiled": 0}
    uf_reqs, uf_impl = [], []
    for q, (kind, n, xn, tt, a, c, m, arrs) in enumerate(pw_cases):
        noufl, faith = pw_ans[2 * q] == "1", pw_ans[2 * q + 1] == "1"
        base, scaled = run_nat(arrs[0], arrs[1], n, m), run_nat(arrs[2], arrs[3], n, m)
        rq = (f"nvgRs {n} {enc_vals(xn)} {enc_vals(tt)} {a} {c}" if m is None else
              f"nvgRs_mv {n} {enc_vals(xn)} {enc_vals(tt)} {a} {c} {enc_bools(m)}")
        ctx.case(("pow2", tuple(xn), tuple(tt), a, c, None if m is None else tuple(m)), True)
        rp = {"x": [enc_fr(v) for v in xn], "t": [enc_fr(v) for v in tt], "value_exponent": a,
              "time_exponent": c, "mask": m}
        kname = ("_visibility_relations_no_missingvalues" if m is None
                 else "_visibility_relations_missingvalues")
        if kind.startswith("smallint"):
            # both hypotheses are theorems here
            if not (noufl and faith):
                closed_bad.append(f"{pw_reqs[2 * q]} -> {pw_ans[2 * q]}, faithful -> {pw_ans[2 * q + 1]}")
            # the mask is exactly the NaN positions (no NaN without a mask), so both kernels
            # must realise the criterion
            E = enc_mat(expected_adjacency(xn, tt, False))
            for label, obs in (("unscaled", base), (f"x*2^{a}, t*2^{c}", scaled)):
                if obs != E:
                    ctx.fail({"kind": "kernel", "kernel": kname,
                              "clause": "float32-small-integer-series"},
                             f"small integer series ({label}): the compiled natural kernel differs "
                             "from the exact criterion", {**rp, "expected": E, "observed": obs})
        if noufl:
            ctx.count("pow2:no-underflow-" + kind)
            if base != scaled:
                ctx.fail({"kind": "kernel", "kernel": kname, "clause": "float32-pow2-rescaling"},
                         f"the natural kernel's answer changes when the values are multiplied by 2^{a} "
                         f"and the timings by 2^{c} (no underflow, no overflow)",
                         {**rp, "expected": base, "observed": scaled})
            if faith:
                sreq2.append(rq)
                simpl2.append(scaled)
        else:
            ctx.count("pow2:underflow-" + kind)
            uf["cases"] += 1
            uf["compiled_unchanged"] += base == scaled
            uf_reqs.append(rq)
            uf_impl.append(scaled)
    uf["model_agrees_with_compiled"] = sum(
        mdl == imp for mdl, imp in zip(common.driver(ctx.pid, uf_reqs), uf_impl))
    ctx.extra["pow2_rescaling_with_underflow"] = uf
    ctx.obligation("the Lean driver decides NoUflOn and Faithful true on small integer series "
                   "(B*N <= 2^22, default timings, exponents in range) — the hypotheses theorems "
                   f"noUflOn_intSeries / small_integer_series_faithful prove "
                   f"({sum(1 for cse in pw_cases if cse[0].startswith('smallint'))} series)",
                   "correspondence", not closed_bad, "\n".join(closed_bad[:5]))
    ctx.correspond("Lean kernelNR rndF32 on the series rescaled inside the model (scaleVals, scaleTimes) "
                   "== compiled natural kernels on the rescaled float32 arrays (NoUflOn and Faithful "
                   "decided in Lean)", sreq2, simpl2)
    phase("pow2-rescaling")

    # ---------------- round 5: the constructor in FIELD arithmetic on float64 callers' data --------
    # classLogR rndF32 = VisibilityGraph.__init__ with its conversions (to_cy(., FIELD) of series and
    # timings, np.arange(N, dtype=FIELD)) and the float kernels.  Generic doubles (not binary32
    # numbers) for series *and* timings, all four flag combinations, NaN, default / given timings,
    # wide power-of-two ranges.  Obligation where the stored data are order-faithful (FaithfulConv,
    # decided in Lean: theorem class_f32_is_exact_on_stored_data — any correct implementation must
    # agree) and for the horizontal graph (no arithmetic: class_f32_horizontal); elsewhere recorded.
    # Oracle, independent of the model: on faithful stored data the adjacency must be the Fraction
    # criterion of the *stored* float32 values.
    creq, cfa, cimpl, cmeta = [], [], [], []
    sc_req, sc_meta = [], []
    for cnum in range(160 if quick else 1600):
        n = rng.randrange(2, 12)
        xs = (nprng.rand(n) - 0.3) * 2.0 ** rng.randint(-30, 30)
        kind = rng.choice(["doubles", "doubles", "thirds", "ramp"])
        if kind == "thirds":
            xs = np.array([rng.randint(-9, 9) / 3.0 for _ in range(n)])
        tdef = rng.random() < 0.35
        ts = None if tdef else np.cumsum(nprng.rand(n) + 0.25) * 2.0 ** rng.randint(-20, 20)
        if kind == "ramp" and ts is not None:
            xs = 0.3 * ts + nprng.rand(n) * float(ts[-1]) * 2.0 ** -rng.choice([18, 22, 24])
        if rng.random() < 0.35:
            xs[rng.randrange(n)] = np.nan
        if rng.random() < 0.2:
            xs[rng.randrange(n)] = xs[rng.randrange(n)]
        missing, hor = rng.random() < 0.6, rng.random() < 0.3
        xe = [None if np.isnan(v) else Fr(float(v)) for v in xs]
        te = None if ts is None else [Fr(float(v)) for v in ts]
        try:
            vg = VG(xs.copy(), timings=None if ts is None else ts.copy(), missing_values=missing,
                    horizontal=hor, silence_level=3)
            obs = enc_mat(np.array(vg.adjacency))
        except (ZeroDivisionError, IndexError) as e:
            vg, obs = None, exc_name(e)
        tenc = "-" if te is None else enc_vals(te)
        creq.append(f"matR {enc_vals(xe)} {tenc} {int(missing)} {int(hor)}")
        cfa.append(f"faithfulc {enc_vals(xe)} {tenc}")
        cimpl.append(obs)
        cmeta.append((xs, ts, missing, hor, vg))
        if not hor:
            # the same object in other power-of-two units (class_f32_pow2_invariant_decided)
            a2 = rng.randint(-70, 70)
            c2 = 0 if ts is None else rng.randint(-70, 70)
            # overflow is outside the model (IsF32 has no largest exponent): keep every difference
            # and slope of the rescaled data below 2^120
            fin = xs[~np.isnan(xs)]
            mx = 2.0 * float(np.max(np.abs(fin))) if len(fin) else 0.0
            mdt = 1.0 if ts is None else float(np.min(np.diff(ts))) if n > 1 else 1.0
            tmax = float(n) if ts is None else float(ts[-1])
            if not (mx * 2.0 ** a2 < 2.0 ** 120 and mx * 2.0 ** a2 / (mdt * 2.0 ** c2) < 2.0 ** 120
                    and tmax * 2.0 ** c2 < 2.0 ** 120 and mx / mdt < 2.0 ** 120):
                ctx.count("float64-callers:rescaling-rejected-overflow")
            else:
                try:
                    vg2 = VG(xs * 2.0 ** a2, timings=None if ts is None else ts * 2.0 ** c2,
                             missing_values=missing, horizontal=False, silence_level=3)
                    obs2 = enc_mat(np.array(vg2.adjacency))
                except (ZeroDivisionError, IndexError) as e:
                    obs2 = exc_name(e)
                sc_req.append(f"nouflc {enc_vals(xe)} {tenc} {a2} {c2}")
                sc_meta.append((xs, ts, missing, a2, c2, obs, obs2))
        ctx.count(f"float64-callers:{kind}:{'default' if tdef else 'given'}-timings:"
                  f"{'horizontal' if hor else 'natural'}")
        ctx.case(("matR", xs.tobytes().hex(), None if ts is None else ts.tobytes().hex(), missing, hor), True)
    cf = common.driver(ctx.pid, cfa)
    oreq, oimpl, rreq2, rimpl2 = [], [], [], []
    for rq, f, obs, (xs, ts, missing, hor, vg) in zip(creq, cf, cimpl, cmeta):
        if hor or f == "1":
            oreq.append(rq)
            oimpl.append(obs)
        else:
            rreq2.append(rq)
            rimpl2.append(obs)
        if f == "1" and not hor and vg is not None and (missing or not np.isnan(xs).any()):
            # independent of the model: the criterion on the values the object stores
            xst = [None if np.isnan(v) else Fr(float(v)) for v in vg.time_series]
            tst = [Fr(float(v)) for v in vg.timings]
            E = enc_mat(expected_adjacency(xst, tst, False))
            if obs != E:
                ctx.fail(sig(missing, False, "float64-caller-data", bool(np.isnan(xs).any())),
                         "natural graph of float64 data differs from the exact criterion on the stored "
                         "float32 values (stored data order-faithful)",
                         {"x": [float(v) for v in xs], "t": None if ts is None else [float(v) for v in ts],
                          "expected": E, "observed": obs})
    ctx.correspond("Lean classLogR rndF32 (constructor incl. FIELD conversions, float kernels) == "
                   "VisibilityGraph on float64 callers' series and timings (stored data order-faithful, "
                   "or horizontal)", oreq, oimpl)
    nsc = 0
    for ans, (xs, ts, missing, a2, c2, obs, obs2) in zip(common.driver(ctx.pid, sc_req), sc_meta):
        if ans != "1":
            ctx.count("float64-callers:rescaled-with-underflow")
            continue
        nsc += 1
        ctx.count("float64-callers:rescaled-no-underflow")
        if obs != obs2:
            ctx.fail(sig(missing, False, "affine", bool(np.isnan(xs).any())),
                     f"natural graph of float64 data changes under x -> 2^{a2} x, t -> 2^{c2} t "
                     "(no underflow in conversions, differences or slopes: decided in Lean)",
                     {"x": [float(v) for v in xs], "t": None if ts is None else [float(v) for v in ts],
                      "value_exponent": a2, "time_exponent": c2, "expected": obs, "observed": obs2})
    ctx.extra["constructor_pow2_rescalings_checked"] = nsc
    rmod = common.driver(ctx.pid, rreq2)
    ctx.extra["constructor_float_model_on_non_faithful_data"] = {
        "requests": len(rreq2), "agree": sum(a == b for a, b in zip(rmod, rimpl2))}
    phase("constructor-float32")

    # ---------------- round 3: the float kernel never invents a link ---------------------------
    # Data on which every difference x[k]-x[i], t[k]-t[i] is a float32 number (ExactDiffs, decided
    # by the Lean driver) but distinct slopes may round to the same float32 (nearly collinear
    # samples).  Theorem nvg_float_subgraph: for a monotone rounding the links of the float kernel
    # are links of the exact graph.  Checked on the compiled kernels against the Fraction
    # criterion; also counted: how often the inclusion is proper.
    sreqs, scases = [], []
    for c in range(150 if quick else 1500):
        n = rng.randrange(3, 14)
        tt = [Fr(0)]
        for _ in range(n - 1):
            tt.append(tt[-1] + rng.choice([Fr(1, 2), 1, 1, 2, 3]))
        if tt[-1] > 8:
            sc = Fr(1, 4)
            tt = [v * sc for v in tt]
        kind = rng.choice(["nearcollinear", "nearcollinear", "grid"])
        if kind == "nearcollinear":
            sl = rng.choice([Fr(1), Fr(-1), Fr(1, 2), Fr(3)])
            xx = [sl * v + Fr(rng.randint(0, 3), 2 ** 19) for v in tt]
        else:
            xx = [Fr(rng.randint(0, 1023), 1024) for _ in range(n)]
        m = [rng.random() < 0.15 for _ in range(n)]
        xn = [None if mm else v for v, mm in zip(xx, m)]
        try:
            f32(xx), f32(tt)
        except ValueError:
            ctx.count("generator:rejected-not-float32-exact")
            continue
        sreqs.append(f"exactdiffs {n} {enc_vals(xn)} {enc_vals(tt)}")
        scases.append((kind, xn, tt, m))
    sans = common.driver(ctx.pid, sreqs)
    proper = 0
    for (kind, xn, tt, m), ex in zip(scases, sans):
        if ex != "1":
            ctx.count("float32:subgraph-data-without-exact-differences")
            continue
        n = len(xn)
        A = np.zeros((n, n), dtype=np.int8)
        K._visibility_relations_missingvalues(f32(xn), f32(tt), n, A, np.array(m, dtype=bool))
        E = expected_adjacency(xn, tt, False)
        ctx.count("float32:subgraph-" + kind)
        ctx.case(("subgraph", tuple(xn), tuple(tt)), True)
        if np.any((A == 1) & (E == 0)):
            prs = [(int(a), int(b)) for a, b in zip(*np.nonzero((A == 1) & (E == 0))) if a < b]
            ctx.fail({"kind": "kernel", "kernel": "_visibility_relations_missingvalues",
                      "clause": "float32-subgraph"},
                     f"the float kernel links {prs[:4]} although an intermediate sample is not below "
                     "the chord (differences exact in float32)",
                     {"x": [enc_fr(v) for v in xn], "t": [enc_fr(v) for v in tt],
                      "expected": enc_mat(E), "observed": enc_mat(A)})
        elif not np.array_equal(A, E):
            proper += 1
    ctx.extra["float32_subgraph"] = {"cases_with_exact_differences": sum(a == "1" for a in sans),
                                     "proper_subgraph": proper}

    # ---------------- round 3: horizontal graph on float64 callers' data ------------------------
    # The horizontal kernel only compares samples, so the float64 -> float32 conversion of the
    # constructor (to_cy) is harmless whenever it keeps the order of the samples (theorem
    # hvg_order_invariant).  Random doubles (not float32 numbers): the constructor against
    # (a) the exact criterion on the *float64* values, (b) the Lean model `kernelH` of the series
    # rounded by rndF32 (ties the model's rndF32 to the conversion the code performs).
    hq, hi_ = [], []
    for c in range(60 if quick else 600):
        n = rng.randrange(2, 12)
        xs = nprng.rand(n) * 2.0 ** rng.randint(-30, 30)
        if rng.random() < 0.3:
            xs[rng.randrange(n)] = xs[rng.randrange(n)]          # an exact tie
        if rng.random() < 0.3:
            xs[rng.randrange(n)] = np.nan
        x32 = xs.astype(np.float32).astype(np.float64)
        with np.errstate(invalid="ignore"):
            keeps = np.array_equal(np.sign(xs[:, None] - xs[None, :]),
                                   np.sign(x32[:, None] - x32[None, :]), equal_nan=True)
        if not keeps:
            ctx.count("float64:conversion-merges-samples")
            continue
        missing = bool(np.isnan(xs).any())
        vg = VG(xs, horizontal=True, missing_values=missing, silence_level=3)
        A = np.array(vg.adjacency)
        xe = [None if np.isnan(v) else Fr(float(v)) for v in xs]
        E = expected_adjacency(xe, [Fr(i) for i in range(n)], True)
        ctx.count("float64:horizontal-generic-doubles")
        ctx.case(("hvg64", xs.tobytes().hex()), True)
        if not np.array_equal(A, E):
            ctx.fail(sig(missing, True, "float64-caller-data", missing),
                     "horizontal graph of float64 data (order kept by the float32 conversion) differs "
                     "from the exact criterion", {"x": [float(v) for v in xs], "expected": enc_mat(E),
                                                  "observed": enc_mat(A)})
        if not missing:
            hq.append(f"hvgf32 {n} {enc_vals(xe)}")
            hi_.append(enc_mat(A))
    ctx.correspond("Lean kernelH on the rndF32-converted series == VisibilityGraph(horizontal=True) on "
                   "float64 callers' data", hq, hi_)
    phase("float-subgraph+horizontal-float64")

    # ---------------- round 4: rndF32 against the hardware ---------------------------------------
    # rndF32 is proved to be round-to-nearest-even onto the binary32 numbers and monotone
    # (rndF32_nearest, rndF32_is_binary32, rndF32_monotone).  Here the same function is compared
    # with what the machine does in the three places the natural kernels round: the conversion to
    # FIELD (float64 -> float32), the subtraction and the division of two float32 numbers.
    qreqs, qimpl = [], []
    pool32 = rnd32_pool(rng, 1500 if quick else 12000)
    for k0 in range(0, len(pool32), 50):
        chunk = pool32[k0:k0 + 50]
        with np.errstate(all="ignore"):
            hw = [Fr(float(np.float32(np.float64(float(v))))) for _, v in chunk]
        qreqs.append("rnd32 " + enc_vals([v for _, v in chunk]))
        qimpl.append(enc_vals(hw))
        for kind, _ in chunk:
            ctx.count("rnd32:conversion-" + kind)
    ops = []
    for _ in range(600 if quick else 6000):
        ea, eb = rng.randint(-40, 40), rng.randint(-40, 40)
        if rng.random() < 0.15:
            ea, eb = rng.randint(-126, -80), rng.randint(20, 60)      # quotients down to subnormals
        a = np.float32(rng.choice([1, -1]) * (rng.getrandbits(23) | (1 << 23))) * np.float32(2.0) ** ea
        b = np.float32(rng.choice([1, -1]) * (rng.getrandbits(23) | (1 << 23))) * np.float32(2.0) ** eb
        if rng.random() < 0.3:       # nearly equal operands: the difference cancels
            b = np.nextafter(a, np.float32(rng.choice([-1, 1]) * np.inf), dtype=np.float32)
            for _ in range(rng.randint(0, 40)):
                b = np.nextafter(b, np.float32(np.inf), dtype=np.float32)
        a, b = np.float32(a), np.float32(b)
        if not (np.isfinite(a) and np.isfinite(b)) or a == 0 or b == 0:
            continue
        ops.append((a, b))
    for k0 in range(0, len(ops), 25):
        chunk = ops[k0:k0 + 25]
        ex, hw = [], []
        for a, b in chunk:
            fa, fb = Fr(float(a)), Fr(float(b))
            with np.errstate(all="ignore"):
                d32, q32 = np.float32(a - b), np.float32(a / b)
            if not (np.isfinite(d32) and np.isfinite(q32)):
                continue
            ex += [fa - fb, fa / fb]
            hw += [Fr(float(d32)), Fr(float(q32))]
            ctx.count("rnd32:subtraction+division")
        if ex:
            qreqs.append("rnd32 " + enc_vals(ex))
            qimpl.append(enc_vals(hw))
    ctx.correspond("Lean rndF32 == binary32 arithmetic of the machine (float64 -> float32 conversion, "
                   "float32 subtraction and division; ties, exponent boundaries, subnormals)", qreqs, qimpl)
    ctx.extra["rnd32_values_compared"] = len(pool32) + 2 * len(ops)
    phase("rndF32-vs-hardware")


def replay(ctx, rp):
    """./check C14 --replay FILE: evaluate the oracle on the recorded input"""
    from pyunicorn.timeseries import VisibilityGraph as VG
    r = rp.get("replay", {})
    if "time_series" not in r:
        print("replay file holds no input (broken obligation only)")
        return
    x = [None if v == "nan" else Fr(v) for v in r["time_series"]]
    t = None if r.get("timings") is None else [Fr(v) for v in r["timings"]]
    form = r.get("caller_array", "f64")
    viol = oracle_case(VG, x, t, r["missing_values"], r["horizontal"], form=form)
    for s, what, det in viol:
        print("  replay:", what)
        ctx.fail(s, what, {"time_series": r["time_series"], "timings": r.get("timings"),
                           "missing_values": r["missing_values"],
                           "horizontal": r["horizontal"], "caller_array": form, **det})
    if not viol:
        print("  replay: the property holds on the recorded input")
