"""C04 — Measures do not depend on node numbering.

proof  : lean/Pyunicorn/Properties/C04.lean — `eval_relabel` (every expression built from A,
         A+, weights, pairwise matrices, groups and distances by arithmetic, sums over all
         nodes and maxima is equivariant under every permutation), `catalogue_relabel`.
         Loop-order independence of the index-order kernels is proved where the loops are
         modelled: C11 (`ctCounts_eq_pairSums`, `clcCount_eq_pairSum`, sparse twins), C03
         (cliquishness kernels count subsets), C02 (`eval_split`).
tie    : correspondence — catalogue expressions (exact rationals) == implementation on each
         graph; the model's `relabel` == `Network.permuted_copy`; expressions evaluated on
         the relabelled model == implementation on the permuted copy.
         Round 3: the models of the other properties (C03 `Net`, C11 `Cross`, C18 `Circuit`, C12
         `Geo`, C07 `Recurrence`) evaluated by the driver on the *renumbered* input (`Relabel.mat`,
         `vec`, `cols`, `rows`, node lists through `Relabel.nodes`) == the implementation on
         `permuted_copy(perm)` / on the object rebuilt from the renumbered arrays — the theorems
         `net_*`, `cross_*`, `res_*`, `geo_*`, `rec_*` of Properties/C04.lean say that these model
         values are the renumbered old ones.
search : the property itself on the implementation, generically: every public measure of
         Network / SpatialNetwork / GeoNetwork / InteractingNetworks (node-list arguments
         renumbered) / ResNetwork on `net` vs on the permuted network: arrays of shape (N,)
         are permuted, (N,N) on both axes, scalars equal.  All n! permutations for n <= 4
         (thorough: 5), random ones beyond.
"""
import contextlib
import inspect
import io
import itertools
from fractions import Fraction

import numpy as np

from . import common
from .c02 import enc_rat, enc_rats, enc_ratmat, enc_boolmat, enc_bools, close


def quiet(fn, *a, **k):
    with contextlib.redirect_stdout(io.StringIO()):
        return fn(*a, **k)


def dist_matrix(net):
    D = quiet(net.path_lengths)
    return [[-1 if np.isinf(x) else int(x) for x in row] for row in D]


def sigma_matrix(A, D):
    """number of shortest paths i -> j along links (sigma[i][i] = 1), by dynamic programming over
    the distance layers; exact integers"""
    n = len(D)
    S = [[0] * n for _ in range(n)]
    for i in range(n):
        S[i][i] = 1
        order = sorted((j for j in range(n) if D[i][j] > 0), key=lambda j: D[i][j])
        for j in order:
            S[i][j] = sum(S[i][k] for k in range(n) if A[k][j] and D[i][k] == D[i][j] - 1)
    return S


def request(kind, net, W, g0, g1, extra=""):
    n = net.N
    w = [Fraction(float(x)) for x in net.node_weights]
    Wq = [[Fraction(float(W[i][j])) for j in range(n)] for i in range(n)]
    D = dist_matrix(net)
    return (f"{kind} {extra}{n} {enc_boolmat(net.adjacency)} {enc_rats(w)} {enc_ratmat(Wq)} "
            f"{enc_bools(g0)} {enc_bools(g1)} " + (";".join(",".join(map(str, r)) for r in D) or "-")
            + " " + (";".join(",".join(map(str, r)) for r in sigma_matrix(net.adjacency, D)) or "-"))


def impl_catalogue(net, directed, connected, W, g0, g1):
    from pyunicorn.core import InteractingNetworks
    n = net.N
    out = {}

    def put(name, fn):
        try:
            out[name] = np.asarray(quiet(fn), dtype=float).reshape(-1).tolist()
        except Exception as ex:  # noqa
            out[name] = ("raise", type(ex).__name__)
    put("outdegree", net.outdegree)
    put("indegree", net.indegree)
    put("n_links_directed", lambda: int(net.adjacency.sum()))
    put("link_density", lambda: net.link_density)
    put("bildegree", net.bildegree)
    put("total_node_weight", lambda: net.total_node_weight)
    if net.n_links > 0:
        put("outstrength", lambda: net.outstrength("w"))
    # igraph counts unordered pairs on undirected graphs, the expression ordered ones
    put("betweenness", lambda: net.betweenness() * (1 if directed else 2))
    if not directed and any(g0) and any(g1):
        put("interregional_betweenness", lambda: net.interregional_betweenness(
            sources=[i for i in range(n) if g0[i]], targets=[i for i in range(n) if g1[i]]))
    if not directed:
        put("local_clustering", net.local_clustering)
        put("global_clustering", net.global_clustering)
        put("transitivity", lambda: 0.0 if np.isnan(quiet(net.transitivity)) else quiet(net.transitivity))
        put("max_neighbors_degree", net.max_neighbors_degree)
        if (net.degree() > 0).all():
            put("average_neighbors_degree", net.average_neighbors_degree)
        put("matching_index", lambda: np.nan_to_num(quiet(net.matching_index), nan=0.0))
        put("nsi_degree", net.nsi_degree)
        put("nsi_local_clustering", net.nsi_local_clustering)
        put("average_path_length", net.average_path_length)
        put("global_efficiency", net.global_efficiency)
        if connected and n > 1:
            put("closeness", net.closeness)
        L1 = [i for i in range(n) if g0[i]]
        L2 = [i for i in range(n) if g1[i]]
        if L1 and L2:
            inet = InteractingNetworks(adjacency=net.adjacency, silence_level=3)

            def expand(vals, L):
                full = [float("nan")] * n
                for k, i in enumerate(L):
                    full[i] = float(vals[k])
                return full
            put("cross_degree", lambda: expand(inet.cross_degree(L1, L2), L1))
            put("cross_link_density", lambda: inet.cross_link_density(L1, L2))
    return out


def parse_model(ans):
    out = {}
    for part in ans.split("|"):
        name, _, vals = part.partition("=")
        out[name] = [] if vals == "-" else [Fraction(x) for x in vals.split(",")]
    return out



# ---------------------------------------------------------------------------------------
# round 3: models of the other properties on the renumbered input == implementation on the
# renumbered object
# ---------------------------------------------------------------------------------------

def _tok(t):
    if t == "nan":
        return float("nan")
    if t == "inf":
        return float("inf")
    return float(Fraction(t))


def parse_sections(ans):
    """driver answer `a|b|...`, each section a vector `x,y` or a matrix `x,y;z,w` -> flat floats"""
    out = []
    for sec in ans.split("|"):
        if sec == "-" or sec == "":
            out.append([])
        elif sec in ("ginv", "not-ginv", "no-pinv", "pinv", "not-pinv", "keyerror", "indexerror"):
            out.append(sec)
        else:
            out.append([_tok(t) for row in sec.split(";") for t in row.split(",") if t != "-"])
    return out


def flat(v):
    return np.asarray(v, dtype=float).reshape(-1).tolist()


def attempt(fn, *a, **k):
    try:
        return flat(quiet(fn, *a, **k))
    except Exception:  # noqa
        return None


def enc_optmat(D):
    return ";".join(",".join("x" if np.isinf(x) else enc_rat(Fraction(float(x))) for x in row)
                    for row in D) or "-"


def net_request(A, directed, w, perm):
    return (f"net {','.join(map(str, perm))} {int(directed)} {enc_boolmat(A)} "
            f"{enc_rats([Fraction(float(x)) for x in w])}")


def netw_request(A, M, W, perm):
    q = lambda X: enc_ratmat([[Fraction(float(x)) for x in r] for r in X])   # noqa: E731
    return f"netw {','.join(map(str, perm))} {enc_boolmat(A)} {q(M)} {q(W)}"


def impl_netw(pn, Wp):
    """the 5 sections of `netWeightedRelabelled`: the `key=` code path of the four motif clustering
    coefficients (link attribute "c3" = cubes, so that the matrix of cubic roots is exact up to
    rounding) and the static `weighted_local_clustering`"""
    from pyunicorn.core import Network
    return [attempt(pn.local_cyclemotif_clustering, "c3"), attempt(pn.local_midmotif_clustering, "c3"),
            attempt(pn.local_inmotif_clustering, "c3"), attempt(pn.local_outmotif_clustering, "c3"),
            attempt(Network.weighted_local_clustering, Wp) if Wp.any() else None]


def betw_request(A, w, S, T, perm):
    n = A.shape[0]
    return (f"betw {','.join(map(str, perm))} {enc_boolmat(A)} "
            f"{enc_rats([Fraction(float(x)) for x in w])} {enc_bools([v in S for v in range(n)])} "
            f"{','.join(map(str, T)) or '-'}")


def impl_betw(pnet, S, T, perm):
    """the 10 sections of `betwRelabelled`: the renumbered target list, and — for C03's kernel model
    and for its definition alike — `nsi_betweenness(sources, targets)` of the renumbered network
    called with the node lists renumbered through the inverse permutation (list order kept);
    round 5b (C03's wrapper model `apiBetweenness`, theorem net_betweenness_api_relabel): the
    defaults `nsi_betweenness()`, `sources=` only, `targets=` only (the renumbered network's
    default `np.arange(N)` is a rearrangement of the old default renumbered, not the same list),
    and `interregional_betweenness(sources, targets)` (unit weights)"""
    from pyunicorn.core import InteractingNetworks
    inv = np.argsort(np.array(perm))
    Sp, Tp = [int(inv[k]) for k in S], [int(inv[k]) for k in T]
    got = attempt(pnet.nsi_betweenness, sources=Sp, targets=Tp)
    # round 5d (C11's wrapper models `Cross.crossBetweenness` / `internalBetweenness` /
    # `nsiCrossBetweenness`, theorems cross_betweenness_relabel, cross_internal_betweenness_relabel,
    # cross_nsi_betweenness_relabel): the node-group measures of an `InteractingNetworks` built from
    # the renumbered adjacency matrix and node weights, called with the renumbered node lists
    pin = quiet(InteractingNetworks, adjacency=pnet.adjacency, node_weights=pnet.node_weights,
                silence_level=3)
    return [[float(x) for x in Tp], got, got,
            attempt(pnet.nsi_betweenness),
            attempt(pnet.nsi_betweenness, sources=Sp),
            attempt(pnet.nsi_betweenness, targets=Tp),
            attempt(pnet.interregional_betweenness, sources=Sp, targets=Tp),
            attempt(pin.cross_betweenness, Sp, Tp),
            attempt(pin.internal_betweenness, Sp),
            attempt(pin.nsi_cross_betweenness, Sp, Tp)]


def impl_net(pnet, directed, connected):
    """the 26 sections of `netRelabelled`, `None` where the implementation's notion differs
    (undirected notions on directed networks, closeness on unconnected ones)"""
    und = not directed
    n = pnet.N
    sec = [attempt(pnet.indegree), attempt(pnet.outdegree), attempt(pnet.degree),
           attempt(pnet.bildegree), attempt(pnet.local_cyclemotif_clustering),
           attempt(pnet.local_midmotif_clustering), attempt(pnet.local_inmotif_clustering),
           attempt(pnet.local_outmotif_clustering),
           attempt(pnet.local_clustering) if und else None,
           attempt(pnet.transitivity) if und else None,
           attempt(pnet.matching_index) if und else None,
           attempt(pnet.path_lengths),
           attempt(pnet.global_efficiency) if und else None,
           attempt(pnet.average_path_length) if und else None,
           attempt(pnet.diameter) if und and pnet.n_links > 0 else None,
           attempt(pnet.closeness) if und and connected and n > 1 else None,
           attempt(pnet.nsi_closeness) if und else None,
           attempt(pnet.coreness),
           attempt(pnet.nsi_indegree), attempt(pnet.nsi_outdegree), attempt(pnet.nsi_degree),
           attempt(pnet.nsi_local_clustering) if und else None,
           # round 4: the loop over the edge list (ZeroDivisionError -> not compared)
           attempt(pnet.assortativity) if und and pnet.n_links > 0 else None,
           # round 5: `graph - i` (igraph renumbers the later vertices by shifting), BFS on the
           # reduced network, (E - E_i)/E; the cliquishness kernels with their neighbour buffer
           attempt(pnet.local_vulnerability) if und and n >= 3 and pnet.n_links > 0 else None,
           attempt(pnet.local_cliquishness, 4) if und else None,
           attempt(pnet.local_cliquishness, 5) if und else None]
    return sec


def cross_request(A, w, D, L1, L2, perm):
    return (f"cross {','.join(map(str, perm))} 0 {enc_boolmat(A)} "
            f"{enc_rats([Fraction(float(x)) for x in w])} {','.join(map(str, L1))} "
            f"{','.join(map(str, L2))} {enc_optmat(D)}")


def impl_cross(A, w, L1, L2, perm):
    from pyunicorn.core import InteractingNetworks
    idx = np.array(perm)
    inv = np.argsort(idx)
    P1, P2 = [int(inv[k]) for k in L1], [int(inv[k]) for k in L2]
    b = InteractingNetworks(adjacency=A[idx][:, idx], node_weights=w[idx], silence_level=3)
    return [P1, P2, attempt(b.cross_degree, P1, P2), attempt(b.cross_link_density, P1, P2),
            attempt(b.number_cross_links, P1, P2), attempt(b.cross_transitivity, P1, P2),
            attempt(b.cross_local_clustering, P1, P2), attempt(b.cross_global_clustering, P1, P2),
            attempt(b.cross_average_path_length, P1, P2), attempt(b.cross_closeness, P1, P2),
            attempt(b.number_internal_links, P1), attempt(b.internal_link_density, P1),
            attempt(b.internal_average_path_length, P1), attempt(b.internal_closeness, P1),
            attempt(b.internal_global_clustering, P1),
            attempt(b.nsi_cross_degree, P1, P2), attempt(b.nsi_cross_local_clustering, P1, P2),
            attempt(b.nsi_cross_transitivity, P1, P2), attempt(b.nsi_cross_mean_degree, P1, P2),
            attempt(b.nsi_cross_edge_density, P1, P2),
            attempt(b.nsi_cross_global_clustering, P1, P2),
            attempt(b.nsi_cross_closeness_centrality, P1, P2),
            # round 4: the `_sparse` twins
            attempt(b.cross_transitivity_sparse, P1, P2),
            attempt(b.cross_local_clustering_sparse, P1, P2),
            attempt(b.cross_global_clustering_sparse, P1, P2)]


def res_request(A, R, perm):
    Rq = [[Fraction(float(x)) for x in row] for row in R]
    return f"res {','.join(map(str, perm))} {enc_boolmat(A)} {enc_ratmat(Rq)}"


def impl_res(R, perm):
    from pyunicorn.core import ResNetwork
    idx = np.array(perm)
    n = len(perm)
    b = ResNetwork(R[idx][:, idx], silence_level=3)
    er = [[float(quiet(b.effective_resistance, i, j)) for j in range(n)] for i in range(n)]
    return ["ginv", flat(er),
            [float(quiet(b.effective_resistance_closeness_centrality, i)) for i in range(n)],
            attempt(b.average_effective_resistance), attempt(b.admittive_degree),
            attempt(b.average_neighbors_admittive_degree), attempt(b.local_admittive_clustering),
            attempt(b.global_admittive_clustering), None,
            [float(quiet(b.vertex_current_flow_betweenness, i)) for i in range(n)],
            attempt(b.edge_current_flow_betweenness),
            # round 4: maximum of the triangular store; hypotheses of res_currentflow_relabel_pinv
            attempt(b.diameter_effective_resistance), "pinv"]


def geo_request(A, directed, pos, D, perm):
    X = [[Fraction(float(x)) for x in pos[:, k]] for k in range(pos.shape[1])]
    Aq = [[Fraction(int(x)) for x in row] for row in A]
    Dq = [[Fraction(float(x)) for x in row] for row in D]
    return (f"geo {','.join(map(str, perm))} {int(directed)} {pos.shape[1]} {enc_ratmat(X)} "
            f"{enc_ratmat(Aq)} {enc_ratmat(Dq)}")


def impl_geo(psn):
    D = quiet(psn.grid.euclidean_distance).astype(float)
    return [flat(D * D), attempt(psn.average_link_distance, False),
            attempt(psn.average_link_distance, True), attempt(psn.outaverage_link_distance, False),
            attempt(psn.inaverage_link_distance, False), attempt(psn.max_link_distance)]


def rec_request(x, metric, thr, perm):
    emb = ";".join(",".join(enc_rat(Fraction(float(v))) for v in row) for row in x)
    return f"rec {','.join(map(str, perm))} {metric} {enc_rat(Fraction(float(thr)))} 0 {emb}"


def lattr_request(directed, n, links, W, perm):
    Wq = [[Fraction(float(x)) for x in row] for row in W]
    return (f"lattr {','.join(map(str, perm))} {int(directed)} {n} "
            f"{','.join(f'{i}-{j}' for i, j in links) or '-'} {enc_ratmat(Wq)}")


def enc_emb(x):
    return ";".join(",".join(enc_rat(Fraction(float(v))) for v in row) for row in x)


def recrate_request(x, metric, k, local, perm):
    return f"recrate {','.join(map(str, perm))} {metric} {k} {int(local)} {enc_emb(x)}"


def recjoint_request(x, y, metric, tx, ty, perm):
    return (f"recjoint {','.join(map(str, perm))} {metric} {enc_rat(Fraction(float(tx)))} "
            f"{enc_rat(Fraction(float(ty)))} {enc_emb(x)} {enc_emb(y)}")


def recisrn_request(x, y, metric, tx, ty, txy, px, py):
    return (f"recisrn {','.join(map(str, px))} {','.join(map(str, py))} {metric} "
            f"{enc_rat(Fraction(float(tx)))} {enc_rat(Fraction(float(ty)))} "
            f"{enc_rat(Fraction(float(txy)))} {enc_emb(x)} {enc_emb(y)}")


def recjointrate_request(x, y, metric, kx, ky, perm):
    return (f"recjointrate {','.join(map(str, perm))} {metric} {kx} {ky} {enc_emb(x)} {enc_emb(y)}")


def recisrnrate_request(x, y, metric, kx, ky, kxy, px, py):
    return (f"recisrnrate {','.join(map(str, px))} {','.join(map(str, py))} {metric} "
            f"{kx} {ky} {kxy} {enc_emb(x)} {enc_emb(y)}")


def compare_sections(kind, ans, impl, tol):
    """-> (number of values compared, list of mismatch descriptions)"""
    mv = parse_sections(ans)
    bad, nvals = [], 0
    if len(mv) < len(impl):
        return 0, [f"{kind}: model answered {len(mv)} sections for {len(impl)}: {ans[:120]}"]
    for k, iv in enumerate(impl):
        if iv is None:
            continue
        if isinstance(iv, str):
            nvals += 1
            if mv[k] != iv:
                bad.append(f"{kind} section {k}: model={mv[k]} expected={iv}")
            continue
        if len(iv) != len(mv[k]):
            bad.append(f"{kind} section {k}: {len(mv[k])} model values for {len(iv)}")
            continue
        for pos_, (a, b) in enumerate(zip(iv, mv[k])):
            if a != a:
                continue
            nvals += 1
            if not close(a, b, tol):
                bad.append(f"{kind} section {k}[{pos_}]: impl={a} model={b}")
                break
    return nvals, bad

# ---------------------------------------------------------------------------------------
# generic equivariance oracle on the implementation
# ---------------------------------------------------------------------------------------

SKIP = {"cache_clear", "copy", "undirected_copy", "permuted_copy", "splitted_copy", "save",
        "randomly_rewire", "set_edge_list", "set_link_attribute", "del_link_attribute",
        "set_node_attribute", "del_node_attribute", "clear_cache", "nsi_spreading", "spreading",
        "distance_based_measures", "link_attribute", "node_attribute", "find_link_attribute",
        "edge_list", "update_resistances", "update_admittance", "update_R", "average_neighbors_degree",
        # spectral measures: defined up to the eigen-solver on connected graphs only (C03)
        "eigenvector_centrality", "nsi_eigenvector_centrality", "msf_synchronizability",
        "pagerank", "degree_distribution", "indegree_distribution", "outdegree_distribution",
        "degree_cdf", "indegree_cdf", "outdegree_cdf", "nsi_degree_histogram",
        "nsi_degree_cumulative_histogram", "print_admittance", "get_admittance", "sparse_admittance",
        "set_random_links_by_distance", "randomly_rewire_geomodel_I", "randomly_rewire_geomodel_II",
        "randomly_rewire_geomodel_III", "set_node_weight_type", "save_for_cgv", "Load",
        "link_distance_distribution",
        "area_weighted_connectivity_distribution", "inarea_weighted_connectivity_distribution",
        "outarea_weighted_connectivity_distribution",
        "area_weighted_connectivity_cumulative_distribution",
        "inarea_weighted_connectivity_cumulative_distribution",
        "outarea_weighted_connectivity_cumulative_distribution"}


def zero_arg_measures(cls):
    out = []
    for name in sorted(dir(cls)):
        if name.startswith("_") or name in SKIP:
            continue
        fn = getattr(cls, name)
        if not callable(fn) or isinstance(inspect.getattr_static(cls, name), (staticmethod, classmethod)):
            continue
        try:
            sig = inspect.signature(fn)
        except (TypeError, ValueError):
            continue
        params = list(sig.parameters.values())[1:]
        if any(p.default is inspect.Parameter.empty and p.kind in
               (p.POSITIONAL_ONLY, p.POSITIONAL_OR_KEYWORD) for p in params):
            continue
        out.append(name)
    return out


def permute_value(v, perm, n):
    """expected value on the permuted network (new node a = old node perm[a])"""
    if v is None:
        return None
    if isinstance(v, tuple):
        return tuple(permute_value(x, perm, n) for x in v)
    try:
        import scipy.sparse as sp
        if sp.issparse(v):
            v = v.toarray()
    except Exception:  # noqa
        pass
    a = np.asarray(v)
    if a.dtype == object or a.dtype.kind not in "fiubc":
        return None
    if a.ndim == 0:
        return a
    idx = np.array(perm)
    if a.ndim == 1 and a.shape[0] == n:
        return a[idx]
    if a.ndim == 2 and a.shape == (n, n):
        return a[idx][:, idx]
    return None     # shape not interpretable as per-node / per-pair: not judged


def same_val(a, b, rtol=1e-7):
    if isinstance(a, tuple):
        return isinstance(b, tuple) and len(a) == len(b) and all(same_val(x, y, rtol) for x, y in zip(a, b))
    try:
        import scipy.sparse as sp
        if sp.issparse(b):
            b = b.toarray()
    except Exception:  # noqa
        pass
    a, b = np.asarray(a, dtype=float), np.asarray(b, dtype=float)
    return a.shape == b.shape and bool(np.allclose(a, b, rtol=rtol, atol=rtol * 1e-2, equal_nan=True))


# measures whose definition covers directed networks (the others are undirected notions:
# igraph evaluates them on the direction-less graph in an edge-order dependent way, C03-F2..F4)
DIRECTED_OK = {"indegree", "outdegree", "bildegree", "nsi_indegree", "nsi_outdegree",
               "nsi_bildegree", "nsi_degree", "degree", "path_lengths", "adjacency",
               "local_cyclemotif_clustering", "local_midmotif_clustering",
               "local_inmotif_clustering", "local_outmotif_clustering",
               "nsi_local_cyclemotif_clustering", "nsi_local_midmotif_clustering",
               "nsi_local_inmotif_clustering", "nsi_local_outmotif_clustering", "matching_index",
               "laplacian", "sp_Aplus", "intotal_link_distance", "outtotal_link_distance",
               "inarea_weighted_connectivity", "outarea_weighted_connectivity"}


def arg_variants(cls, name):
    """non-default call patterns of a measure that need no input of their own: every boolean
    option flipped, every link-attribute option set to the attribute the test networks carry"""
    try:
        sig = inspect.signature(getattr(cls, name))
    except (TypeError, ValueError):
        return []
    out = []
    for p in list(sig.parameters.values())[1:]:
        if isinstance(p.default, bool):
            out.append({p.name: not p.default})
        elif p.default is None and p.name in ("link_attribute", "key"):
            out.append({p.name: "w"})
    return out


def equivariance(ctx, cname, make, perm, measures, n, replay_base, variants=False,
                 extra_calls=(), via=""):
    """compare every zero-argument measure of the object (with `variants`: also every
    non-default call pattern of `arg_variants`; `extra_calls`: further (name, args, kwargs)
    calls) with that of its permuted twin.  `via` names the construction path of the twin."""
    net, pnet = make(None), make(perm)
    directed_extra = net.directed
    # grid distances are float32 computations: summation order matters at 1e-7
    rtol = 1e-7 if cname in ("Network", "RecurrenceNetwork", "JointRecurrenceNetwork",
                             "InterSystemRecurrenceNetwork") else 2e-5
    if variants:
        calls = [(m, (), kw) for m in measures for kw in [{}] + arg_variants(type(net), m)]
    else:
        calls = [(m, (), {}) for m in measures]
    calls += list(extra_calls)
    tag = f" [twin built via {via}]" if via else ""
    for m, args, kw in calls:
        shown = m if not (kw or args) else \
            f"{m}({', '.join([repr(a) for a in args] + [f'{k}={v!r}' for k, v in kw.items()])})"
        shown += tag
        if ("w" in kw.values() or "w" in args) and net.n_links == 0:
            continue
        if kw.get("parallelize"):
            # each call forks a process pool (seconds on a loaded machine): a bounded number of
            # (graph, permutation) pairs per run takes this path; the pool split itself is C19's
            left = getattr(ctx, "_pool_calls_left", None)
            if left is None:
                left = 3 if ctx.tier == "quick" else 40
            if left <= 0:
                ctx.count(f"{cname}:parallelize-variant-not-run")
                continue
            ctx._pool_calls_left = left - 1
        try:
            v = quiet(getattr(net, m), *args, **kw)
        except Exception:  # noqa
            ctx.count(f"{cname}:raises")
            continue
        exp = permute_value(v, perm, n)
        if exp is None:
            ctx.count(f"{cname}:shape-not-judged")
            continue
        try:
            got = quiet(getattr(pnet, m), *args, **kw)
        except Exception as ex:  # noqa
            ctx.fail({"kind": "raises-on-permuted", "class": cname, "measure": m},
                     f"{cname}.{shown} raises {type(ex).__name__} on the permuted network only",
                     dict(replay_base, measure=m, args=list(args), kwargs=kw,
                          permutation=list(perm)))
            continue
        ctx.count(f"{cname}:measures-compared" + (":non-default-args" if kw or args else "")
                  + (f":via-{via}" if via else ""))
        if not same_val(exp, got, rtol):
            r = dict(replay_base, measure=m, args=list(args), kwargs=kw, permutation=list(perm))
            try:
                r.update(expected=np.asarray(exp, dtype=float).round(6).tolist(),
                         observed=np.asarray(got, dtype=float).round(6).tolist())
            except Exception:  # noqa
                pass
            sig = {"kind": "not-equivariant", "class": cname, "measure": m,
                   "input_class": "directed" if directed_extra and m not in DIRECTED_OK
                   else "any"}
            if via:
                # the twin came through another construction path than the reference
                sig["via"] = "injected-graph" if via.startswith(("FromIGraph", "Load")) or \
                    via.endswith(".Load") else "constructor"
            ctx.fail(sig, f"{cname}.{shown} on permuted_copy({list(perm)}) is not the permuted "
                     f"result", r)


# ---------------------------------------------------------------------------------------
# round 4: every construction path, link attributes set AFTER construction
# ---------------------------------------------------------------------------------------

def weighted_calls(cls):
    """every public query that reads a link / node attribute: measures with an optional
    `link_attribute` / `key` argument called with the attribute "w", and the attribute getters
    (`link_attribute("w")`, `average_link_attribute("w")`, `node_attribute("a")`, ...)"""
    out = []
    for name in sorted(dir(cls)):
        if name.startswith("_") or name.startswith(("set_", "del_")) or name == "pagerank":
            continue
        fn = getattr(cls, name)
        if not callable(fn) or isinstance(inspect.getattr_static(cls, name),
                                          (staticmethod, classmethod)):
            continue
        try:
            params = list(inspect.signature(fn).parameters.values())[1:]
        except (TypeError, ValueError):
            continue
        required = [p for p in params if p.default is inspect.Parameter.empty
                    and p.kind in (p.POSITIONAL_ONLY, p.POSITIONAL_OR_KEYWORD)]
        if len(required) == 1 and required[0].name == "attribute_name":
            out.append((name, ("a" if "node" in name else "w",), {}))
        elif not required:
            for p in params:
                if p.default is None and p.name in ("link_attribute", "key"):
                    out.append((name, (), {p.name: "w"}))
    return out


def shuffled_links(Ap, directed, rng, both=False):
    """the links of the adjacency matrix in random order; undirected links once, in a random
    orientation (`both`: in both orientations, as `edge_list()` returns them)"""
    n = Ap.shape[0]
    E = [(i, j) for i in range(n) for j in range(n) if Ap[i, j] and (directed or i < j)]
    if not directed:
        E = [(j, i) if rng.random() < 0.5 else (i, j) for i, j in E]
        if both:
            E = E + [(j, i) for i, j in E]
    rng.shuffle(E)
    return [(int(i), int(j)) for i, j in E]


CONSTRUCTION_PATHS = ("dense_float32_fortran", "dense_bool_strided_view", "edge_list", "edge_list_both_orientations", "set_edge_list", "sparse_coo",
                      "sparse_csr", "sparse_lil", "adjacency_setter", "FromIGraph",
                      "FromIGraph_attribute_in_graph", "FromIGraph_copy", "FromIGraph_permuted_copy",
                      "FromIGraph_history", "Load_graphml", "Load_graphml_attribute_in_file",
                      "Load_edgelist", "Load_pickle")
SPATIAL_PATHS = ("SpatialNetwork.Load", "GeoNetwork.Load")


def build_via(path, Ap, directed, wp, Wp, ap, rng, tmpdir, grid=None, A0=None, W0=None,
              w0=None, a0=None, perm=None):
    """the network with adjacency `Ap`, node weights `wp`, link attribute "w" = `Wp` and node
    attribute "a" = `ap`, built through the construction path `path` from links listed in
    random order; the link attribute is set after construction (unless the path says that the
    attribute travels with the graph / file).  -> (network, list of links as handed over)"""
    import igraph
    import scipy.sparse as sp
    from pyunicorn.core import Network, SpatialNetwork, GeoNetwork
    n = Ap.shape[0]
    E = shuffled_links(Ap, directed, rng, both=(path == "edge_list_both_orientations"))
    set_after = True

    def graph(edges, W=None, w=None):
        g = igraph.Graph(n=n, edges=edges, directed=directed)
        if w is not None:
            g.vs["node_weight_nsi"] = [float(x) for x in w]
        if W is not None:
            g.es["w"] = [float(W[e]) for e in edges]
        return g
    if path == "dense_float32_fortran":
        # caller arrays in the other float width and memory layout (values are dyadic: exact)
        net = Network(adjacency=np.asfortranarray(Ap.astype(np.float32)), directed=directed,
                      node_weights=wp.astype(np.float32), silence_level=3)
        net.set_link_attribute("w", np.asfortranarray(Wp.astype(np.float32)))
        set_after = False
    elif path == "dense_bool_strided_view":
        big = np.zeros((2 * n, 3 * n), dtype=bool)
        big[::2, ::3] = Ap.astype(bool)
        bigw = np.zeros(2 * n)
        bigw[::2] = wp
        bigW = np.zeros((n, 2 * n))
        bigW[:, 1::2] = Wp
        net = Network(adjacency=big[::2, ::3], directed=directed, node_weights=bigw[::2],
                      silence_level=3)
        net.set_link_attribute("w", bigW[:, 1::2])
        set_after = False
    elif path in ("edge_list", "edge_list_both_orientations"):
        net = Network(edge_list=E, n_nodes=n, directed=directed, node_weights=wp, silence_level=3)
    elif path == "set_edge_list":
        net = Network(adjacency=np.zeros((n, n), dtype=int), directed=directed, node_weights=wp,
                      silence_level=3)
        net.set_edge_list(E, n)
    elif path.startswith("sparse_"):
        F = E if directed else E + [(j, i) for i, j in E]
        rng.shuffle(F)
        M = sp.coo_matrix((np.ones(len(F), dtype=rng.choice([np.int8, np.int64, np.float64, bool])),
                           ([e[0] for e in F], [e[1] for e in F])), shape=(n, n))
        M = {"sparse_coo": M, "sparse_csr": M.tocsr(), "sparse_lil": M.tolil()}[path]
        net = Network(adjacency=M, directed=directed, node_weights=wp, silence_level=3)
    elif path == "adjacency_setter":
        other = 1 - Ap - np.eye(n, dtype=int)
        net = Network(adjacency=other if not directed else other.T, directed=directed,
                      node_weights=wp, silence_level=3)
        net.set_link_attribute("w", np.ones((n, n)))
        net.adjacency = Ap
    elif path == "FromIGraph":
        net = Network.FromIGraph(graph(E, w=wp), silence_level=3)
    elif path == "FromIGraph_attribute_in_graph":
        net = Network.FromIGraph(graph(E, W=Wp, w=wp), silence_level=3)
        set_after = False
    elif path == "FromIGraph_copy":
        net = Network.FromIGraph(graph(E, W=Wp, w=wp), silence_level=3).copy()
        set_after = False
    elif path == "FromIGraph_permuted_copy":
        # the *original* numbering through FromIGraph, then the library's own renumbering
        E = shuffled_links(A0, directed, rng)
        g = igraph.Graph(n=n, edges=E, directed=directed)
        g.vs["node_weight_nsi"] = [float(x) for x in w0]
        net = Network.FromIGraph(g, silence_level=3)
        net.set_link_attribute("w", W0)
        net = net.permuted_copy(list(perm))
    elif path == "FromIGraph_history":
        # an attribute set, overwritten, deleted and set again on an injected graph
        net = Network.FromIGraph(graph(E, W=Wp.T * 3 + 1, w=wp), silence_level=3)
        net.set_link_attribute("w", Wp * 2 + 5)
        quiet(net.link_attribute, "w")
        net.set_link_attribute("v", Wp + 1)
        net.del_link_attribute("w")
    elif path in ("Load_graphml", "Load_graphml_attribute_in_file", "Load_pickle"):
        infile = path == "Load_graphml_attribute_in_file"
        g = graph(E, W=Wp if infile else None, w=wp)
        fmt = "pickle" if path == "Load_pickle" else "graphml"
        fn = f"{tmpdir}/net.{fmt}"
        g.write(fn, format=fmt)
        net = Network.Load(fn, fileformat=fmt, silence_level=3)
        set_after = not infile
    elif path == "Load_edgelist":
        # a plain edge-list file infers the number of nodes from the largest number used
        if not (Ap[n - 1].any() or Ap[:, n - 1].any()):
            return None, E
        fn = f"{tmpdir}/net.edges"
        with open(fn, "w") as f:
            f.writelines(f"{i} {j}\n" for i, j in E)
        net = Network.Load(fn, fileformat="edgelist", silence_level=3, directed=directed)
        net.node_weights = wp
    elif path in SPATIAL_PATHS:
        cls = SpatialNetwork if path == "SpatialNetwork.Load" else GeoNetwork
        g = graph(E, w=wp)
        fn, fg = f"{tmpdir}/snet.graphml", f"{tmpdir}/grid.pickle"
        g.write(fn, format="graphml")
        grid.save(fg)
        net = quiet(cls.Load, (fn, fg), fileformat="graphml", silence_level=3)
    else:
        raise ValueError(path)
    if set_after:
        net.set_link_attribute("w", Wp)
    net.set_node_attribute("a", [float(x) for x in ap])
    return net, E


HUB_MEASURES = ("degree", "indegree", "outdegree", "bildegree", "local_clustering",
                "local_cyclemotif_clustering", "local_midmotif_clustering",
                "local_inmotif_clustering", "local_outmotif_clustering", "matching_index",
                "nsi_degree", "nsi_local_clustering", "max_neighbors_degree",
                "nsi_average_neighbors_degree", "nsi_max_neighbors_degree", "transitivity",
                "global_clustering", "nsi_transitivity", "nsi_local_soffer_clustering", "coreness",
                "betweenness", "closeness", "nsi_closeness", "path_lengths", "assortativity",
                "link_betweenness", "nsi_local_cyclemotif_clustering", "laplacian", "diameter",
                "average_path_length", "global_efficiency", "nsi_global_efficiency")


def hub_network(ctx, meas):
    """round 4: hubs of degree beyond 181 (k(k-1) leaves int16, the dtype of `sp_A`) — the sums
    and matrix products over the adjacency matrix must not depend on where the hub is numbered"""
    from pyunicorn.core import Network
    rng = ctx.rng
    n = rng.choice([190, 230, 260])
    hub_seed = rng.randrange(10 ** 6)
    import random as _random
    r = _random.Random(hub_seed)
    A = np.zeros((n, n), dtype=int)
    h1, h2 = r.sample(range(n), 2)
    for j in range(n):
        if j != h1:
            A[h1, j] = A[j, h1] = 1
        if j != h2 and r.random() < 0.85:
            A[h2, j] = A[j, h2] = 1
    for i in range(n):
        for j in range(i):
            if r.random() < 0.04:
                A[i, j] = A[j, i] = 1
    w = np.array([r.choice([0.5, 1.0, 2.0, 3.0]) for _ in range(n)])
    W = np.zeros((n, n))
    for i in range(n):
        for j in range(i):
            if A[i, j]:
                W[i, j] = W[j, i] = r.choice([0.5, 1.0, 2.0, 4.0])
    perm = list(range(n))
    r.shuffle(perm)

    def mk(p):
        idx = np.arange(n) if p is None else np.array(p)
        net = Network(adjacency=A[idx][:, idx], node_weights=w[idx], silence_level=3)
        net.set_link_attribute("w", W[idx][:, idx])
        return net
    ctx.case(("hub", n, hub_seed), True)
    ctx.count("hub-network:n=%d" % n)
    equivariance(ctx, "Network", mk, perm, [m for m in HUB_MEASURES if m in meas["Network"]], n,
                 {"hub_network": True, "n": n, "hub_seed": hub_seed, "hubs": [h1, h2],
                  "generator": "harness/c04.py:hub_network"},
                 extra_calls=[c for c in weighted_calls(Network)
                              if c[0] not in ("local_vulnerability", "node_attribute")])


def construction_paths(ctx, A, directed, w, W, pos, lat, lon, perm, base, meas, full, reqs, meta):
    """round 4 (seeded change C04-6): the reference network is built from the dense adjacency
    matrix in the original numbering; its renumbered twin is built through *every other*
    construction path from links listed in random order (edge lists, sparse matrices, injected
    igraph graphs, files), and only then given its link attribute.  Every query that reads the
    attribute, and (on the paths that inject a foreign graph object) every other measure, must
    be the renumbered result."""
    import shutil
    import tempfile
    from pyunicorn.core import Network, SpatialNetwork, GeoNetwork, GeoGrid, Grid
    rng = ctx.rng
    n = A.shape[0]
    idx = np.array(perm)
    a = np.array([rng.choice([-1.5, 0.25, 2.0, 7.0]) + i for i in range(n)])
    Ap, wp, Wp, ap = A[idx][:, idx], w[idx], W[idx][:, idx], a[idx]
    tmpdir = tempfile.mkdtemp(prefix="C04-paths-")

    def reference(cls=Network, grid=None):
        kw = {} if grid is None else {"grid": grid}
        net = cls(adjacency=A, directed=directed, silence_level=3, **kw)
        net.node_weights = w
        net.set_link_attribute("w", W)
        net.set_node_attribute("a", [float(x) for x in a])
        return net
    try:
        wcalls = weighted_calls(Network)
        for path in CONSTRUCTION_PATHS:
            handed = {}

            def make(p, path=path):
                if p is None:
                    return reference()
                net, E = build_via(path, Ap, directed, wp, Wp, ap, rng, tmpdir, A0=A, W0=W, w0=w,
                                   a0=a, perm=perm)
                handed["links"] = E
                return net
            probe = make(perm)
            if probe is None:
                ctx.count(f"path:{path}:not-applicable")
                continue
            if path != "FromIGraph_history":
                # tie of `linkattr_relabel`: C05's model of set_link_attribute / link_attribute
                # run on the links *as the twin's embedded graph object lists them*
                reqs.append(lattr_request(directed, n, probe.graph.get_edgelist(), W, perm))
                meta.append(("lattr", f"path:{path}", tuple(perm),
                             [flat(quiet(probe.link_attribute, "w"))]))
            calls = [(m, ar, {k: ("v" if path == "FromIGraph_history" else v) for k, v in kw.items()})
                     for m, ar, kw in wcalls]
            if path == "FromIGraph_history":
                calls = [(m, tuple("v" if x == "w" else x for x in ar), kw) for m, ar, kw in calls]

                def make(p, path=path, inner=make):        # noqa: F811
                    net = inner(p)
                    if p is None:
                        net.set_link_attribute("v", W + 1)
                    return net
            injected = path.startswith(("FromIGraph", "Load"))
            ctx.count(f"path:{path}")
            equivariance(ctx, "Network", make, perm,
                         meas["Network"] if (injected and full) else [], n,
                         dict(base, construction_path=path, links_as_handed_over=handed.get("links"),
                              link_attribute=W.tolist()),
                         extra_calls=calls, via=path)
        if full:
            for path in SPATIAL_PATHS:
                if path == "SpatialNetwork.Load":
                    cls, own = SpatialNetwork, [m for m in meas["SpatialNetwork"]
                                                if m not in meas["Network"]]
                    g0 = Grid(np.arange(3.), pos.T, silence_level=3)
                    g1 = Grid(np.arange(3.), pos[idx].T, silence_level=3)
                else:
                    cls, own = GeoNetwork, [m for m in meas["GeoNetwork"]
                                            if m not in meas["SpatialNetwork"]]
                    g0 = GeoGrid(np.arange(3.), lat, lon, silence_level=3)
                    g1 = GeoGrid(np.arange(3.), lat[idx], lon[idx], silence_level=3)

                def make(p, path=path, cls=cls, g0=g0, g1=g1):
                    if p is None:
                        return reference(cls, g0)
                    return build_via(path, Ap, directed, wp, Wp, ap, rng, tmpdir, grid=g1)[0]
                ctx.count(f"path:{path}")
                equivariance(ctx, cls.__name__, make, perm, own, n,
                             dict(base, construction_path=path, link_attribute=W.tolist()),
                             variants=True, extra_calls=weighted_calls(cls), via=path)
    finally:
        shutil.rmtree(tmpdir, ignore_errors=True)


def run(ctx):
    from pyunicorn.core import (Network, SpatialNetwork, GeoNetwork, GeoGrid, Grid,
                                InteractingNetworks, ResNetwork)
    rng = ctx.rng
    quick = ctx.tier == "quick"
    ctx.rule = ("graphs: labelled undirected n<=4 (all), directed n<=3, random up to 9 (thorough 14) "
                "nodes, with weights, a link attribute, coordinates and a bipartition; permutations: "
                "all n! for n<=4 (thorough 5), 3 (8) random beyond; distinct = distinct (class, graph, "
                "permutation); non-trivial = permutation is not the identity and the graph has a link; "
                "round 4: renumbered twins built through 20 construction paths from links in random "
                "order (attributes set afterwards), hub networks (degree 189..259) of 190..260 nodes")
    ctx.proofs()
    meas = {c.__name__: zero_arg_measures(c) for c in
            (Network, SpatialNetwork, GeoNetwork, ResNetwork)}
    ctx.extra["measures_per_class"] = {k: len(v) for k, v in meas.items()}

    graphs = []
    for n in (2, 3, 4):
        pairs = [(i, j) for i in range(n) for j in range(i)]
        allbits = list(itertools.product([0, 1], repeat=len(pairs)))
        if n == 4 and quick:
            allbits = rng.sample(allbits, 16)
        for bits in allbits:
            A = np.zeros((n, n), dtype=int)
            for (i, j), b in zip(pairs, bits):
                A[i, j] = A[j, i] = b
            graphs.append((A, False))
    for n in (2, 3):
        pairs = [(i, j) for i in range(n) for j in range(n) if i != j]
        allbits = list(itertools.product([0, 1], repeat=len(pairs)))
        if quick and len(allbits) > 16:
            allbits = rng.sample(allbits, 16)
        for bits in allbits:
            A = np.zeros((n, n), dtype=int)
            for (i, j), b in zip(pairs, bits):
                A[i, j] = b
            graphs.append((A, True))
    for _ in range(10 if quick else 80):
        n = rng.randrange(5, 10 if quick else 15)
        A = np.zeros((n, n), dtype=int)
        directed = rng.random() < 0.25
        for i in range(n):
            for j in range(i):
                if rng.random() < rng.choice([0.25, 0.5]):
                    A[i, j] = A[j, i] = 1
                    if directed and rng.random() < 0.4:
                        A[i, j] = 0
        graphs.append((A, directed))

    reqs, meta = [], []
    for gi, (A, directed) in enumerate(graphs):
        n = A.shape[0]
        w = np.array([rng.choice([0.5, 1.0, 1.5, 2.0, 3.0]) for _ in range(n)])
        W = np.zeros((n, n))
        for i in range(n):
            for j in range(n):
                if A[i, j] and (directed or j < i or not A[j, i]):
                    W[i, j] = rng.choice([0.5, 1.0, 2.0, 3.0])
                    if not directed:
                        W[j, i] = W[i, j]
        g0 = [rng.random() < 0.5 for _ in range(n)]
        g0[0], g0[-1] = True, False
        g1 = [not x for x in g0]
        lat = np.array([rng.choice([-60., -30., 0., 20., 45., 70.]) + i for i in range(n)])
        lon = np.array([rng.choice([0., 30., 90., 150.]) + 2 * i for i in range(n)])
        pos = np.array([[float(rng.randrange(0, 9)) + 0.25 * i, float(rng.randrange(0, 9))]
                        for i in range(n)])

        def mk_net(perm):
            idx = np.arange(n) if perm is None else np.array(perm)
            net = Network(adjacency=A[idx][:, idx], directed=directed, node_weights=w[idx],
                          silence_level=3)
            net.set_link_attribute("w", W[idx][:, idx])
            return net

        def mk_spatial(perm):
            idx = np.arange(n) if perm is None else np.array(perm)
            grid = Grid(np.arange(3.), pos[idx].T, silence_level=3)
            return SpatialNetwork(grid=grid, adjacency=A[idx][:, idx], directed=directed,
                                  silence_level=3)

        def mk_geo(perm):
            idx = np.arange(n) if perm is None else np.array(perm)
            grid = GeoGrid(np.arange(3.), lat[idx], lon[idx], silence_level=3)
            return GeoNetwork(grid=grid, adjacency=A[idx][:, idx], directed=directed,
                              node_weight_type="surface", silence_level=3)
        net = mk_net(None)
        D = quiet(net.path_lengths)
        connected = not np.isinf(D).any()
        base_impl = impl_catalogue(net, directed, connected, W, g0, g1)
        reqs.append(request("eval", net, W, g0, g1))
        meta.append(("eval", gi, None, base_impl))
        if n <= (4 if quick else 5):
            perms = list(itertools.permutations(range(n)))
            if quick and n == 4:
                perms = rng.sample(perms, 6)
        else:
            perms = [tuple(rng.sample(range(n), n)) for _ in range(3 if quick else 8)]
        base = {"adjacency": A.tolist(), "directed": directed, "node_weights": w.tolist()}
        for perm in perms:
            nontriv = list(perm) != list(range(n)) and A.sum() > 0
            ctx.case((A.tobytes().hex(), directed, perm), nontriv,
                     {"adjacency": A.tolist(), "directed": directed, "permutation": list(perm)}
                     if n <= 4 else None)
            ctx.count("directed" if directed else "undirected")
            ctx.count(f"n={n}" if n <= 5 else "n>5")
            # correspondence with the model
            pnet = quiet(net.permuted_copy, list(perm))
            idx = np.array(perm)
            reqs.append(request("relabel", net, W, g0, g1, extra=",".join(map(str, perm)) + " "))
            Wp = W[idx][:, idx]
            impl_rel = (f"{n} {enc_boolmat(pnet.adjacency)} "
                        f"{enc_rats([Fraction(float(x)) for x in pnet.node_weights])} "
                        f"{enc_ratmat([[Fraction(float(x)) for x in r] for r in Wp])}")
            meta.append(("relabel", gi, perm, impl_rel))
            pn = mk_net(perm)
            pg0, pg1 = [g0[i] for i in perm], [g1[i] for i in perm]
            p_impl = impl_catalogue(pn, directed, connected, Wp, pg0, pg1)
            reqs.append(request("evalrelabel", net, W, g0, g1, extra=",".join(map(str, perm)) + " "))
            meta.append(("evalrelabel", gi, perm, p_impl))
            # round 3: the C03 / C11 / C12 models on the renumbered input == permuted_copy
            reqs.append(net_request(A, directed, w, perm))
            meta.append(("net", gi, perm, impl_net(pnet, directed, connected)))
            # round 5: C03's kernel model of `_nsi_betweenness` and its definition on the renumbered
            # input == nsi_betweenness(sources, targets) of permuted_copy with renumbered node lists
            if not directed and n >= 3 and (not quick or rng.random() < 0.5):
                S = sorted(rng.sample(range(n), rng.randrange(1, n + 1)))
                T = rng.sample(range(n), rng.randrange(1, n + 1))
                reqs.append(betw_request(A, w, S, T, perm))
                meta.append(("betw", gi, perm, impl_betw(pnet, S, T, perm)))
            # round 5: link-weighted clustering (`key=` path; cubic roots 1/2, 1, 2, 3 of the attribute)
            if A.sum() > 0:
                M3 = np.where(W > 0, W, 0.0)
                pn.set_link_attribute("c3", (M3 ** 3)[idx][:, idx])
                reqs.append(netw_request(A, M3, W, perm))
                meta.append(("netw", gi, perm, impl_netw(pn, Wp)))
            if not directed and n >= 3:
                L1 = [i for i in range(n) if g0[i]]
                L2 = [i for i in range(n) if not g0[i]]
                reqs.append(cross_request(A, w, D, L1, L2, perm))
                meta.append(("cross", gi, perm, impl_cross(A, w, L1, L2, perm)))
            if A.sum() > 0:
                D0 = quiet(mk_spatial(None).grid.euclidean_distance)
                reqs.append(geo_request(A, directed, pos, D0, perm))
                meta.append(("geo", gi, perm, impl_geo(mk_spatial(perm))))
            # generic oracle on the implementation
            # non-default call patterns on a sample of the (graph, permutation) pairs in the quick tier
            # round 5: measures with a required `order` argument are invisible to the introspection
            # of zero-argument methods (a mutation of the cliquishness kernel broke the `net`
            # correspondence without a failing input): called explicitly for every implemented order
            equivariance(ctx, "Network", mk_net, perm, meas["Network"], n, base,
                         variants=(not quick) or rng.random() < 0.12,
                         extra_calls=[(m_, (o_,), {}) for m_ in ("local_cliquishness",
                                                                 "higher_order_transitivity")
                                      for o_ in (3, 4, 5)])
            if A.sum() > 0:
                # round 3: non-default call patterns (geometry_corrected=True, ...) of the
                # spatial / geo measures as well; they are cheap, so on every pair
                equivariance(ctx, "SpatialNetwork", mk_spatial, perm,
                             [m for m in meas["SpatialNetwork"] if m not in meas["Network"]], n,
                             dict(base, positions=pos.tolist()), variants=True)
                equivariance(ctx, "GeoNetwork", mk_geo, perm,
                             [m for m in meas["GeoNetwork"] if m not in meas["SpatialNetwork"]], n,
                             dict(base, lat=lat.tolist(), lon=lon.tolist()), variants=True)
            # round 4: every construction path, attributes set after construction
            # (a bounded share of the pairs: ~1 500 calls per pair when every measure is compared)
            if A.sum() > 0 and rng.random() < ((1.0 if n >= 5 else 0.15) if quick else 0.12):
                construction_paths(ctx, A, directed, w, W, pos, lat, lon, perm, base, meas,
                                   rng.random() < 0.34, reqs, meta)
            # node-list arguments are renumbered with the network
            if not directed and n >= 3:
                interacting(ctx, A, w, W, g0, perm, base)
            elif directed and n >= 3:
                # round 5: node groups of directed networks (counts, densities, sub-matrices)
                interacting(ctx, A, w, W, g0, perm, base, directed=True)
            if not directed and connected and n >= 3 and gi % 3 == 0:
                Rres = resistive(ctx, A, perm, rng, base)
                if n <= 8:
                    reqs.append(res_request(A, Rres, perm))
                    meta.append(("res", gi, perm, impl_res(Rres, perm)))
    for _ in range(1 if quick else 4):
        hub_network(ctx, meas)
    timeseries_networks(ctx, reqs, meta)
    model = common.driver(ctx.pid, reqs)
    bad_rel, bad_eval, nvals = [], [], 0
    TOL = {"net": 1e-9, "betw": 1e-9, "netw": 1e-9, "cross": 1e-9, "res": 1e-6, "geo": 1e-5, "rec": 0.0, "lattr": 0.0}
    r3_vals = {k: 0 for k in TOL}
    r3_bad = {k: [] for k in TOL}
    for ans, (kind, gi, perm, impl) in zip(model, meta):
        if kind in TOL:
            nv, bad = compare_sections(kind, ans, impl, TOL[kind])
            r3_vals[kind] += nv
            r3_bad[kind] += [f"graph#{gi} perm={perm} {b}" for b in bad]
            continue
        if kind == "relabel":
            if ans != impl:
                bad_rel.append(f"graph#{gi} perm={perm}: model={ans[:150]} impl={impl[:150]}")
            continue
        mv = parse_model(ans)
        for name, ivals in impl.items():
            if isinstance(ivals, tuple):
                continue
            mvals = mv.get(name)
            if mvals is None or len(mvals) != len(ivals):
                bad_eval.append(f"{kind} graph#{gi} {name}: shape")
                continue
            for k, (a, b) in enumerate(zip(ivals, mvals)):
                if a != a or abs(a) == float("inf"):
                    continue
                nvals += 1
                if not close(a, float(b)):
                    bad_eval.append(f"{kind} graph#{gi} perm={perm} {name}[{k}]: impl={a} model={b}")
                    break
    ctx.obligation(f"correspondence: model `relabel` == Network.permuted_copy "
                   f"({sum(1 for m in meta if m[0] == 'relabel')} permutations)", "correspondence",
                   not bad_rel, "\n".join(bad_rel[:5]))
    ctx.obligation(f"correspondence: catalogue expressions == implementation on graphs and on "
                   f"permuted copies ({nvals} values)", "correspondence", not bad_eval,
                   "\n".join(bad_eval[:8]))
    ctx.extra["values_compared"] = nvals
    names = {"net": "C03 model `Net` (degrees, motif clustering, matching index, BFS distances, path "
                    "measures, coreness peeling, n.s.i. degree / clustering / closeness, assortativity, "
                    "local vulnerability = node removal + BFS + efficiencies, cliquishness kernels)",
             "betw": "C03 model `NetBetw` (kernel model of _nsi_betweenness *and* its definition, with node "
                     "weights, source mask and target list renumbered with the nodes; kernel model == "
                     "definition is no longer a hypothesis of a theorem — net_betweenness_kernel_relabel is "
                     "proved for every undirected network — and stays as a correspondence; round 5b: the "
                     "wrapper model apiBetweenness with default sources / targets and "
                     "interregional_betweenness; round 5d: C11's wrapper models crossBetweenness, "
                     "internalBetweenness, nsiCrossBetweenness == cross_betweenness, internal_betweenness, "
                     "nsi_cross_betweenness of InteractingNetworks(renumbered) with the renumbered node lists)",
             "netw": "C03 model `Net` / `NetRW` (link-weighted `key=` motif clustering, "
                     "weighted_local_clustering with the renumbered link attribute)",
             "cross": "C11 model `Cross` (cross / internal measures with node lists renumbered by "
                      "`Relabel.nodes`)",
             "res": "C18 model `Circuit` (effective resistance via certified pseudo-inverses, closeness, "
                    "average, admittive degree / clustering; `isGinv` hypothesis of res_effRes_relabel)",
             "geo": "C12 model `Geo` (squared grid distances of renumbered coordinates, link-distance "
                    "measures)",
             "rec": "C07 model `Recurrence` (recurrence-network adjacency of reordered state vectors: fixed "
                    "threshold, fixed global / local recurrence rate, joint, inter-system, and the fixed-rate "
                    "variants of joint / inter-system)",
             "lattr": "C05 model `Repr` (set_link_attribute then link_attribute on the links in the "
                      "order the twin's embedded igraph object lists them, every construction path)"}
    for k in TOL:
        ctx.obligation(f"correspondence: {names[k]} on the renumbered input == implementation on the "
                       f"renumbered object ({r3_vals[k]} values)", "correspondence", not r3_bad[k],
                       "\n".join(r3_bad[k][:6]))
    ctx.extra["round3_values_compared"] = r3_vals


def timeseries_networks(ctx, reqs, meta):
    """recurrence-type networks: renumbering the nodes = reordering the state vectors.  Without
    time-delay embedding a (joint / inter-system) recurrence network of the reordered states must
    be the renumbered network, for every network measure (the line-based RQA measures of the
    underlying plot depend on the time order by definition and are not network measures).
    Visibility graphs have no renumbering that keeps the criterion except time reversal, which
    is C14's theorem `time_reversal`."""
    from pyunicorn.core import Network
    from pyunicorn.timeseries import (RecurrencePlot, RecurrenceNetwork, JointRecurrenceNetwork,
                                      InterSystemRecurrenceNetwork, JointRecurrencePlot)
    rng = ctx.rng
    quick = ctx.tier == "quick"
    netm = set(zero_arg_measures(Network))

    def own(cls, *plots):
        skip = set()
        for p in plots:
            skip |= set(dir(p))
        return [m for m in zero_arg_measures(cls) if m in netm or m not in skip]

    for rep in range(6 if quick else 60):
        n = rng.randrange(5, 9 if quick else 13)
        d = rng.choice([1, 2, 3])
        # half-integer coordinates, thresholds strictly between attainable distances
        x = np.array([[rng.randrange(0, 9) / 2 for _ in range(d)] for _ in range(n)])
        y = np.array([[rng.randrange(0, 9) / 2 for _ in range(d)] for _ in range(n)])
        m = rng.randrange(4, 8)
        z = np.array([[rng.randrange(0, 9) / 2 for _ in range(d)] for _ in range(m)])
        metric = rng.choice(["supremum", "manhattan", "euclidean"])
        thr = rng.choice([0.75, 1.25, 1.75, 2.25]) + (0.1 if metric == "euclidean" else 0.0)
        perm = list(range(n))
        rng.shuffle(perm)
        pz = list(range(m))
        rng.shuffle(pz)
        base = {"x": x.tolist(), "metric": metric, "threshold": thr}
        ctx.case(("ts-net", x.tobytes().hex(), tuple(perm), metric, thr), perm != sorted(perm))

        def mk_rn(p):
            idx = np.arange(n) if p is None else np.array(p)
            return RecurrenceNetwork(x[idx], metric=metric, threshold=thr, silence_level=3)

        def mk_jrn(p):
            idx = np.arange(n) if p is None else np.array(p)
            return JointRecurrenceNetwork(x[idx], y[idx], metric=(metric, metric),
                                          threshold=(thr, thr + 0.5), silence_level=3)

        def mk_isrn(p):
            if p is None:
                return InterSystemRecurrenceNetwork(x, z, metric=metric,
                                                    threshold=(thr, thr, thr + 0.5), silence_level=3)
            return InterSystemRecurrenceNetwork(x[np.array(perm)], z[np.array(pz)], metric=metric,
                                                threshold=(thr, thr, thr + 0.5), silence_level=3)
        equivariance(ctx, "RecurrenceNetwork", mk_rn, perm,
                     own(RecurrenceNetwork, RecurrencePlot), n, dict(base, cls="RecurrenceNetwork"))
        # round 3: the C07 model on the reordered state vectors == the implementation
        reqs.append(rec_request(x, metric, thr, perm))
        meta.append(("rec", f"ts{rep}", tuple(perm),
                     [flat(np.asarray(mk_rn(perm).adjacency, dtype=float))]))
        # fixed-rate variants on the same (heavily tied) distances: the global quantile gives an
        # undirected, the row-wise quantile a directed network; both must commute with reordering
        rate = rng.choice([0.25, 0.4, 0.55])

        def mk_rn_rr(p):
            idx = np.arange(n) if p is None else np.array(p)
            return RecurrenceNetwork(x[idx], metric=metric, recurrence_rate=rate, silence_level=3)

        def mk_rn_lrr(p):
            idx = np.arange(n) if p is None else np.array(p)
            return RecurrenceNetwork(x[idx], metric=metric, local_recurrence_rate=rate,
                                     silence_level=3)
        # round 4: C07's models of the rate thresholds, of the joint product and of the
        # inter-system assembly on the reordered state vectors == the implementation
        # (`rec_fixedRate_relabel`, `rec_localRate_relabel`, `rec_joint_relabel`,
        # `rec_intersystem_relabel`); the order-statistic indices are computed as the source does
        reqs.append(recrate_request(x, metric, int(rate * (n * n - 1)), False, perm))
        meta.append(("rec", f"ts{rep}:rate", tuple(perm),
                     [flat(np.asarray(mk_rn_rr(perm).adjacency, dtype=float))]))
        reqs.append(recrate_request(x, metric, int(rate * (n - 1)), True, perm))
        meta.append(("rec", f"ts{rep}:local-rate", tuple(perm),
                     [flat(np.asarray(mk_rn_lrr(perm).adjacency, dtype=float))]))
        reqs.append(recjoint_request(x, y, metric, thr, thr + 0.5, perm))
        meta.append(("rec", f"ts{rep}:joint", tuple(perm),
                     [flat(np.asarray(mk_jrn(perm).adjacency, dtype=float))]))
        reqs.append(recisrn_request(x, z, metric, thr, thr, thr + 0.5, perm, pz))
        meta.append(("rec", f"ts{rep}:inter-system", tuple(perm + [n + k for k in pz]),
                     [flat(np.asarray(mk_isrn(perm).adjacency, dtype=float))]))
        # round 5: the fixed-rate variants of the joint (lag 0) and the inter-system network
        # (`rec_joint_rate_relabel`, `rec_intersystem_rate_relabel`): model on the reordered state
        # vectors == implementation, and the generic oracle on every network measure
        rate2, rate3 = rng.choice([0.2, 0.35, 0.6]), rng.choice([0.3, 0.5, 0.7])

        def mk_jrn_rr(p):
            idx = np.arange(n) if p is None else np.array(p)
            return JointRecurrenceNetwork(x[idx], y[idx], metric=(metric, metric),
                                          recurrence_rate=(rate, rate2), silence_level=3)

        def mk_isrn_rr(p):
            if p is None:
                return InterSystemRecurrenceNetwork(x, z, metric=metric,
                                                    recurrence_rate=(rate, rate2, rate3),
                                                    silence_level=3)
            return InterSystemRecurrenceNetwork(x[np.array(perm)], z[np.array(pz)], metric=metric,
                                                recurrence_rate=(rate, rate2, rate3),
                                                silence_level=3)
        reqs.append(recjointrate_request(x, y, metric, int(rate * (n * n - 1)),
                                         int(rate2 * (n * n - 1)), perm))
        meta.append(("rec", f"ts{rep}:joint-rate", tuple(perm),
                     [flat(np.asarray(mk_jrn_rr(perm).adjacency, dtype=float))]))
        reqs.append(recisrnrate_request(x, z, metric, int(rate * (n * n - 1)),
                                        int(rate2 * (m * m - 1)), int(rate3 * (n * m - 1)),
                                        perm, pz))
        meta.append(("rec", f"ts{rep}:inter-system-rate", tuple(perm + [n + k for k in pz]),
                     [flat(np.asarray(mk_isrn_rr(perm).adjacency, dtype=float))]))
        equivariance(ctx, "JointRecurrenceNetwork", mk_jrn_rr, perm,
                     own(JointRecurrenceNetwork, RecurrencePlot, JointRecurrencePlot), n,
                     dict(base, y=y.tolist(), cls="JointRecurrenceNetwork",
                          recurrence_rate=[rate, rate2]))
        equivariance(ctx, "InterSystemRecurrenceNetwork", mk_isrn_rr, perm + [n + k for k in pz],
                     own(InterSystemRecurrenceNetwork), n + m,
                     dict(base, y=z.tolist(), cls="InterSystemRecurrenceNetwork",
                          recurrence_rate=[rate, rate2, rate3]))
        equivariance(ctx, "RecurrenceNetwork", mk_rn_rr, perm,
                     own(RecurrenceNetwork, RecurrencePlot), n,
                     dict(base, cls="RecurrenceNetwork", recurrence_rate=rate))
        equivariance(ctx, "RecurrenceNetwork", mk_rn_lrr, perm,
                     [m for m in own(RecurrenceNetwork, RecurrencePlot) if m in DIRECTED_OK], n,
                     dict(base, cls="RecurrenceNetwork", local_recurrence_rate=rate))
        equivariance(ctx, "JointRecurrenceNetwork", mk_jrn, perm,
                     own(JointRecurrenceNetwork, RecurrencePlot, JointRecurrencePlot), n,
                     dict(base, y=y.tolist(), cls="JointRecurrenceNetwork"))
        full = perm + [n + k for k in pz]
        equivariance(ctx, "InterSystemRecurrenceNetwork", mk_isrn, full,
                     own(InterSystemRecurrenceNetwork), n + m,
                     dict(base, y=z.tolist(), cls="InterSystemRecurrenceNetwork"))


# round 5: measures of node groups that are plain counts / sums / sub-matrices / directed path
# lengths and therefore numbering independent on *directed* networks too (the clustering-, closeness-
# and betweenness-type group measures are undirected notions, cf. the `C04-directed-*` findings)
INTERACTING_DIRECTED_OK = {
    "cross_degree", "cross_indegree", "cross_outdegree", "cross_link_density", "number_cross_links",
    "total_cross_degree", "cross_degree_density", "cross_adjacency", "cross_link_attribute",
    "cross_path_lengths", "internal_adjacency", "internal_path_lengths", "number_internal_links",
    "internal_link_density", "internal_degree", "internal_indegree", "internal_outdegree",
    "internal_link_attribute", "nsi_cross_degree", "nsi_internal_degree"}


def interacting(ctx, A, w, W, g0, perm, base, directed=False):
    from pyunicorn.core import InteractingNetworks
    n = A.shape[0]
    idx = np.array(perm)
    inv = np.argsort(idx)            # old node k has new number inv[k]
    L1 = [i for i in range(n) if g0[i]]
    L2 = [i for i in range(n) if not g0[i]]
    if not L1 or not L2:
        return
    a = InteractingNetworks(adjacency=A, directed=directed, node_weights=w, silence_level=3)
    b = InteractingNetworks(adjacency=A[idx][:, idx], directed=directed, node_weights=w[idx],
                            silence_level=3)
    a.set_link_attribute("w", W)
    b.set_link_attribute("w", W[idx][:, idx])
    P1, P2 = [int(inv[k]) for k in L1], [int(inv[k]) for k in L2]
    for name in ("cross_degree", "cross_link_density", "number_cross_links", "cross_transitivity",
                 "cross_local_clustering", "cross_global_clustering", "cross_average_path_length",
                 "cross_closeness", "cross_betweenness", "nsi_cross_degree",
                 "nsi_cross_local_clustering", "nsi_cross_transitivity", "nsi_cross_mean_degree",
                 "cross_adjacency", "cross_path_lengths", "cross_transitivity_sparse",
                 "cross_local_clustering_sparse", "cross_global_clustering_sparse",
                 "nsi_cross_edge_density", "nsi_cross_global_clustering",
                 "nsi_cross_closeness_centrality", "cross_link_attribute",
                 "cross_indegree", "cross_outdegree", "total_cross_degree", "cross_degree_density",
                 "average_cross_closeness", "local_efficiency", "global_efficiency",
                 "nsi_cross_average_path_length", "nsi_cross_betweenness",
                 # measures of one group (round 3)
                 "internal_adjacency", "internal_path_lengths", "number_internal_links",
                 "internal_link_density", "internal_global_clustering",
                 "internal_average_path_length", "internal_degree", "internal_indegree",
                 "internal_outdegree", "internal_closeness", "internal_betweenness",
                 "nsi_internal_degree", "nsi_internal_local_clustering",
                 "nsi_internal_closeness_centrality", "internal_link_attribute"):
        if not hasattr(InteractingNetworks, name):
            continue
        if directed and name not in INTERACTING_DIRECTED_OK:
            continue
        args_a, args_b = (L1, L2), (P1, P2)
        if name == "cross_link_attribute":
            args_a, args_b = ("w", L1, L2), ("w", P1, P2)
        elif name == "internal_link_attribute":
            args_a, args_b = ("w", L1), ("w", P1)
        elif "internal" in name:
            args_a, args_b = (L1,), (P1,)
        # round 3: the non-default call patterns too (link_attribute="w", flipped booleans)
        for kw in [{}] + (arg_variants(InteractingNetworks, name) if A.sum() > 0 else []):
            shown = name if not kw else f"{name}({', '.join(f'{k}={v!r}' for k, v in kw.items())})"
            try:
                va = quiet(getattr(a, name), *args_a, **kw)
            except Exception:  # noqa
                ctx.count("InteractingNetworks:raises")
                continue
            try:
                vb = quiet(getattr(b, name), *args_b, **kw)
            except Exception as ex:  # noqa
                ctx.fail(dict({"kind": "raises-on-permuted", "class": "InteractingNetworks", "measure": name},
                              **({"input_class": "directed"} if directed else {})),
                         f"InteractingNetworks.{shown} raises {type(ex).__name__} on the renumbered network",
                         dict(base, measure=name, kwargs=kw, permutation=list(perm), node_list1=L1,
                              node_list2=L2))
                continue
            ctx.count("InteractingNetworks:measures-compared" + (":directed" if directed else "")
                      + (":non-default-args" if kw else ""))
            # results are indexed by position in the node lists, which correspond one to one —
            # except per-node arrays over the whole network, which are permuted
            if np.asarray(va).shape == (n,) and len(L1) != n:
                va = np.asarray(va)[idx]
            if not same_val(va, vb):
                ctx.fail(dict({"kind": "not-equivariant", "class": "InteractingNetworks", "measure": name},
                              **({"input_class": "directed"} if directed else {})),
                         f"InteractingNetworks.{shown}(L1, L2) changes when nodes and node lists are "
                         f"renumbered",
                         dict(base, measure=name, kwargs=kw, permutation=list(perm), node_list1=L1,
                              node_list2=L2, expected=np.asarray(va, dtype=float).round(6).tolist(),
                              observed=np.asarray(vb, dtype=float).round(6).tolist()))


def resistive(ctx, A, perm, rng, base):
    """-> the resistance matrix used (for the model correspondence)"""
    from pyunicorn.core import ResNetwork
    n = A.shape[0]
    idx = np.array(perm)
    R = np.zeros((n, n))
    for i in range(n):
        for j in range(i):
            if A[i, j]:
                R[i, j] = R[j, i] = rng.choice([0.5, 1.0, 2.0, 4.0])
    a = ResNetwork(R, silence_level=3)
    b = ResNetwork(R[idx][:, idx], silence_level=3)
    inv = np.argsort(idx)
    for name, args in (("admittive_degree", ()), ("average_effective_resistance", ()),
                       ("diameter_effective_resistance", ()), ("effective_resistance", (0, n - 1)),
                       ("effective_resistance_closeness_centrality", (0,)),
                       ("vertex_current_flow_betweenness", (1,)),
                       ("edge_current_flow_betweenness", ())):
        try:
            va = quiet(getattr(a, name), *args)
            pargs = tuple(int(inv[x]) for x in args)
            vb = quiet(getattr(b, name), *pargs)
        except Exception:  # noqa
            ctx.count("ResNetwork:raises")
            continue
        exp = permute_value(va, perm, n)
        if exp is None:
            continue
        ctx.count("ResNetwork:measures-compared")
        if not np.allclose(np.asarray(exp, dtype=float), np.asarray(vb, dtype=float),
                           rtol=1e-4, atol=1e-6, equal_nan=True):
            ctx.fail({"kind": "not-equivariant", "class": "ResNetwork", "measure": name},
                     f"ResNetwork.{name} is not equivariant under renumbering",
                     dict(base, measure=name, permutation=list(perm), resistances=R.tolist()))
    return R
