"""C05 — all representations of a network agree, and survive save/load.

proof  : lean/Pyunicorn/Properties/C05.lean about lean/Pyunicorn/Model/Repr.lean
         (adjacency setter, set_edge_list, node-weight setter, copy, FromIGraph,
         save/Load incl. save's side effect on the graph object, link attributes,
         histories of statements on one live object) and about the definitions
         gen_arith regenerates from the adjacency setter and set_edge_list
         (n_links, link_density, inferred node count)
tie    : gen_arith (translate/arith_C05.json) + exact correspondence of the Lean
         model with Network / SpatialNetwork / GeoNetwork objects built through
         every constructor path and post-processing operation
search : the input graph itself — every observable of every path is compared
         with the value computed directly from the edge set, weight vector and
         attribute matrix the case was generated from

request grammar (one line, 12 tokens):
  net <cls> <wtype> <coslat> <directed> <ctor> <a> <b> <data> <weights> <attr> <ops>
    cls     net | spatial | geo          wtype 0|1|2 (geo: None|surface|irrigation)
    ctor    dense  a=M b=N data=int matrix
            coo    a=M b=N data=rows i,j,v of the stored entries
            edges  a=n_nodes|none data=rows i,j
            igraph a=N data=rows i,j in the order (and orientation) of the listing = order of
                   the edge ids  weights=vertex attribute  attr=edge values in that order
                   (cls net: FromIGraph / Network.Load; spatial / geo: their Load)
    ops     comma list of copy ucopy pcopy saveload saveload_gml loadspatial
            loadspatial_gml loadgeo loadgeo_gml edgelist, the statements of a history on
            the live object  setw=a_b_k setwnone setattr[2|3]=a_b_c_k delattr[2|3] setadj=a_b_c
            save regraph  (arguments: formula_w / formula_v / formula_a below), or -
            (setattr / setattr2 / setattr3 act on the names link_weights / corr / aux_1)
answer: N|n_links|density|adjacency|graph edges|weights|total|mean|link_attribute(link_weights)|
        node_weight_nsi stored on the embedded graph object|link_attribute(corr)|
        link_attribute(aux_1)|graph.es.attributes() in order|
        graph.es[link_weights] as i,j,value listed by edge|the same for corr|for aux_1|
        average_link_attribute(link_weights)|average_link_attribute(corr)   or raise:<Exception>
"""
import contextlib
import io
import itertools
import math
import os
import shutil
import tempfile
import warnings
from fractions import Fraction

import numpy as np

ATTR = "link_weights"
ATTR2 = "corr"      # a second link attribute (no underscore: survives GML)
ATTR3 = "aux_1"     # a third one, created (and deleted) only by statements of a history
ATTRS = {"": ATTR, "2": ATTR2, "3": ATTR3}      # op suffix -> name
OBS = ["N", "n_links", "link_density", "adjacency", "graph", "node_weights",
       "total_node_weight", "mean_node_weight", "link_attribute"]


# --------------------------------------------------------------------------
# canonical values
# --------------------------------------------------------------------------

def show_rat(q):
    q = Fraction(q)
    return str(q.numerator) if q.denominator == 1 else f"{q.numerator}/{q.denominator}"


def show_rats(xs):
    return ",".join(show_rat(x) for x in xs) or "-"


def show_mat(m, f=str):
    return ";".join(",".join(f(v) for v in row) or "-" for row in m) or "-"


def exact(x):
    """node weights / link attributes as exact rationals.  The generators only
    produce values with at most 31 significant bits (quarters times a power of
    two, float32 cosines and their sums); a value is reported rounded to 40
    significant bits, which absorbs the 15-digit decimal text of the graphml /
    gml writers (relative error < 2**-48) and can never move a generated value
    (stated tolerance of the comparison: 2**-41 relative)."""
    x = float(x)
    if x != x or abs(x) == float("inf"):
        return x
    if x == 0:
        return Fraction(0)
    m, e = math.frexp(x)
    return Fraction(round(Fraction(m) * 2 ** 40)) * Fraction(2) ** (e - 40)


def canon_quotient(x, num, den):
    """`x` is a float the code computed as a quotient whose exact value is
    num/den (mean = total/N, density = n/(N(N-1))): if it agrees with that
    value within 1e-12 (relative) report the exact rational, otherwise the
    float itself.  This is the stated tolerance of the comparison; the decision
    does not depend on rounding."""
    x = float(x)
    if den != 0 and x == x and abs(x) != float("inf"):
        q = Fraction(num) / den
        if abs(Fraction(x) - q) <= Fraction(1, 10 ** 12) * abs(q):
            return q
    return Fraction(x) if x == x and abs(x) != float("inf") else x


def canon_mean(x, row, n):
    """`x` is the float mean of a matrix row whose reported (exact) entries are `row`: if it
    agrees with sum(row)/n within 1e-12 of the row's mean magnitude sum(|row|)/n — the text
    formats perturb every entry by < 2**-48 relative, and entries of opposite sign may cancel —
    report the exact quotient, otherwise the float itself (stated tolerance of the comparison)."""
    x = float(x)
    if n != 0 and x == x and abs(x) != float("inf"):
        q = sum(row, Fraction(0)) / n
        scale = sum((abs(v) for v in row), Fraction(0)) / n
        if abs(Fraction(x) - q) <= Fraction(1, 10 ** 12) * scale:
            return q
    return Fraction(x) if x == x and abs(x) != float("inf") else x


def canon_edges(es, directed):
    if directed:
        return sorted(set((int(a), int(b)) for a, b in es))
    return sorted(set((min(int(a), int(b)), max(int(a), int(b))) for a, b in es))


def show_edges(es):
    return ";".join(f"{a},{b}" for a, b in es) or "-"


# --------------------------------------------------------------------------
# cases
# --------------------------------------------------------------------------

class Case:
    """One construction: a graph specification, the way it is handed to the
    constructor, and the operations applied afterwards."""

    def __init__(self, **kw):
        self.cls = "net"          # net | spatial | geo
        self.wtype = 0            # geo: 0 None, 1 surface, 2 irrigation
        self.lats = None
        self.directed = False
        self.N = 0
        self.edges = []           # ordered pairs as handed over / defining the graph
        self.ctor = "dense"       # dense | coo | edges | igraph
        self.form = "list"        # dense: list|ndarray ; coo: csc|csr|coo|lil|dok|raw
        self.shape = None         # (M, N) for dense / coo
        self.A = None             # dense int matrix (list of lists)
        self.entries = None       # raw coo entries (i, j, v)
        self.n_nodes = None       # edges ctor
        self.w = None             # list of Fractions or None
        self.V = None             # attribute matrix (Fractions) or None
        self.ops = []
        self.oracle = True        # False: correspondence only (input outside the property)
        self.adtype = "int"       # dtype of a dense ndarray / of the sparse data
        self.wform = "list"       # node weights as list | f64 | f32 array
        self.vform = "f64"        # attribute matrices as float64 | float32 arrays
        self.zeros = False        # sparse matrix with explicitly stored zeros
        self.edtype = "int"       # dtype of an ndarray edge list
        self.autofmt = False      # save / Load with fileformat=None (detected from the extension)
        self.poke = False         # overwrite the caller's arrays afterwards and observe again
        self.sub = None           # subclass / factory construction (see subclass_cases)
        self.sp = {}              # its parameters
        self.model = True         # False: oracle only (values that are not dyadic)
        self.__dict__.update(kw)

    def label(self):
        if self.sub:
            return f"{self.sub}:{self.form}"
        return f"{self.ctor}:{self.form}" + ("+zeros" if self.zeros else "")

    def describe(self):
        d = {k: v for k, v in self.__dict__.items() if k not in ("A", "entries")}
        d["w"] = None if self.w is None else [float(x) for x in self.w]
        d["V"] = None if self.V is None else [[float(x) for x in r] for r in self.V]
        d["A"] = self.A
        d["entries"] = self.entries
        d["sp"] = {k: str(v) for k, v in self.sp.items()}
        d["edges"] = [list(e) for e in self.edges]
        return d


def adjacency_of(N, directed, pairs):
    A = [[0] * N for _ in range(N)]
    for i, j in pairs:
        A[i][j] = 1
        if not directed:
            A[j][i] = 1
    return A


def cos_lat32(lats):
    return [exact(x) for x in np.cos(np.array(lats, dtype=np.float32) * np.pi / 180)]


def request(c):
    cl = "-"
    if c.cls == "geo":
        cl = show_rats(cos_lat32(c.lats))
    if c.ctor == "dense":
        a, b = c.shape
        data = show_mat(c.A)
    elif c.ctor == "coo":
        a, b = c.shape
        ents = c.entries
        if c.form != "coo":     # csc / csr / lil / dok store every coordinate once
            acc = {}
            for i, j, v in ents:
                acc[(i, j)] = acc.get((i, j), 0) + v
            ents = [(i, j, v) for (i, j), v in sorted(acc.items())]
        data = show_mat(ents)
    elif c.ctor in ("climate", "coupled", "res"):
        a, b = c.N, show_rat(c.thr)
        data = show_mat(c.sp["S"], show_rat)
    elif c.ctor == "recurrence":
        a, b = c.N, show_rat(c.thr)
        data = show_rats(c.sp["series"])
    elif c.ctor == "edges":
        a, b = ("none" if c.n_nodes is None else c.n_nodes), 0
        data = show_mat(c.edges)
    else:
        a, b = c.N, 0
        data = show_mat(c.edges)
    w = "none" if c.w is None else show_rats(c.w)
    if c.V is None:
        attr = "none"
    elif c.ctor == "igraph" and not c.sub:
        attr = show_rats([c.V[i][j] for i, j in c.edges])
    else:
        attr = show_mat(c.V, show_rat)
    ops = ",".join(c.ops) or "-"
    return f"net {c.cls} {c.wtype} {cl} {int(c.directed)} {c.ctor} {a} {b} {data} {w} {attr} {ops}"


# --------------------------------------------------------------------------
# arguments of the history statements: small formulas evaluated here and in the
# Lean driver (formulaW / formulaV / formulaA)
# --------------------------------------------------------------------------

def lo_hi(directed, i, j):
    return (i, j) if directed else (min(i, j), max(i, j))


def formula_w(N, a, b, k):
    return [Fraction((a * i + b) % 13, 4) * Fraction(2) ** k for i in range(N)]


def formula_v(N, directed, a, b, c, k):
    def v(i, j):
        lo, hi = lo_hi(directed, i, j)
        return Fraction((a * lo + b * hi + c) % 17 - 5, 4) * Fraction(2) ** k
    return [[v(i, j) for j in range(N)] for i in range(N)]


def formula_a(N, directed, a, b, c):
    def x(i, j):
        lo, hi = lo_hi(directed, i, j)
        return 1 if i != j and (a * lo + b * hi + c) % 5 < 2 else 0
    return [[x(i, j) for j in range(N)] for i in range(N)]


def second_attr(V):
    """the values of the second link attribute of a case (exact in float32, too)"""
    return [[-x / 2 for x in row] for row in V]


def op_args(op):
    return [int(t) for t in op.split("=")[1].split("_")]


# --------------------------------------------------------------------------
# the implementation
# --------------------------------------------------------------------------

class Impl:
    def __init__(self, tmp):
        import igraph
        import scipy.sparse as sp
        from pyunicorn.core import Network, SpatialNetwork, GeoNetwork, Grid, GeoGrid
        from pyunicorn.core.network import NetworkError
        self.__dict__.update(locals())
        self.k = 0

    def path(self, ext):
        self.k += 1
        return os.path.join(self.tmp, f"f{self.k}.{ext}")

    def grid(self, c):
        n = c.N if c.shape is None else c.shape[1]
        if c.ctor == "edges" and c.n_nodes is not None:
            n = c.n_nodes
        t = np.arange(2.)
        if c.cls == "geo":
            return self.GeoGrid(t, np.array(c.lats, dtype=float),
                                np.arange(len(c.lats), dtype=float), silence_level=3)
        return self.Grid(t, np.vstack([np.arange(n, dtype=float), np.zeros(n)]),
                         silence_level=3)

    def construct(self, c):
        sp = self.sp
        kw = {}
        self.caller = []          # the caller's arrays (see `poke`)
        w = None if c.w is None else self.weights(c, c.w)
        self.caller.append(w)
        adt = {"int": int, "bool": bool, "int8": np.int8, "uint8": np.uint8, "int64": np.int64,
               "f32": np.float32, "f64": np.float64}[c.adtype]
        if c.sub:
            net = self.construct_sub(c, w)
            if w is not None and c.sub not in ("recurrence", "factory", "model"):
                net.node_weights = w      # (RecurrenceNetwork takes node_weights itself)
            return self.set_attrs(net, c)
        if c.ctor == "igraph":
            # the igraph object keeps the edges in the order (and, when directed, the
            # orientation) the caller listed them: edge ids are NOT in adjacency order
            g = self.igraph.Graph(n=c.N, edges=[tuple(e) for e in c.edges],
                                  directed=c.directed)
            if w is not None:
                g.vs["node_weight_nsi"] = [float(x) for x in c.w]
            if c.V is not None:
                g.es[ATTR] = [float(c.V[i][j]) for i, j in c.edges]
                g.es[ATTR2] = [float(second_attr(c.V)[i][j]) for i, j in c.edges]
            if not c.form.startswith("file:"):
                return self.Network.FromIGraph(g, silence_level=3)
            # a file somebody else wrote (igraph itself, edges in the object's order)
            fmt = c.form.split(":")[1]
            p = self.path(fmt)
            if fmt == "edgelist":     # written by hand: lines in the caller's order AND orientation
                with open(p, "w", encoding="utf-8") as f:
                    f.write("".join(f"{i} {j}\n" for i, j in c.edges))
            else:
                g.write(p, format=fmt)
            kw = {"directed": c.directed} if fmt == "edgelist" else {}
            if c.cls == "net":
                return self.Network.Load(p, fmt, silence_level=3, **kw)
            pg = self.path("grid")
            self.grid(c).save(pg)
            cls = self.SpatialNetwork if c.cls == "spatial" else self.GeoNetwork
            return cls.Load((p, pg), fmt, silence_level=3, **kw)
        if c.ctor == "dense":
            kw["adjacency"] = c.A if c.form == "list" else np.array(c.A, dtype=adt).reshape(c.shape)
        elif c.ctor == "coo":
            r = [e[0] for e in c.entries]
            cc = [e[1] for e in c.entries]
            v = [e[2] for e in c.entries]
            m = sp.coo_matrix((np.array(v, dtype=adt), (np.array(r, dtype=int),
                                                       np.array(cc, dtype=int))), shape=c.shape)
            if c.form in ("csc", "csr", "lil", "dok"):
                m = getattr(m, "to" + c.form)()
            kw["adjacency"] = m
        else:
            kw["edge_list"] = [list(e) for e in c.edges] if c.form != "ndarray" \
                else np.array(c.edges, dtype=np.dtype(c.edtype)).reshape(-1, 2)
            if c.cls == "net":
                kw["n_nodes"] = c.n_nodes
            # SpatialNetwork / GeoNetwork: the grid (of c.n_nodes nodes) supplies it
        if c.cls == "net":
            net = self.Network(directed=c.directed, node_weights=w, silence_level=3, **kw)
        elif c.cls == "spatial":
            net = self.SpatialNetwork(grid=self.grid(c), directed=c.directed,
                                      silence_level=3, **kw)
        else:
            net = self.GeoNetwork(grid=self.grid(c), directed=c.directed,
                                  node_weight_type=[None, "surface", "irrigation"][c.wtype],
                                  silence_level=3, **kw)
        if c.cls != "net" and w is not None:
            net.node_weights = w          # the constructors of these classes take no weights
        self.caller += [kw.get("adjacency"), kw.get("edge_list")]
        return self.set_attrs(net, c)

    def set_attrs(self, net, c):
        if c.V is not None:
            m1, m2 = self.matrix(c, c.V), self.matrix(c, second_attr(c.V))
            net.set_link_attribute(ATTR, m1)
            net.set_link_attribute(ATTR2, m2)
            self.caller += [m1, m2]
        return net

    def construct_sub(self, c, w):
        """subclasses whose constructors pass through Network.__init__ / the adjacency setter,
        the documented factories and Network.Model"""
        import random
        p = c.sp
        wt = [None, "surface", "irrigation"][c.wtype]
        fm = lambda M, dt: np.array([[float(x) for x in r] for r in M], dtype=dt)  # noqa
        if c.sub in ("climate", "coupled"):
            from pyunicorn.climate import ClimateNetwork, CoupledClimateNetwork
            S = fm(p["S"], p["sdtype"])
            self.caller.append(S)
            if c.sub == "climate":
                return ClimateNetwork(self.grid(c), S, threshold=float(p["thr"]),
                                      directed=c.directed, node_weight_type=wt, silence_level=3)
            n1, t = p["n1"], np.arange(2.)
            la, lo = np.array(c.lats, dtype=float), np.arange(len(c.lats), dtype=float)
            g1 = self.GeoGrid(t, la[:n1], lo[:n1], silence_level=3)
            g2 = self.GeoGrid(t, la[n1:], lo[n1:], silence_level=3)
            return CoupledClimateNetwork(g1, g2, S, threshold=float(p["thr"]), directed=c.directed,
                                         node_weight_type=wt, silence_level=3)
        if c.sub == "recurrence":
            from pyunicorn.timeseries import RecurrenceNetwork
            x = np.array([float(v) for v in p["series"]], dtype=p["sdtype"])
            self.caller.append(x)
            kw = {} if w is None else {"node_weights": np.asarray(w, dtype=float)}
            return RecurrenceNetwork(x, threshold=float(p["thr"]), metric=p["metric"],
                                     silence_level=3, **kw)
        if c.sub == "res":
            from pyunicorn.core import ResNetwork
            R = fm(p["S"], p["sdtype"])
            self.caller.append(R)
            return ResNetwork(R, grid=self.grid(c), node_weight_type=wt, silence_level=3)
        if c.sub == "model":
            random.seed(p["seed"])
            np.random.seed(p["seed"])
            return self.Network.Model(p["name"], **p["kw"])
        # documented factories: what is not documented is read off the object (the paths that
        # follow and the derived quantities must still agree with it)
        mod, name = p["name"].split(".")
        import importlib
        cls = None
        for m in ("pyunicorn.core", "pyunicorn.climate", "pyunicorn.timeseries"):
            cls = cls or getattr(importlib.import_module(m), mod, None)
        net = getattr(cls, name)()
        A = np.asarray(net.adjacency)
        c.N = int(A.shape[0])
        c.directed = bool(net.directed)
        if p.get("edges") is None:
            c.edges = [(int(i), int(j)) for i, j in zip(*np.nonzero(A)) if c.directed or i < j]
        c.A = adjacency_of(c.N, c.directed, c.edges)
        c.shape = (c.N, c.N)
        if c.w is None:
            c.w = [exact(x) for x in net.node_weights]
        if ATTR in net.graph.es.attributes():
            c.V = [[exact(x) for x in r] for r in net.link_attribute(ATTR)]
            net.set_link_attribute(ATTR2, self.matrix(c, second_attr(c.V)))
            c.V, V = None, c.V          # (set_attrs must not assign it again)
            self._factory_V = V
        else:
            self._factory_V = None
        return net

    def poke(self):
        """overwrite, in place, every array the caller handed to the constructor"""
        n = 0
        for a in self.caller:
            if isinstance(a, np.ndarray):
                a[...] = 3
                n += 1
            elif self.sp.issparse(a) and hasattr(a, "data") and isinstance(a.data, np.ndarray) \
                    and a.data.dtype != object:
                a.data[...] = 0
                n += 1
        return n

    @staticmethod
    def weights(c, w):
        w = [float(x) for x in w]
        if c.wform == "f64":
            return np.array(w, dtype=np.float64)
        if c.wform == "f32":
            return np.array(w, dtype=np.float32)
        return w

    @staticmethod
    def matrix(c, V):
        return np.array([[float(x) for x in r] for r in V],
                        dtype=np.float32 if c.vform == "f32" else np.float64)

    def apply(self, net, op, c):
        if op == "copy":
            return net.copy()
        if op == "rethr":       # the subclass re-runs Network.__init__ on the live object
            if c.sub == "recurrence":
                net.set_fixed_threshold(float(c.sp["thr2"]))
            else:
                net.set_threshold(float(c.sp["thr2"]))
            return net
        if op.startswith("setw="):
            net.node_weights = self.weights(c, formula_w(net.N, *op_args(op)))
            return net
        if op == "setwnone":
            net.node_weights = None
            return net
        if op.startswith("setattr"):
            name = ATTRS[op.split("=")[0][len("setattr"):]]
            net.set_link_attribute(name, self.matrix(c, formula_v(net.N, net.directed, *op_args(op))))
            return net
        if op.startswith("delattr"):
            net.del_link_attribute(ATTRS[op[len("delattr"):]])
            return net
        if op.startswith("setadj="):
            A = np.array(formula_a(net.N, net.directed, *op_args(op)))
            if c.ctor == "coo":     # sparse, in the storage format of the case
                f = c.form if c.form in ("csc", "csr", "lil", "dok", "coo") else "csr"
                net.adjacency = getattr(self.sp.coo_matrix(A), "to" + f)()
            else:
                net.adjacency = A if c.form != "list" else A.tolist()
            return net
        if op == "regraph":
            return self.Network.FromIGraph(net.graph, silence_level=3)
        if op.startswith("save:"):
            fmt = op.split(":")[1]
            self.Network.save(net, self.path(fmt), None if c.autofmt else fmt)
            return net
        if op == "ucopy":
            return net.undirected_copy()
        if op.startswith("split="):
            node, num, e = op_args(op)
            if (node, num, e) == (-1, 1, 1):
                return net.splitted_copy()          # the documented defaults
            if num == 1 and e == 1:
                return net.splitted_copy(node)
            return net.splitted_copy(node=node, proportion=num / 2.0 ** e)
        if op == "pcopy":
            return net.permuted_copy(list(range(net.N)))
        if op == "edgelist":
            return self.Network(edge_list=net.edge_list(), n_nodes=net.N,
                                directed=net.directed, node_weights=net.node_weights,
                                silence_level=3)
        kind, fmt = op.split(":")
        p = self.path(fmt)
        if c.autofmt:
            fmt = None              # non-default call: format detected from the extension
        if kind == "saveload":
            self.Network.save(net, p, fmt)
            return self.Network.Load(p, fmt, silence_level=3)
        pg = self.path("grid")
        net.save((p, pg), fmt)
        if kind == "loadspatial":
            return self.SpatialNetwork.Load((p, pg), fmt, silence_level=3)
        return self.GeoNetwork.Load((p, pg), fmt, silence_level=3)

    def run(self, c):
        """-> (observables dict | None, answer string)"""
        try:
            with contextlib.redirect_stdout(io.StringIO()), warnings.catch_warnings():
                warnings.simplefilter("ignore")     # igraph: "there is already an 'id' attribute"
                net = self.construct(c)
                if c.sub == "factory":
                    c.V = self._factory_V
                for op in c.ops:
                    net = self.apply(net, op, c)
                o = observe(net)
                self.poked = None
                if c.poke and c.ctor != "igraph" and self.poke():
                    # the network must not depend on arrays the caller still holds
                    self.poked = observe(net)
        except Exception as e:  # noqa
            return None, "raise:" + type(e).__name__, e
        return o, show_obs(o), None


def observe(net):
    N = int(net.N)
    A = np.asarray(net.adjacency)
    dens = float(net.link_density)
    cells = round(dens * N * (N - 1)) if dens == dens and abs(dens) != float("inf") else 0
    o = {"N": N, "n_links": int(net.n_links),
         "link_density": canon_quotient(dens, cells, N * (N - 1)),
         "adjacency": [[int(v) for v in row] for row in A],
         "sp_A": [[int(v) for v in row] for row in net.sp_A.toarray()],
         "graph": canon_edges(net.graph.get_edgelist(), net.directed),
         "graph_n": int(net.graph.vcount()), "graph_ecount": int(net.graph.ecount()),
         "graph_directed": bool(net.graph.is_directed()), "directed": bool(net.directed)}
    w = net.node_weights
    o["node_weights"] = None if w is None else [exact(x) for x in w]
    o["total_node_weight"] = exact(net.total_node_weight)
    o["mean_node_weight"] = canon_quotient(net.mean_node_weight, o["total_node_weight"], N)
    try:
        o["link_attribute"] = [[exact(x) for x in row] for row in net.link_attribute(ATTR)]
    except KeyError:
        o["link_attribute"] = None
    try:
        o["link_attribute2"] = [[exact(x) for x in row] for row in net.link_attribute(ATTR2)]
    except KeyError:
        o["link_attribute2"] = None
    try:
        o["link_attribute3"] = [[exact(x) for x in row] for row in net.link_attribute(ATTR3)]
    except KeyError:
        o["link_attribute3"] = None
    # average_link_attribute(name) = link_attribute(name).mean(axis=1): reported as the exact
    # quotient (row sum of the reported matrix) / N when the float agrees with it
    for key, mk, name in (("avg", "link_attribute", ATTR), ("avg2", "link_attribute2", ATTR2)):
        try:
            av = net.average_link_attribute(name)
            o[key] = [canon_mean(x, row, N) for x, row in zip(av, o[mk])] \
                if o[mk] is not None and len(av) == N else [Fraction(float(x)) for x in av]
        except KeyError:
            o[key] = None
    g = getattr(net, "grid", None)
    o["grid"] = None if g is None or not hasattr(g, "grid") else \
        {k: [exact(x) for x in np.asarray(v, dtype=float).ravel()] for k, v in sorted(g.grid().items())}
    o["link_attribute_names"] = list(net.graph.es.attributes())     # igraph keeps insertion order
    # the edge attributes as the embedded graph object holds them, edge by edge (read without
    # link_attribute(); listed by edge, so independent of the order of the edge ids)
    for key, name in (("es", ATTR), ("es2", ATTR2), ("es3", ATTR3)):
        o[key] = es_pairs(net, name)
    o["find_link_attribute"] = [bool(net.find_link_attribute(a)) for a in (ATTR, ATTR2, ATTR3)]
    # what the embedded graph object carries (written by save, read by FromIGraph / Load)
    if "node_weight_nsi" in net.graph.vs.attribute_names():
        o["gvw"] = [exact(x) for x in net.graph.vs["node_weight_nsi"]]
    else:
        o["gvw"] = None
    return o


def es_pairs(net, name):
    """[(i, j, value)] of the edge attribute `name` of the embedded graph object, sorted by
    edge (an undirected edge as (smaller, larger)); None when the graph has no such attribute"""
    if name not in net.graph.es.attributes():
        return None
    d = bool(net.directed)
    rows = sorted((lo_hi(d, int(a), int(b)), k, v) for k, ((a, b), v)
                  in enumerate(zip(net.graph.get_edgelist(), net.graph.es[name])))
    return [(e[0], e[1], "None" if v is None else exact(v)) for e, _, v in rows]


def show_es(rows):
    if rows is None:
        return "none"
    return ";".join(f"{i},{j},{v if isinstance(v, str) else show_rat(v)}" for i, j, v in rows) or "-"


def show_obs(o):
    return "|".join([
        str(o["N"]), str(o["n_links"]), show_rat(o["link_density"]),
        show_mat(o["adjacency"]), show_edges(o["graph"]),
        "None" if o["node_weights"] is None else show_rats(o["node_weights"]),
        show_rat(o["total_node_weight"]), show_rat(o["mean_node_weight"]),
        "none" if o["link_attribute"] is None else show_mat(o["link_attribute"], show_rat),
        "none" if o["gvw"] is None else show_rats(o["gvw"]),
        "none" if o["link_attribute2"] is None else show_mat(o["link_attribute2"], show_rat),
        "none" if o["link_attribute3"] is None else show_mat(o["link_attribute3"], show_rat),
        ",".join(o["link_attribute_names"]) or "-",
        show_es(o["es"]), show_es(o["es2"]), show_es(o["es3"]),
        "none" if o["avg"] is None else show_rats(o["avg"]),
        "none" if o["avg2"] is None else show_rats(o["avg2"])])


MODEL_OPS = {"saveload:gml": "saveload_gml", "loadspatial:gml": "loadspatial_gml",
             "loadgeo:gml": "loadgeo_gml"}


def model_request(c):
    ops = [MODEL_OPS.get(op, op.split(":")[0]) for op in c.ops]    # save:<fmt> -> save
    kw = {}
    if c.sub:
        # a subclass constructor is GeoNetwork.__init__ / Network.__init__ on the matrix it
        # derived (CoupledClimateNetwork runs Network.__init__ once more on the result: theorem
        # derived_constructors); re-thresholding re-runs it on the live object, which forgets
        # everything that happened before
        # the Lean model derives the matrix itself (thresholdMat / recurrenceMat / resMat)
        kw = dict(ctor=c.sub if c.sub in ("climate", "coupled", "recurrence", "res") else "dense",
                  form="list", shape=(c.N, c.N), thr=c.sp.get("thr", 0))
        if "rethr" in ops:
            k = max(i for i, op in enumerate(ops) if op == "rethr")
            ops = ops[k + 1:]
            kw.update(A=c.sp["A2"], w=None, V=None, thr=c.sp["thr2"])
            if c.sub == "coupled":
                kw["ctor"] = "climate"      # set_threshold is ClimateNetwork's
    c2 = Case(**{**c.__dict__, "ops": ops, **kw})
    return request(c2)


# --------------------------------------------------------------------------
# oracle: the observables computed from the specification
# --------------------------------------------------------------------------

def expected(c):
    """Observables every representation of the specified simple graph must
    show after the specified history, or None when the input is outside the
    property (malformed).  Computed from the specification alone: the edge set,
    the weight vector, the attribute matrix and the statements executed."""
    N, directed = c.N, c.directed
    pairs = set((i, j) for i, j in c.edges)
    if any(i == j or not (0 <= i < N and 0 <= j < N) for i, j in pairs):
        return None
    def default_w():
        if c.cls == "geo":
            cl = np.cos(np.array(c.lats, dtype=np.float32) * np.pi / 180)
            return [exact(x) for x in [np.ones(N), cl, np.square(cl)][c.wtype]]
        return [Fraction(1)] * N
    w = list(c.w) if c.w is not None else default_w()
    has_grid = c.cls != "net" and c.sub not in ("factory", "recurrence")
    V = c.V                       # None: the attribute does not exist
    V2 = None if c.V is None else second_attr(c.V)      # the second attribute
    V3 = None                                           # the third: histories only
    # node weights stored on the embedded graph object (None: nothing stored)
    gvw = list(c.w) if (c.ctor == "igraph" and c.w is not None) else None
    if not directed:
        pairs |= set((j, i) for i, j in pairs)
    for op in c.ops:
        kind = op.split(":")[0].split("=")[0]
        if kind in ("ucopy", "edgelist", "pcopy", "copy", "saveload", "regraph", "split"):
            has_grid = False        # these return a plain Network
        if kind == "rethr":
            pairs = set(c.sp["edges2"])
            if not directed:
                pairs |= set((j, i) for i, j in pairs)
            w = default_w()
            V, V2, V3, gvw = None, None, None, None
        elif kind == "ucopy":
            directed = False
            pairs |= set((j, i) for i, j in pairs)
            V, V2, V3, gvw = None, None, None, None
        elif kind in ("edgelist", "pcopy"):
            V, V2, V3, gvw = None, None, None, None
        elif kind == "split":
            # splitted_copy(node, proportion): node N is new, linked to k and to k's neighbours;
            # w[k] is divided (1-p) : p; every link attribute is carried over, transformed like
            # the adjacency matrix (the link between the halves gets W[k, k] = 0)
            node, num, ex = op_args(op)
            k = node + N if node < 0 else node
            if not 0 <= k < N:
                return "IndexError"     # no such node: the call must not return a network
            if not pairs and (c.ctor == "igraph" or any(W is not None for W in (V, V2, V3))):
                # on an edgeless network set_link_attribute creates nothing, so whether the
                # attribute exists on the copy (which has a link) is not determined by the
                # specification: left to the exact correspondence with the model
                return None
            p = Fraction(num) / Fraction(2) ** ex
            def split_matrix(W, n=N, k=k, prs=frozenset(pairs)):
                M = [[W[i][j] if (i, j) in prs else Fraction(0) for j in range(n)] for i in range(n)]
                X = [row + [row[k]] for row in M]
                X.append(list(M[k]) + [M[k][k]])
                X[k][n] = X[n][k] = M[k][k]
                return X
            V, V2, V3 = [None if W is None else split_matrix(W) for W in (V, V2, V3)]
            pairs = set(pairs) | set((i, N) for i, j in pairs if j == k) \
                | set((N, j) for i, j in pairs if i == k) | {(k, N), (N, k)}
            w = list(w) + [p * w[k]]
            w[k] = (1 - p) * w[k]
            gvw = None
            N += 1
        elif kind == "copy":
            gvw = None
        elif kind in ("saveload", "loadspatial", "loadgeo", "save"):
            gvw = list(w)         # save stores the current weights, the file holds them
        elif kind == "setw":
            w = formula_w(N, *op_args(op))
        elif kind == "setwnone":
            w = [Fraction(1)] * N
        elif kind == "setattr":
            V = formula_v(N, directed, *op_args(op))
        elif kind == "delattr":
            V = None
        elif kind == "setattr2":
            V2 = formula_v(N, directed, *op_args(op))
        elif kind == "delattr2":
            V2 = None
        elif kind == "setattr3":
            V3 = formula_v(N, directed, *op_args(op))
        elif kind == "delattr3":
            V3 = None
        elif kind == "setadj":
            A2 = formula_a(N, directed, *op_args(op))
            pairs = set((i, j) for i in range(N) for j in range(N) if A2[i][j])
            V, V2, V3, gvw = None, None, None, None
        elif kind == "regraph":
            w = list(gvw) if gvw is not None else [Fraction(1)] * N
    A = [[1 if (i, j) in pairs else 0 for j in range(N)] for i in range(N)]
    nl = len(pairs) if directed else len(pairs) // 2
    e = {"N": N, "n_links": nl, "adjacency": A, "sp_A": A,
         "graph": canon_edges(pairs, directed), "directed": directed}
    if N >= 2:
        e["link_density"] = Fraction(nl, N * (N - 1)) if directed else Fraction(2 * nl, N * (N - 1))
    e["node_weights"] = list(w)
    e["total_node_weight"] = sum(w, Fraction(0))
    if N >= 1:
        e["mean_node_weight"] = e["total_node_weight"] / N
    e["gvw"] = gvw
    if V is not None:
        e["link_attribute"] = [[V[i][j] if A[i][j] else Fraction(0) for j in range(N)]
                               for i in range(N)]
    elif pairs:
        e["link_attribute"] = None
    else:       # no link: link_attribute(name) is the zero matrix for every name
        e["link_attribute"] = [[Fraction(0)] * N for _ in range(N)]
    for key, W in (("link_attribute2", V2), ("link_attribute3", V3)):
        if W is not None:
            e[key] = [[W[i][j] if A[i][j] else Fraction(0) for j in range(N)] for i in range(N)]
        elif pairs:
            e[key] = None
        else:
            e[key] = [[Fraction(0)] * N for _ in range(N)]
    if N >= 1:      # average_link_attribute: row means of the specified (masked) matrix
        for key, mk in (("avg", "link_attribute"), ("avg2", "link_attribute2")):
            e[key] = None if e[mk] is None else [sum(row, Fraction(0)) / N for row in e[mk]]
    if pairs:       # the embedded graph object holds the specified value on every edge
        for key, W in (("es", V), ("es2", V2), ("es3", V3)):
            e[key] = None if W is None else \
                [(i, j, W[i][j]) for i, j in canon_edges(pairs, directed)]
    if has_grid:    # the spatial embedding the network was given (SpatialNetwork / GeoNetwork Load)
        if c.cls == "geo":
            e["grid"] = {"lat": [Fraction(x) for x in c.lats],
                         "lon": [Fraction(i) for i in range(N)], "time": [Fraction(0), Fraction(1)]}
        else:
            e["grid"] = {"space": [Fraction(i) for i in range(N)] + [Fraction(0)] * N,
                         "time": [Fraction(0), Fraction(1)]}
    if pairs:       # with a link, an attribute exists iff it was set (find_link_attribute)
        e["find_link_attribute"] = [V is not None, V2 is not None, V3 is not None]
    return e


def close(a, b):
    if isinstance(a, (list, tuple)) and isinstance(b, (list, tuple)):
        return len(a) == len(b) and all(close(x, y) for x, y in zip(a, b))
    if a is None or b is None or isinstance(a, (bool, str)) or isinstance(b, (bool, str)):
        return a == b
    try:
        return abs(Fraction(a) - Fraction(b)) <= Fraction(1, 10 ** 9) * abs(Fraction(b))
    except (TypeError, ValueError, OverflowError):
        return False


def close_mean(a, b, rows):
    if a is None or b is None:
        return a is None and b is None
    if len(a) != len(b):
        return False
    try:
        for x, y, row in zip(a, b, rows):
            scale = sum((abs(v) for v in row), Fraction(0)) / max(len(row), 1)
            if abs(Fraction(x) - Fraction(y)) > Fraction(1, 10 ** 9) * scale:
                return False
    except (TypeError, ValueError, OverflowError):
        return False
    return True


def first_difference(o, e):
    for k in ["N", "directed", "n_links", "link_density", "adjacency", "sp_A", "graph",
              "node_weights", "total_node_weight", "mean_node_weight", "link_attribute",
              "link_attribute2", "link_attribute3", "gvw", "es", "es2", "es3"]:
        if k in e and not close(o[k], e[k]):
            return k
    # row means: tolerance relative to the mean magnitude of the specified row (entries of
    # opposite sign may cancel, and a text format perturbs each entry by < 2**-48 relative)
    for k, mk in (("avg", "link_attribute"), ("avg2", "link_attribute2")):
        if k in e and not close_mean(o[k], e[k], e[mk]):
            return k
    if "grid" in e:
        g = o.get("grid")
        if g is None or sorted(g) != sorted(e["grid"]) or \
                not all(close(g[k], e["grid"][k]) for k in g):
            return "grid"
    if o["graph_n"] != o["N"] or o["graph_directed"] != o["directed"]:
        return "graph"
    if o["graph_ecount"] != len(o["graph"]):
        return "graph_multiplicity"
    return None


def judge(ctx, c, o, ans, exc):
    e = expected(c)
    if e is None:
        return
    if e == "IndexError":
        # splitted_copy with an index that names no node (node >= N or node < -N)
        if not ans.startswith("raise:"):
            ctx.fail({"cls": c.cls, "ctor": c.label(), "op": "split", "kind": "no_raise",
                      "error": "IndexError"},
                     f"{c.cls} {c.label()} ops={c.ops} N={c.N}: splitted_copy with an index that "
                     f"names no node returned {ans[:80]!r} instead of raising IndexError",
                     {"case": c.describe(), "observed": ans})
        return
    op = c.ops[-1] if c.ops else "-"
    fmt = op.split(":")[1] if ":" in op else "-"
    size = "N<=1" if c.N <= 1 else "N>=2"
    base = {"cls": c.cls, "ctor": c.label(), "op": op.split(":")[0].split("=")[0], "format": fmt}
    rep = {"case": c.describe(), "request": model_request(c) if c.model and c.A is not None else None}
    if o is None:
        sig = dict(base, kind="raise", error=ans.split(":")[1], size=size)
        ctx.fail(sig, f"{c.cls} {c.label()} ops={c.ops} N={c.N} edges={len(c.edges)} raised "
                      f"{ans.split(':')[1]}: {exc}", dict(rep, observed=ans))
        return
    k = first_difference(o, e)
    ks = [] if k is None else [k]
    # the second attribute is judged on its own (its name survives GML, where the first
    # difference is one of the known losses of underscored names)
    if k != "link_attribute2" and not close(o["link_attribute2"], e["link_attribute2"]):
        ks.append("link_attribute2")
    # find_link_attribute(name) and the names the graph object carries (judged apart from GML,
    # whose renaming of underscored names is the known finding K3)
    if fmt != "gml" and not any(op.startswith(("saveload:gml", "loadspatial:gml", "loadgeo:gml"))
                                for op in c.ops):
        if k is None and "find_link_attribute" in e and o["find_link_attribute"] != e["find_link_attribute"]:
            ks.append("find_link_attribute")
        extra = [a for a in o["link_attribute_names"] if a not in (ATTR, ATTR2, ATTR3)]
        if extra:
            o["extra_link_attributes"] = extra
            ks.append("extra_link_attributes")
    for k in ks:
        sig = dict(base, kind="mismatch", observable=k, size=size)
        ctx.fail(sig, f"{c.cls} {c.label()} ops={c.ops}: {k} = {o.get(k)!r}, the specified "
                      f"graph has {e.get(k)!r}",
                 dict(rep, observable=k, expected=str(e.get(k)), observed=str(o.get(k))))


# --------------------------------------------------------------------------
# generators
# --------------------------------------------------------------------------

def all_graphs(N, directed):
    slots = [(i, j) for i in range(N) for j in range(N) if (i != j if directed else i < j)]
    for bits in itertools.product([0, 1], repeat=len(slots)):
        yield [s for s, b in zip(slots, bits) if b]


def random_graph(rng, N, directed, kind):
    slots = [(i, j) for i in range(N) for j in range(N) if (i != j if directed else i < j)]
    if kind == "empty" or not slots:
        return []
    if kind == "single":
        return [rng.choice(slots)]
    if kind == "full":
        return list(slots)
    if kind == "isolated":       # some nodes keep no link at all
        keep = set(rng.sample(range(N), max(2, N // 2)))
        slots = [s for s in slots if s[0] in keep and s[1] in keep]
        p = 0.5
    else:
        p = {"sparse": 0.15, "half": 0.5, "dense": 0.85}[kind]
    return [s for s in slots if rng.random() < p]


def weights_for(rng, N, kind):
    if kind == "none":
        return None
    if kind == "ones":
        return [Fraction(1)] * N
    if kind == "zeros":
        return [Fraction(0)] * N
    if kind == "scaled":      # extreme but exact: quarters times a power of two
        sc = Fraction(2) ** rng.choice([-40, -30, -17, 17, 30, 40])
        return [Fraction(rng.randrange(0, 41), 4) * sc for _ in range(N)]
    return [Fraction(rng.randrange(0, 41), 4) for _ in range(N)]


def attr_for(rng, N, directed):
    sc = Fraction(2) ** rng.choice([0, 0, 0, -40, -21, 21, 40])
    V = [[Fraction(rng.randrange(-12, 40), 4) * sc for _ in range(N)] for _ in range(N)]
    if not directed:
        for i in range(N):
            for j in range(i):
                V[i][j] = V[j][i]
    return V


def orient(rng, edges, directed, how):
    """the edge list handed to the constructor for the undirected graph
    `edges` (i<j): one orientation each, both, or with repetitions"""
    es = list(edges)
    if not directed:
        if how == "lower":
            es = [(j, i) for i, j in es]
        elif how == "mixed":
            es = [(j, i) if rng.random() < 0.5 else (i, j) for i, j in es]
        elif how == "both":
            es = es + [(j, i) for i, j in es]
    if how == "dup" and es:
        es = es + [rng.choice(es) for _ in range(1 + len(es) // 3)]
        if not directed:
            es = [(j, i) if rng.random() < 0.3 else (i, j) for i, j in es]
    rng.shuffle(es)
    return es


FORMATS = ["graphml", "graphmlz", "pickle", "gml"]


def split_op(rng, N=None):
    """`splitted_copy(node, proportion)`: indices from either end (a wrong one now and then when
    the size is known), dyadic proportions incl. 0, 1 and the default"""
    if N is None:
        node = rng.choice([-1, -1, 0, 1, -2])
    else:
        node = rng.choice([-1, 0, N - 1, -N, rng.randrange(-N, N), rng.randrange(-N, N),
                           rng.choice([N, -N - 1, 2 * N, -2 * N])
                           if rng.random() < 0.15 else rng.randrange(-N, N)])
    # (at most 3 significant bits: a weight keeps well under 40 after a few splits)
    num, e = rng.choice([(1, 1), (1, 1), (1, 2), (3, 2), (1, 3), (5, 3), (0, 0), (1, 0)])
    return "split=%d_%d_%d" % (node, num, e)


def history_ops(rng, first=None, no_split=False):
    """a multi-step history on one live object (continuing with the loaded / copied object
    where a statement returns a new one); GML (known findings) is kept out of histories"""
    ops = [first] if first else []
    fm = lambda: rng.choice(FORMATS[:3])  # noqa
    for _ in range(rng.randrange(2, 8)):
        r = rng.random()
        if r < 0.20:
            ops.append("setw=%d_%d_%d" % (rng.randrange(1, 13), rng.randrange(0, 13),
                                          rng.choice([0, 0, 0, 1, -3, -30, 24, 40, -40])))
        elif r < 0.24:
            ops.append("setwnone")
        elif r < 0.40:
            ops.append("setattr%s=%d_%d_%d_%d" % (rng.choice(["", "", "2", "3", "3"]),
                                                  rng.randrange(0, 17), rng.randrange(0, 17),
                                                  rng.randrange(0, 17), rng.choice([0, 0, 0, -35, 35])))
        elif r < 0.45:
            ops.append("delattr" + rng.choice(["", "2", "3"]))
        elif r < 0.62:
            ops.append("saveload:" + fm())
        elif r < 0.74:
            ops.append("save:" + fm())
        elif r < 0.84:
            ops.append("copy")
        elif r < 0.92:
            ops.append("regraph")
        elif r < 0.97:
            ops.append("setadj=%d_%d_%d" % (rng.randrange(0, 5), rng.randrange(0, 5), rng.randrange(0, 5)))
        elif r < 0.98 or no_split:
            ops.append(rng.choice(["ucopy", "edgelist", "pcopy"]))
        else:
            ops.append(split_op(rng))
            no_split = True         # one per history (each costs up to 3 bits of a weight)
    return ops


def cases_for(rng, N, directed, edges, quick, rich):
    """all construction paths of one specified graph"""
    out = []
    wk = rng.choice(["rand", "rand", "rand", "none", "ones", "zeros", "scaled", "scaled"])
    w = weights_for(rng, N, wk)
    V = attr_for(rng, N, directed) if rng.random() < 0.7 else None
    A = adjacency_of(N, directed, edges)
    ents = [(i, j, 1) for i in range(N) for j in range(N) if A[i][j]]
    base = dict(N=N, directed=directed, w=w, V=V)
    spec_edges = list(edges)

    def add(**kw):
        # how the caller's arrays are handed over: dtype of matrices, float width of
        # weights and attribute matrices (does not change the specified network)
        var = dict(adtype=rng.choice(["int", "int", "bool", "int8", "uint8", "int64", "f32", "f64"]),
                   wform=rng.choice(["list", "f64", "f32"]), vform=rng.choice(["f64", "f64", "f32"]),
                   autofmt=rng.random() < 0.25, poke=rng.random() < (1.0 if quick else 0.3))
        out.append(Case(**{**base, "edges": spec_edges, **var, **kw}))

    dense = dict(ctor="dense", shape=(N, N), A=A)
    forms = ["csc", "csr", "coo", "lil", "dok"]
    fmts = FORMATS if rich else rng.sample(FORMATS, 2)
    add(form="list", **dense)
    add(form="ndarray", **dense)
    for f in (forms if rich else rng.sample(forms, 2)):
        e2 = list(ents)
        if f == "coo":
            rng.shuffle(e2)
        add(ctor="coo", form=f, shape=(N, N), entries=e2)
    # sparse matrices with explicitly stored zeros (also on the diagonal), any order
    for f in (["csc", "csr", "coo"] if rich else [rng.choice(["csc", "csr", "coo"])]):
        zs = [(i, j, 0) for i in range(N) for j in range(N) if not A[i][j] and rng.random() < 0.3]
        e2 = list(ents) + zs
        rng.shuffle(e2)
        add(ctor="coo", form=f, shape=(N, N), entries=e2, zeros=True)
    # edge lists
    hows = ["upper", "lower", "mixed", "both", "dup"] if not directed else ["upper", "dup"]
    for how in (hows if rich else rng.sample(hows, min(3, len(hows)))):
        es = orient(rng, edges, directed, how)
        add(ctor="edges", form=how, edges=es, n_nodes=N)
        if es and max(max(e) for e in es) == N - 1 and rng.random() < 0.5:
            add(ctor="edges", form=how + ":auto", edges=es, n_nodes=None)
    if edges and rng.random() < 0.3:
        add(ctor="edges", form="ndarray", edges=list(edges), n_nodes=N,
            edtype=rng.choice(["int", "int32", "uint16", "int64"]))
    # igraph objects
    add(ctor="igraph", form="graph", edges=list(edges))
    add(ctor="igraph", form="graph-noweights", edges=list(edges), w=None)
    # igraph objects and files whose edges are in NO particular order (edge ids do not follow
    # the adjacency order; an undirected edge listed in either orientation): FromIGraph / Load
    # keep that object, and everything that loops over graph.es must not care
    def own_order():
        es = [(j, i) if (not directed and rng.random() < 0.5) else (i, j) for i, j in edges]
        rng.shuffle(es)
        return es

    def attr_history():
        # attributes assigned AFTER the object was adopted, then read back / copied / saved
        h = ["setattr%s=%d_%d_%d_%d" % (rng.choice(["", "2", "3"]), rng.randrange(1, 17),
                                        rng.randrange(1, 17), rng.randrange(0, 17),
                                        rng.choice([0, 0, 0, -35, 35]))]
        return h + (history_ops(rng) if rng.random() < 0.6 else
                    [rng.choice(["copy", "regraph", "saveload:" + rng.choice(FORMATS[:3])])]
                    if rng.random() < 0.7 else [])

    add(ctor="igraph", form="graph-shuffled", edges=own_order())
    add(ctor="igraph", form="graph-shuffled", edges=own_order(), V=None, ops=attr_history())
    ffmts = FORMATS[:3] if rich else [rng.choice(FORMATS[:3])]
    for f in ffmts:
        add(ctor="igraph", form="file:" + f, edges=own_order())
        add(ctor="igraph", form="file:" + f, edges=own_order(), V=None, ops=attr_history())
    if edges and max(max(e) for e in edges) == N - 1:
        # a plain edge list file stores neither weights nor attributes (and no isolated
        # trailing nodes): the documented way to import somebody else's network
        add(ctor="igraph", form="file:edgelist", edges=own_order(), w=None, V=None,
            ops=attr_history())
    if N >= 1 and rng.random() < (0.5 if not rich else 1.0):
        f = rng.choice(FORMATS[:3])
        add(cls="spatial", ctor="igraph", form="file:" + f, edges=own_order(),
            ops=attr_history() if rng.random() < 0.5 else [])
        lats2 = [rng.choice([0.0, 60.0, -60.0, 45.0, 30.0]) for _ in range(N)]
        add(cls="geo", wtype=1, lats=lats2, ctor="igraph", form="file:" + f, edges=own_order(),
            w=rng.choice([None, w]), ops=attr_history() if rng.random() < 0.5 else [])
    # operations
    add(form="list", ops=["copy"], **dense)
    add(form="list", ops=["ucopy"], **dense)
    add(form="list", ops=["edgelist"], **dense)
    add(form="ndarray", ops=["pcopy"], **dense)
    add(ctor="edges", form="upper", edges=list(edges), n_nodes=N, ops=["copy"])
    # splitted_copy: on its own (every start), followed by the other paths, after attributes
    # were assigned, and on graph objects whose edge ids are in their own order
    if N >= 2:
        add(form="list", ops=[split_op(rng, N)], **dense)
        add(form=rng.choice(["list", "ndarray"]), **dense,
            ops=[split_op(rng, N), rng.choice(["copy", "regraph", "ucopy", "edgelist", "pcopy",
                                                "saveload:" + rng.choice(FORMATS[:3])])])
        add(ctor="igraph", form="graph-shuffled", edges=own_order(),
            ops=[split_op(rng, N)] + (history_ops(rng) if rng.random() < 0.5 else []))
        add(ctor="coo", form=rng.choice(forms), shape=(N, N), entries=list(ents),
            ops=attr_history() + [split_op(rng)] + ([split_op(rng)] if rng.random() < 0.3 else []))
    add(ctor="igraph", form="graph", edges=list(edges), ops=["copy"])
    for fmt in fmts:
        add(form="list", ops=["saveload:" + fmt], **dense)
    add(ctor="igraph", form="graph", edges=list(edges), ops=["saveload:" + rng.choice(fmts[:3] if "gml" in fmts[3:] else fmts)])
    add(form="list", ops=["copy", "saveload:" + rng.choice(["graphml", "pickle"]), "copy"], **dense)
    # multi-step histories on one live object
    for _ in range(2 if rich else 1):
        start = rng.choice(["dense", "dense", "edges", "igraph", "coo"])
        hops = history_ops(rng)
        if start == "dense":
            add(form=rng.choice(["list", "ndarray"]), ops=hops, **dense)
        elif start == "edges":
            add(ctor="edges", form="upper", edges=list(edges), n_nodes=N, ops=hops)
        elif start == "igraph":
            add(ctor="igraph", form="graph", edges=list(edges), ops=hops)
        else:
            add(ctor="coo", form=rng.choice(forms), shape=(N, N), entries=list(ents), ops=hops)
    if rng.random() < (0.3 if not rich else 1.0):
        add(cls="spatial", form="list", **dense,
            ops=history_ops(rng, rng.choice([None, "loadspatial:" + rng.choice(FORMATS[:3])])))
    # spatial / geo
    nov = dict(w=None)
    add(cls="spatial", form="list", **dense, **nov)
    add(cls="spatial", ctor="edges", form="upper", edges=list(edges), n_nodes=N, **nov)
    add(cls="spatial", form="list", ops=["loadspatial:" + rng.choice(fmts)], **dense, **nov)
    add(cls="spatial", form="list", ops=["loadspatial:" + rng.choice(fmts)], **dense)
    add(cls="spatial", form="list", ops=["copy"], **dense)
    lats = [rng.choice([0.0, 60.0, -60.0, 45.0, 30.0]) for _ in range(N)]
    for wt in ((0, 1, 2) if rich else rng.sample((0, 1, 2), 2)):
        add(cls="geo", wtype=wt, lats=lats, form="list", **dense, **nov)
    add(cls="geo", wtype=rng.choice((0, 1)), lats=lats, form="list",
        ops=["loadgeo:" + rng.choice(fmts)], **dense, **nov)
    add(cls="geo", wtype=1, lats=lats, form="list", ops=["copy"], **dense, **nov)
    add(cls="geo", wtype=rng.choice((0, 1, 2)), lats=lats, form="list",
        ops=["loadgeo:" + rng.choice(fmts)], **dense)
    if rng.random() < (0.3 if not rich else 1.0):
        add(cls="geo", wtype=rng.choice((0, 1)), lats=lats, form="list", **dense, **nov,
            ops=history_ops(rng, rng.choice([None, "loadgeo:" + rng.choice(FORMATS[:3])])))
    return out


def subclass_cases(rng, quick):
    """ClimateNetwork / CoupledClimateNetwork / RecurrenceNetwork / ResNetwork (their constructors
    derive a matrix and pass it through GeoNetwork.__init__ / Network.__init__, i.e. the same
    adjacency setter and weight setter), re-thresholding on the live object, the documented
    factories and Network.Model — each followed by the usual operations and histories"""
    out = []

    def var():
        return dict(wform=rng.choice(["list", "f64", "f32"]), vform=rng.choice(["f64", "f64", "f32"]),
                    autofmt=rng.random() < 0.25, poke=rng.random() < 0.5)

    def follow(first=None, rethr=False):
        r = rng.random()
        if r < 0.25:
            ops = []
        elif r < 0.5:
            ops = [rng.choice(["copy", "ucopy", "edgelist", "pcopy", "regraph",
                               "saveload:" + rng.choice(FORMATS)])]
        else:
            ops = history_ops(rng)
        if rethr and rng.random() < 0.6:
            # only while the object still is the subclass instance
            keep = 0
            while keep < len(ops) and ops[keep].split(":")[0].split("=")[0] not in (
                    "copy", "ucopy", "edgelist", "pcopy", "regraph", "saveload", "split"):
                keep += 1
            ops.insert(rng.randrange(0, keep + 1), "rethr")
        return ops

    def sim_matrix(N, directed):
        # |values| are multiples of 1/8 in [0, 1] (exact in float32), signs mixed: the class
        # takes the absolute value
        S = [[Fraction(rng.randrange(0, 9), 8) * rng.choice([1, 1, -1]) for _ in range(N)]
             for _ in range(N)]
        for i in range(N):
            S[i][i] = Fraction(1)
            if not directed:
                for j in range(i):
                    S[i][j] = S[j][i]
        return S

    def above(S, thr, N):
        return [(i, j) for i in range(N) for j in range(N) if i != j and abs(S[i][j]) > thr]

    for _ in range(40 if quick else 300):
        N = rng.randrange(2, 9 if quick else 16)
        d = rng.random() < 0.35
        sub = rng.choice(["climate", "climate", "coupled"])
        S = sim_matrix(N, d)
        # thresholds on and between the values (strictly above = linked), incl. none / all linked
        thr, thr2 = (Fraction(rng.randrange(0, 18), 16) for _ in range(2))
        e1, e2 = above(S, thr, N), above(S, thr2, N)
        lats = [rng.choice([0.0, 60.0, -60.0, 45.0, 30.0]) for _ in range(N)]
        w = weights_for(rng, N, "rand") if rng.random() < 0.3 else None
        V = attr_for(rng, N, d) if rng.random() < 0.5 else None
        out.append(Case(sub=sub, cls="geo", wtype=rng.choice((0, 1, 1, 2)), lats=lats, N=N,
                        directed=d, edges=e1 if d else [p for p in e1 if p[0] < p[1]],
                        A=adjacency_of(N, True, e1), form="thr", w=w, V=V,
                        sp=dict(S=S, thr=thr, thr2=thr2, edges2=e2, A2=adjacency_of(N, True, e2),
                                n1=rng.randrange(1, N), sdtype=rng.choice(["float64", "float32"])),
                        ops=follow(rethr=True), **var()))
    for _ in range(25 if quick else 200):
        N = rng.randrange(2, 10 if quick else 20)
        x = [rng.randrange(0, 12) * rng.choice([1, 1, 4]) for _ in range(N)]
        thr, thr2 = (Fraction(2 * rng.randrange(0, 8) + 1, 2) for _ in range(2))  # half-integers
        near = lambda t: [(i, j) for i in range(N) for j in range(N)  # noqa
                          if i != j and abs(x[i] - x[j]) < t]
        e1, e2 = near(thr), near(thr2)
        w = weights_for(rng, N, "rand") if rng.random() < 0.4 else None
        V = attr_for(rng, N, False) if rng.random() < 0.5 else None
        out.append(Case(sub="recurrence", cls="net", N=N, directed=False,
                        edges=[p for p in e1 if p[0] < p[1]], A=adjacency_of(N, True, e1),
                        form=rng.choice(["supremum", "manhattan", "euclidean"]), w=w, V=V,
                        sp=dict(series=x, thr=thr, thr2=thr2, edges2=e2, A2=adjacency_of(N, True, e2),
                                sdtype=rng.choice(["float64", "float32"])),
                        ops=follow(rethr=True), **var()))
        out[-1].sp["metric"] = out[-1].form     # scalar series: the three metrics coincide
    for _ in range(20 if quick else 150):
        N = rng.randrange(2, 9 if quick else 16)
        edges = random_graph(rng, N, False, rng.choice(["empty", "single", "sparse", "half", "full",
                                                        "isolated"]))
        R = [[Fraction(0)] * N for _ in range(N)]
        for i, j in edges:      # positive resistances on the links, exact powers of two times quarters
            R[i][j] = R[j][i] = Fraction(rng.randrange(1, 20), 4) * Fraction(2) ** rng.choice([0, 0, -10, 12])
        lats = [rng.choice([0.0, 60.0, -60.0, 45.0, 30.0]) for _ in range(N)]
        out.append(Case(sub="res", cls="geo", wtype=rng.choice((0, 1, 2)), lats=lats, N=N,
                        directed=False, edges=list(edges), A=adjacency_of(N, False, edges),
                        form="resistances", w=None, V=attr_for(rng, N, False) if rng.random() < 0.5 else None,
                        sp=dict(S=R, sdtype=rng.choice(["float64", "float32"])),
                        ops=follow(), **var()))
    # Network.Model: the adjacency matrix the generator returns (same seed) is the input
    import random
    from pyunicorn.core import Network
    import scipy.sparse as sps
    for _ in range(16 if quick else 80):
        n = rng.randrange(3, 12 if quick else 40)
        name, kw = rng.choice([
            ("ErdosRenyi", dict(n_nodes=n, n_links=rng.randrange(0, n * (n - 1) // 2 + 1))),
            ("ErdosRenyi", dict(n_nodes=n, link_probability=rng.choice([0.0, 0.2, 0.5, 1.0]))),
            ("BarabasiAlbert", dict(n_nodes=n, n_links_each=rng.randrange(1, 3))),
            ("BarabasiAlbert_igraph", dict(n_nodes=n, n_links_each=rng.randrange(1, 4))),
            ("Configuration", dict(degree=[rng.randrange(0, 4) for _ in range(n)]))])
        if name == "Configuration" and sum(kw["degree"]) % 2:
            kw["degree"][0] += 1
        if name == "BarabasiAlbert":
            kw["n_nodes"] = max(kw["n_nodes"], 2 * kw["n_links_each"] + 2)
        seed = rng.randrange(10 ** 6)
        try:
            with contextlib.redirect_stdout(io.StringIO()):
                random.seed(seed)
                np.random.seed(seed)
                A0 = getattr(Network, name)(**kw)
        except Exception:  # noqa  (the generator itself refuses the parameters)
            continue
        A0 = A0.toarray() if sps.issparse(A0) else np.asarray(A0)
        N = int(A0.shape[0])
        edges = [(int(i), int(j)) for i, j in zip(*np.nonzero(A0)) if i < j]
        out.append(Case(sub="model", cls="net", N=N, directed=False, edges=edges,
                        A=adjacency_of(N, False, edges), form=name, w=None, V=None,
                        sp=dict(name=name, kw=kw, seed=seed, n_links=kw.get("n_links")),
                        ops=follow(), **var()))
    # documented factories
    doc_edges = [(0, 3), (0, 4), (0, 5), (1, 2), (1, 3), (1, 4), (2, 4)]
    doc_w = [Fraction(x, 10) for x in (15, 17, 19, 21, 23, 25)]
    facts = [("Network.SmallTestNetwork", doc_edges, doc_w),
             ("Network.SmallDirectedTestNetwork", None, doc_w),
             ("SpatialNetwork.SmallTestNetwork", None, None),
             ("GeoNetwork.SmallTestNetwork", None, None),
             ("InteractingNetworks.SmallTestNetwork", None, None),
             ("ClimateNetwork.SmallTestNetwork", doc_edges, None),
             ("ResNetwork.SmallTestNetwork", [(0, 1), (1, 2), (1, 3), (2, 3), (3, 4)], None),
             ("ResNetwork.SmallComplexNetwork", None, None)]
    for name, edges, w in facts:
        for ops in [[], ["copy"], ["saveload:graphml"], ["saveload:pickle"], ["ucopy"], ["edgelist"],
                    ["pcopy"], ["regraph"], history_ops(rng), history_ops(rng)]:
            out.append(Case(sub="factory", cls="net", N=0, directed=False, edges=edges or [],
                            form=name, w=None if w is None else list(w), model=False,
                            sp=dict(name=name, edges=edges), ops=ops, **{**var(), "vform": "f64"}))
    return out



def malformed_cases(rng):
    """inputs outside the property: correspondence only (error behaviour and
    multiplicities of the sparse formats)"""
    out = []
    for _ in range(12):
        N = rng.randrange(2, 6)
        d = rng.random() < 0.5
        # COO that stores a coordinate twice / stores zeros
        ents = []
        for _ in range(rng.randrange(1, 8)):
            i, j = rng.randrange(N), rng.randrange(N)
            if i != j:
                ents.append((i, j, rng.choice([1, 1, 1, 0, 2])))
        out.append(Case(N=N, directed=d, ctor="coo", form="coo", shape=(N, N), entries=ents,
                        edges=[], oracle=False))
        out.append(Case(N=N, directed=d, ctor="coo", form="csr", shape=(N, N), entries=ents,
                        edges=[], oracle=False))
    for M, N in ((2, 3), (3, 2), (1, 2)):
        out.append(Case(N=N, directed=False, ctor="dense", form="ndarray", shape=(M, N),
                        A=[[0] * N for _ in range(M)], edges=[], oracle=False))
    out.append(Case(N=3, directed=False, ctor="dense", form="list", shape=(3, 3),
                    A=[[0, 1, 0], [1, 0, 0], [0, 0, 0]], edges=[(0, 1)],
                    w=[Fraction(1), Fraction(2)], oracle=False))
    out.append(Case(N=3, directed=False, ctor="edges", form="upper", edges=[(0, 3)], n_nodes=3,
                    oracle=False))
    out.append(Case(N=3, directed=True, ctor="edges", form="upper", edges=[(2, 1), (4, 0)],
                    n_nodes=4, oracle=False))
    out.append(Case(N=0, directed=False, ctor="edges", form="upper", edges=[], n_nodes=None,
                    oracle=False))
    # asymmetric matrix in an undirected network (documented as invalid)
    out.append(Case(N=3, directed=False, ctor="dense", form="list", shape=(3, 3),
                    A=[[0, 1, 0], [0, 0, 1], [0, 0, 0]], edges=[], oracle=False))
    return out


# --------------------------------------------------------------------------

def run(ctx):
    rng = ctx.rng
    quick = ctx.tier == "quick"
    ctx.rule = ("every simple graph on <= %d nodes (directed and undirected) and random graphs "
                "(empty / single link / sparse / half / dense / complete / with isolated nodes) on "
                "up to %d nodes, each through dense list, ndarray, scipy csc/csr/coo/lil/dok, edge "
                "lists (one / other / mixed / both orientations, repeated entries, n_nodes given or "
                "inferred), sparse matrices with stored zeros, igraph object (edge ids sorted or in no "
                "particular order, undirected edges in either orientation), files written by igraph "
                "itself or by hand (edge list) loaded by Network / SpatialNetwork / GeoNetwork.Load, "
                "set_link_attribute on the adopted object, copy, undirected_copy, "
                "permuted_copy(identity), edge_list() round trip, save->Load in "
                "graphml/graphmlz/pickle/gml (format given or detected), histories of 2-8 statements "
                "on one live object (reassign weights / attribute / adjacency, save, load, copy, "
                "FromIGraph(net.graph)), caller arrays of several dtypes and float widths, "
                "power-of-two rescalings, Network / SpatialNetwork / GeoNetwork; "
                "distinct = distinct request line; non-trivial = at least 2 nodes and one link"
                % ((3, 12) if quick else (4, 30)))
    ctx.assumptions.append(
        "igraph's graphml / graphmlz / pickle readers return the graph that was written "
        "(vertex and edge attributes included): hypothesis `hstore` of theorems saveLoad_ofGraph / statement_spec / history_spec / saveLoad_coherent, "
        "exercised by the save->Load correspondence")
    ctx.proofs()
    tmp = tempfile.mkdtemp(prefix="C05-")
    try:
        impl = Impl(tmp)
        specs = []
        for N in range(0, 4 if quick else 5):
            for d in (False, True):
                gs = list(all_graphs(N, d))
                if len(gs) > (64 if quick else 400):
                    gs = rng.sample(gs, 64 if quick else 400)
                specs += [(N, d, g, N <= 2 or rng.random() < (0.15 if quick else 0.3)) for g in gs]
        kinds = ["empty", "single", "sparse", "half", "dense", "full", "isolated"]
        for _ in range(110 if quick else 440):
            N = rng.randrange(2, 13 if quick else 31)
            d = rng.random() < 0.5
            specs.append((N, d, random_graph(rng, N, d, rng.choice(kinds)),
                          rng.random() < (0.1 if quick else 0.3)))
        cases = []
        for N, d, g, rich in specs:
            cs = cases_for(rng, N, d, g, quick, rich)
            if N == 0:      # [] is not a 0 x 0 matrix and a grid needs a node
                cs = [c for c in cs if c.cls == "net" and not (c.ctor == "dense" and c.form == "list")]
            cases += cs
        cases += malformed_cases(rng)
        cases += subclass_cases(rng, quick)

        reqs, answers, results = [], [], []
        for c in cases:
            corr = True
            o, ans, exc = impl.run(c)
            results.append((c, o, ans, exc))
            if o is not None and impl.poked is not None:
                ctx.count("caller-arrays-overwritten-afterwards")
                if impl.poked != o:
                    k = [k for k in o if impl.poked[k] != o[k]][0]
                    ctx.fail({"kind": "aliasing", "cls": c.cls, "ctor": c.label(), "observable": k},
                             f"{c.cls} {c.label()} ops={c.ops}: {k} changes when the caller overwrites "
                             f"the arrays it handed to the constructor",
                             {"case": c.describe(), "observable": k, "before": str(o[k]),
                              "after": str(impl.poked[k])})
            nontriv = c.N >= 2 and len(c.edges) >= 1
            rq = model_request(c) if c.model else "oracle-only %s %s" % (c.label(), ",".join(c.ops))
            ctx.case(rq, nontriv, {"request": rq[:400]} if c.N <= 4 else None)
            ctx.count(f"cls:{c.cls}")
            ctx.count(f"ctor:{c.label()}")
            for op in c.ops:
                ctx.count("op:" + op.split("=")[0])
            if len(c.ops) >= 2:
                ctx.count("history:%d-statements" % len(c.ops))
            if c.ctor in ("dense", "coo") and c.form != "list":
                ctx.count("dtype:" + c.adtype)
            if c.w is not None:
                ctx.count("weights:" + c.wform)
            ctx.count("directed" if c.directed else "undirected")
            ctx.count("N=%s" % (c.N if c.N <= 4 else ("5-12" if c.N <= 12 else "13-30")))
            ctx.count("links=%s" % (len(c.edges) if len(c.edges) <= 1 else ">1"))
            ctx.count("answer:" + (ans if o is None else "ok"))
            if c.sub:
                ctx.count("sub:" + c.sub)
            if corr and c.model:
                reqs.append(rq)
                answers.append(ans)
        ctx.correspond("Lean Repr model == Network/SpatialNetwork/GeoNetwork objects "
                       "(all constructor paths and operations)", reqs, answers)
        for c, o, ans, exc in results:
            if c.oracle:
                judge(ctx, c, o, ans, exc)
        climate_load(ctx, impl)
        reassign_histories(ctx, impl, rng, quick)
    finally:
        shutil.rmtree(tmp, ignore_errors=True)


def reassign_histories(ctx, impl, rng, quick):
    """oracle only: a network that already went through a file / an igraph object gets new
    node weights and a new link attribute and is saved again — the second file must hold the
    *current* weights and attributes (every path, repeated)."""
    import igraph
    from pyunicorn.core import Network
    for rep in range(6 if quick else 40):
        N = rng.randrange(3, 8)
        A = np.zeros((N, N), dtype=int)
        for i in range(N):
            for j in range(i):
                if rng.random() < 0.5:
                    A[i, j] = A[j, i] = 1
        if A.sum() == 0:
            A[0, 1] = A[1, 0] = 1
        w1 = np.array([rng.randrange(1, 9) / 4 for _ in range(N)])
        w2 = np.array([rng.randrange(9, 17) / 4 for _ in range(N)])
        V2 = np.triu((np.random.RandomState(rep).randint(1, 9, (N, N)) / 4) * A, 1)
        V2 = V2 + V2.T
        fmt = rng.choice(["graphml", "graphmlz", "pickle"])
        start = rng.choice(["saveload", "fromigraph", "copy"])
        try:
            with contextlib.redirect_stdout(io.StringIO()):
                net = Network(adjacency=A, node_weights=w1, silence_level=3)
                f1, f2 = impl.path(fmt), impl.path(fmt)
                if start == "saveload":
                    Network.save(net, f1, fmt)
                    net = Network.Load(f1, fmt, silence_level=3)
                elif start == "fromigraph":
                    Network.save(net, f1, fmt)      # stores the weights on the graph
                    net = Network.FromIGraph(net.graph, silence_level=3)
                else:
                    net = net.copy()
                net.node_weights = w2
                net.set_link_attribute(ATTR, V2)
                Network.save(net, f2, fmt)
                back = Network.Load(f2, fmt, silence_level=3)
                o1, o2 = observe(net), observe(back)
        except Exception as e:  # noqa
            ctx.fail({"kind": "raise", "cls": "net", "op": "reassign-then-saveload",
                      "error": type(e).__name__},
                     f"reassigning weights after {start} and saving again raised {type(e).__name__}: {e}",
                     {"adjacency": A.tolist(), "format": fmt, "start": start})
            continue
        ctx.case(("reassign", A.tobytes().hex(), fmt, start), True,
                 {"history": [start, "node_weights = w2", "set_link_attribute", "save", "Load"],
                  "format": fmt})
        ctx.count("op:reassign-then-saveload")
        exp = {"node_weights": [exact(x) for x in w2], "total_node_weight": exact(w2.sum())}
        for k in OBS:
            want = exp.get(k, o1[k])
            if not close(o2[k], want):
                ctx.fail({"kind": "mismatch", "cls": "net", "op": "reassign-then-saveload",
                          "observable": k},
                         f"after {start}; node_weights = w2; save({fmt}); Load: {k} = {o2[k]!r} "
                         f"but the saved network has {want!r}",
                         {"adjacency": A.tolist(), "w1": w1.tolist(), "w2": w2.tolist(),
                          "format": fmt, "start": start, "observable": k})
                break


def climate_load(ctx, impl):
    """ClimateNetwork.save -> ClimateNetwork.Load (oracle only)"""
    from pyunicorn.climate import ClimateNetwork
    for fmt in ("graphml", "pickle"):
        try:
            with contextlib.redirect_stdout(io.StringIO()):
                net = ClimateNetwork.SmallTestNetwork()
                fs = (impl.path(fmt), impl.path("grid"), impl.path("sim"))
                net.save(fs, fmt)
                m = ClimateNetwork.Load(fs, fmt, silence_level=3)
                o1, o2 = observe(net), observe(m)
            ctx.case(("climate", fmt), True)
            ctx.count("cls:climate")
            for k in OBS[:-1]:
                if not close(o2[k], o1[k]):
                    ctx.fail({"kind": "mismatch", "cls": "climate", "op": "saveload",
                              "format": fmt, "observable": k},
                             f"ClimateNetwork save->Load changes {k}",
                             {"object": "ClimateNetwork.SmallTestNetwork()", "format": fmt,
                              "expected": str(o1[k]), "observed": str(o2[k])})
                    break
        except Exception as e:  # noqa
            ctx.case(("climate", fmt), True)
            ctx.count("cls:climate")
            ctx.fail({"kind": "raise", "cls": "climate", "op": "saveload",
                      "error": type(e).__name__},
                     f"ClimateNetwork.Load of a saved ClimateNetwork raised {type(e).__name__}: {e}",
                     {"object": "ClimateNetwork.SmallTestNetwork()", "format": fmt,
                      "call": "net.save((f, g, s), fmt); ClimateNetwork.Load((f, g, s), fmt)"})
