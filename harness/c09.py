"""C09 — similarity networks link exactly the pairs above the threshold.

proof  : lean/Pyunicorn/Properties/C09.lean (link_iff, antitone, symmetry, density bounds of the
         quantile rule, consistency after every setter history) about the model
         lean/Pyunicorn/Model/Similarity.lean and the gen_arith-generated index expressions
tie    : exact correspondence of the model with ClimateNetwork (constructor + setter histories,
         threshold_from_link_density) on dyadic similarity matrices; gen_arith for the index,
         comparison, stride and density expressions
search : the statement itself in exact rational arithmetic on the implementation (entry-wise
         link rule, density bound / tie gap, mutual consistency, monotonicity, fresh twin),
         also through the data-driven subclasses
"""
import atexit
import contextlib
import io
import math
import os
import shutil
import struct
import tempfile
from fractions import Fraction

import numpy as np

from . import common  # noqa: F401

A_STEEP, D_MIN = 20, 0.05          # documented defaults of the distance weight


# --------------------------------------------------------------------------
# encoding
# --------------------------------------------------------------------------

def fr(x):
    return Fraction(float(x))


def enc_fr(q):
    q = Fraction(q)
    return str(q.numerator) if q.denominator == 1 else f"{q.numerator}/{q.denominator}"


def enc_mat(M):
    return ";".join(",".join(enc_fr(fr(v)) for v in row) for row in M) or "-"


def bits(x):
    return struct.unpack("<Q", struct.pack("<d", float(x)))[0]


def canon_density(ld, N):
    """the implementation's float density as the exact fraction nnz / (N (N-1)) it denotes"""
    M = N * (N - 1)
    x = float(ld) * M
    r = round(x) if math.isfinite(x) else 0
    if M and abs(x - r) < 1e-6:
        return enc_fr(Fraction(r, M))
    return f"inexact:{ld!r}"


def state_of(net):
    A = np.asarray(net.adjacency)
    return (enc_fr(fr(net.threshold())) + "|" +
            (",".join(str(int(v)) for v in A.flatten()) or "-") + "|" +
            str(int(net.n_links)) + "|" + canon_density(net.link_density, A.shape[0]))


# --------------------------------------------------------------------------
# generators
# --------------------------------------------------------------------------

def gen_grid(rng, N):
    """nodes in clusters: pairs inside a cluster are closer than ~0.3 rad (weight < 1), pairs of
    different clusters are > 0.6 rad apart (float32 weight exactly 1)"""
    from pyunicorn.core import GeoGrid
    centres = [(-60, -150), (-20, -60), (10, 20), (50, 100), (75, -20)]
    lat, lon = [], []
    for _ in range(N):
        c = rng.choice(centres[:rng.choice([1, 2, 3, 5])])
        lat.append(c[0] + rng.choice([0, 0, 1, 2.5, 5, 8]) * rng.choice([-1, 1]))
        lon.append(c[1] + rng.choice([0, 0, 1, 2.5, 5, 8]) * rng.choice([-1, 1]))
    return GeoGrid(np.arange(3.0), np.array(lat, dtype=float), np.array(lon, dtype=float),
                   silence_level=3)


def damp_of(grid):
    """documented weight 0.5 (tanh(a (d - d_min)) + 1): float32 evaluation (what the model is
    fed, as exact rationals) and an independent float64 evaluation for the oracle"""
    ang = grid.angular_distance()
    d32 = 0.5 * (np.tanh(A_STEEP * (ang - D_MIN)) + 1)
    d64 = np.array([[0.5 * (math.tanh(A_STEEP * (float(x) - D_MIN)) + 1) for x in row]
                    for row in ang])
    return np.asarray(d32), d64


def gen_sim(rng, N):
    """dyadic similarity matrix (multiples of 1/16 in [-1, 1]); returns (S0, tags)"""
    levels = rng.choice([1, 2, 3, 5, 9, 33])
    pool = rng.sample(range(-16, 17), min(levels, 33))
    if rng.random() < 0.3:
        pool = [abs(p) for p in pool]
    S = np.array([[rng.choice(pool) / 16 for _ in range(N)] for _ in range(N)], dtype=float)
    sym = rng.random() < 0.6
    if sym:
        S = np.triu(S) + np.triu(S, 1).T
    diag = rng.choice(["one", "one", "zero", "random", "neg-one"])
    if diag == "one":
        np.fill_diagonal(S, 1.0)
    elif diag == "zero":
        np.fill_diagonal(S, 0.0)
    elif diag == "neg-one":
        np.fill_diagonal(S, -1.0)
    return S, {"sym": sym, "diag": diag, "levels": levels}


def f32_exact(x):
    return float(np.float32(x)) == float(x)


def gen_threshold(rng, S, scale=1.0):
    """threshold for similarities that are multiples of scale/16; float32-representable or far
    (relatively) from every entry, so the float32 comparison of the implementation is decisive"""
    vals = sorted(set(abs(float(v)) for v in np.asarray(S).flatten())) or [0.0]
    while True:
        r = rng.random()
        if r < 0.4:
            t = rng.choice(vals)                             # tie with an entry
        elif r < 0.7:
            t = scale * rng.randrange(-4, 36) / 32           # between entries, below 0, above 1
        elif r < 0.8:
            t = rng.choice(vals) + scale * rng.choice([-1, 1]) / 64
        elif r < 0.88:
            t = scale * rng.choice([0.0, 1.0, -0.5, 2.0])
        elif r < 0.95:
            t = scale * rng.uniform(-0.1, 1.1)               # arbitrary double
        else:
            t = rng.choice([2.0 ** 100, -2.0 ** 100, 2.0 ** -60, -2.0 ** -60, 3e-39, 1 / 3, 0.1])
        # nearest value a similarity of this case can take (multiples of scale/16)
        m = round(t / (scale / 16)) * (scale / 16)
        if f32_exact(t) or abs(t - m) > 1e-5 * max(abs(m), abs(t)):
            return t


def gen_density(rng, N):
    M = max(N * (N - 1), 1)
    r = rng.random()
    if r < 0.4:
        return rng.randrange(0, M + 1) / M           # rho * M integral up to rounding
    if r < 0.55:
        return rng.choice([0.0, 1.0, 0.5, 0.25, 0.75])
    if r < 0.65:
        return rng.choice([0.1, 0.2, 0.3, 0.7, 0.9, 0.05, 0.95])
    if r < 0.75:                                     # extreme but valid requests
        return rng.choice([5e-324, 1e-300, 2.0 ** -53, 1 - 2.0 ** -53, 1 - 2.0 ** -52,
                           0.5 - 2.0 ** -54, 0.5 + 2.0 ** -53, 1 / M, 1 - 1 / M,
                           (M - 1) / M + 2.0 ** -53, 1 / 3, 2 / 3])
    return rng.random()


def gen_ops(rng, S, N, length, scale=1.0, regen=None):
    """`regen(rng)` -> value of a regeneration op (new similarity matrix, or a (knob, value)
    pair of a subclass setter), None = no such ops"""
    ops = []
    for _ in range(length):
        r = rng.random()
        if regen is not None and r < 0.15:
            ops.append(("R", regen(rng)))
        elif r < 0.45:
            ops.append(("T", gen_threshold(rng, S, scale)))
        elif r < 0.78:
            ops.append(("D", gen_density(rng, N)))
        else:
            ops.append(("L", rng.random() < 0.6))
    return ops


def enc_op(op, mats=None):
    """`mats`: list collecting the similarity matrices of the regeneration ops (R:<k>)"""
    k, v = op
    if k == "T":
        return "T:" + enc_fr(fr(v))
    if k == "D":
        return "D:" + enc_fr(fr(v))           # exact value of the double
    if k == "R":
        mats.append(v)
        return "R:" + str(len(mats) - 1)
    return "L:" + ("1" if v else "0")


def op_key(op):
    k, v = op
    if k == "R":
        v = v if isinstance(v, tuple) else np.asarray(v).tobytes().hex()
    return (k, v)


# --------------------------------------------------------------------------
# running the implementation
# --------------------------------------------------------------------------

LAYOUTS = ["f64", "f64", "f32", "f64-fortran", "f32-view", "f64-readonly"]


def as_caller_array(S0, layout):
    """the caller's array in different float widths / memory layouts (values unchanged: the
    test matrices are exact in float32)"""
    S0_in, S0 = S0, np.asarray(S0, dtype=float)
    if layout == "as-is":
        return S0_in
    if layout == "f32":
        return S0.astype(np.float32)
    if layout == "f64-fortran":
        return np.asfortranarray(S0)
    if layout == "f32-view":                      # non-contiguous view into a larger buffer
        N = S0.shape[0]
        big = np.full((2 * N, 2 * N), 7.0, dtype=np.float32)
        big[::2, ::2] = S0
        return big[::2, ::2]
    A = S0.copy()
    if layout == "f64-readonly":
        A.setflags(write=False)
    return A


def build(grid, S0, init, nl, directed, layout="f64", keep=None):
    from pyunicorn.climate import ClimateNetwork
    kw = {"threshold": init[1]} if init[0] == "T" else {"link_density": init[1]}
    arr = as_caller_array(S0, layout)
    if keep is not None:
        keep.append((arr, np.array(arr, dtype=float)))
    return ClimateNetwork(grid, arr, non_local=nl, directed=directed,
                          silence_level=3, **kw)


def apply_op(net, op):
    """returns the raw similarity now in force when the op replaced it"""
    k, v = op
    if k == "T":
        net.set_threshold(v)
    elif k == "D":
        net.set_link_density(v)
    elif k == "R":
        if isinstance(v, tuple):          # subclass setter re-deriving the similarity from data
            getattr(net, "set_" + v[0])(*v[1:])
        else:                             # what those setters do, with a given matrix
            net._similarity_measure = np.array(v, dtype=float)
            net._regenerate_network()
        return np.array(net.similarity_measure(), dtype=float)
    else:
        net.set_non_local(v)
    return None


def run_history(case):
    """-> (list of canonical states or raise:<Error>, list of observed raw states, net)"""
    init, ops = case["init"], case["ops"]
    states, raw = [], []
    net = None
    case["mats"] = []                      # similarity in force after each R op (model input)
    case["held"] = []                      # caller arrays handed to the library + their copies
    cur = case["S0"]
    for n, op in enumerate([init] + list(ops)):
        try:
            if n == 0:
                if "builder" in case:
                    with contextlib.redirect_stdout(io.StringIO()):
                        net = case["builder"](init, case["nl"])
                    # the similarity this very object stores (estimators need not be
                    # reproducible, e.g. RainfallClimateNetwork: C10/C20's business)
                    case["S0"] = cur = np.array(net.similarity_measure(), dtype=float)
                    case["replay"]["stored_similarity"] = case["S0"].tolist()
                else:
                    net = build(case["grid"], case["S0"], init, case["nl"], case["directed"],
                                case.get("layout", "f64"), case["held"])
            else:
                with contextlib.redirect_stdout(io.StringIO()):
                    new = apply_op(net, op)
                if new is not None:
                    if not np.all(np.isfinite(new)):
                        # the estimator produced inf/nan (C10's business): history not judged
                        case["nonfinite"] = True
                        break
                    cur = new
                    case["mats"].append(new)
        except Exception as e:  # noqa
            name = {"ZeroDivisionError": "ZeroDivision"}.get(type(e).__name__, type(e).__name__)
            states.append("raise:" + name)
            raw.append(None)
            break
        states.append(state_of(net))
        raw.append({"theta": fr(net.threshold()), "A": np.asarray(net.adjacency).copy(),
                    "n_links": int(net.n_links), "ld": float(net.link_density),
                    "nl": bool(net.non_local()), "op": op, "S": cur})
    return states, raw, net


# --------------------------------------------------------------------------
# oracle: the statement, evaluated exactly on the implementation's outputs
# --------------------------------------------------------------------------

NEAR = 1e-4


def near_tie(S0, d32, theta, scale=1.0):
    """non-local decisions are exact only away from ties of the float32 product"""
    th = float(theta)
    W = np.abs(S0) * d32.astype(float)
    off = ~np.eye(S0.shape[0], dtype=bool)
    diff = np.abs(W - th)[off]
    return bool(np.any((diff > 0) & (diff <= 1e-6 * max(abs(th), 1e-3 * scale))))


def oracle_state(ctx, case, st, prev):
    """check one observed state; `case` carries S0 (float array of dyadics), d64, directed, tags"""
    S0, d64, directed = st["S"], case["d64"], case["directed"]
    scale = case.get("scale", 1.0)
    N = S0.shape[0]
    M = N * (N - 1)
    A, theta, nl = st["A"], st["theta"], st["nl"]
    absS = [[abs(fr(S0[i, j])) for j in range(N)] for i in range(N)]
    sig_base = {"class": case.get("cls", "ClimateNetwork"), "non_local": nl}

    def fail(kind, what, extra=None):
        sig = dict(sig_base, kind=kind)
        if extra:
            sig.update(extra)
        rep = dict(case["replay"], failing_state={
            "after_op": op_repr(st["op"]), "threshold": str(theta),
            "adjacency": A.tolist(), "n_links": st["n_links"], "link_density": st["ld"]})
        ctx.fail(sig, what, rep)

    # (a) entry-wise link rule
    bad = []
    for i in range(N):
        for j in range(N):
            if i == j:
                exp = 0
            elif not nl:
                exp = int(absS[i][j] > theta)
            else:
                w = float(absS[i][j]) * d64[i, j]
                if abs(w - float(theta)) <= NEAR * max(scale, abs(float(theta))) \
                        and w != float(theta):
                    continue                      # not decisive in float32
                exp = int(w > float(theta))
            if int(A[i, j]) != exp:
                bad.append((i, j, exp, int(A[i, j])))
    if bad:
        i, j, exp, got = bad[0]
        fail("link-rule", f"adjacency[{i},{j}]={got} but |S|{'*w' if nl else ''} > threshold "
             f"is {bool(exp)} (|S|={absS[i][j]}, threshold={theta})",
             {"diagonal": i == j})
    # (b) link count / (c) density
    nz = int(np.count_nonzero(A))
    exp_links = nz if directed else nz // 2
    if st["n_links"] != exp_links:
        fail("n_links", f"n_links={st['n_links']} but adjacency has {nz} non-zero entries "
             f"(directed={directed})")
    if M and abs(st["ld"] - nz / M) > 1e-12:
        fail("link_density", f"link_density={st['ld']} but adjacency gives {nz}/{M}")
    symS = all(absS[i][j] == absS[j][i] for i in range(N) for j in range(i))
    if symS and not np.array_equal(A, A.T):
        fail("symmetry", "symmetric similarity gave an asymmetric adjacency")
    # (d) density request
    if st["op"][0] == "D":
        rho = fr(st["op"][1])
        offv = [absS[i][j] for i in range(N) for j in range(N) if i != j]
        ties = sum(1 for v in offv if v == theta)
        diag_max = all(absS[i][i] >= max(offv) for i in range(N)) if offv else True
        tag = {"method": "set_link_density", "diag_maximal": diag_max}
        if nz > rho * M + Fraction(1, 10 ** 9):
            fail("density-exceeds-request",
                 f"requested link density {float(rho)} but realised {nz}/{M}", tag)
        if not nl and rho * M - nz > ties + Fraction(1, 10 ** 9):
            fail("density-gap-exceeds-ties",
                 f"requested {float(rho)}*{M} links, realised {nz}, only {ties} pairs tied at "
                 f"the threshold {theta}", tag)
        if offv and all(theta != absS[i][j] for i in range(N) for j in range(N)):
            fail("threshold-not-a-similarity",
                 f"threshold {theta} selected for density {float(rho)} is not one of the "
                 "similarity values", tag)
    # (e) raising the threshold only removes links
    if prev is not None and prev["nl"] == nl and st["op"][0] in "TD" and prev["S"] is st["S"]:
        lo, hi = (prev, st) if prev["theta"] <= theta else (st, prev)
        if np.any(hi["A"] > lo["A"]):
            fail("monotonicity", f"threshold {hi['theta']} >= {lo['theta']} but links were added")


def op_repr(op):
    k, v = op
    if k == "R":
        return ["R", list(v) if isinstance(v, tuple) else np.asarray(v).tolist()]
    return [k, v]


def oracle_twin(ctx, case, net, last):
    """the object after its history equals a fresh object with the reported settings, built
    from the similarity it was last given"""
    try:
        twin = build(case["grid"], last["S"], ("T", net.threshold()), bool(net.non_local()),
                     case["directed"])
    except Exception:  # noqa
        return
    if state_of(twin) != state_of(net):
        ctx.fail({"class": case.get("cls", "ClimateNetwork"), "kind": "stale-after-history"},
                 "state after the setter history differs from a fresh object built with the "
                 "reported threshold()/non_local()",
                 dict(case["replay"], fresh=state_of(twin), observed=state_of(net)))


# --------------------------------------------------------------------------

def ops_of(lst):
    out = []
    for k, v in lst:
        if k == "L":
            out.append((k, bool(v)))
        elif k == "R":
            out.append((k, tuple(v) if isinstance(v[0], str) else np.array(v, dtype=float)))
        else:
            out.append((k, float(v)))
    return out


def make_case(rng, N, nops, fixed=None):
    if fixed is None:
        S0, tags = gen_sim(rng, N)
        # extreme-but-exact rescaling: all similarities and thresholds times a power of two
        scale = 2.0 ** rng.choice([0, 0, 0, 0, 1, -1, 7, -10, 24, -24, 60, -60])
        S0 = S0 * scale
        grid = gen_grid(rng, N)
        directed = rng.random() < 0.4
        nl = rng.random() < 0.35
        layout = rng.choice(LAYOUTS)
        init = ("T", gen_threshold(rng, S0, scale)) if rng.random() < 0.5 else \
            ("D", gen_density(rng, N))

        def regen(r):
            return gen_sim(r, N)[0] * scale
        ops = gen_ops(rng, S0, N, nops, scale, regen)
    else:
        from pyunicorn.core import GeoGrid
        S0 = np.array(fixed["similarity"], dtype=float)
        scale = float(fixed.get("scale", 1.0))
        layout = fixed.get("layout", "f64")
        tags = {"sym": bool(np.array_equal(S0, S0.T)), "diag": "replay", "levels": 0}
        grid = GeoGrid(np.arange(3.0), np.array(fixed["lat"], dtype=float),
                       np.array(fixed["lon"], dtype=float), silence_level=3)
        directed, nl = bool(fixed["directed"]), bool(fixed["non_local"])
        init, ops = ops_of([fixed["init"]])[0], ops_of(fixed["ops"])
    d32, d64 = damp_of(grid)
    replay = {"N": N, "similarity": S0.tolist(), "lat": grid.lat_sequence().tolist(),
              "lon": grid.lon_sequence().tolist(), "directed": directed, "non_local": nl,
              "scale": scale, "layout": layout,
              "init": list(init), "ops": [op_repr(o) for o in ops]}
    return {"S0": S0, "grid": grid, "d32": d32, "d64": d64, "directed": directed, "nl": nl,
            "scale": scale, "layout": layout,
            "init": init, "ops": ops, "tags": tags, "replay": replay}


# --------------------------------------------------------------------------
# subclasses that derive the similarity from data
# --------------------------------------------------------------------------

def f32(x):
    return float(np.float32(x))


def gen_data(rng, nprng, N):
    """(T, N) observable with correlated, duplicated and negated columns (ties at |r| = 1)"""
    T = rng.choice([24, 36, 48])
    obs = nprng.randn(T, N)
    for j in range(1, N):
        r = rng.random()
        if r < 0.2:
            obs[:, j] = obs[:, rng.randrange(j)]
        elif r < 0.35:
            obs[:, j] = -obs[:, rng.randrange(j)]
        elif r < 0.6:
            obs[:, j] += rng.choice([0.5, 1, 2]) * obs[:, rng.randrange(j)]
    return obs


# HilbertClimateNetwork(directed=True) is left out: by documented design it additionally masks
# the thresholded matrix with the sign of the phase shift (a different link rule).
SUBCLASSES = ["Tsonis", "Spearman", "PartialCorrelation", "MutualInfo", "Havlin",
              "HilbertUndirected", "Rainfall", "CoupledTsonis", "Coupled", "CoupledDirected",
              "EventSeriesES", "EventSeriesECA", "SmallTestNetwork"]
# setters that re-derive the similarity from data and call _regenerate_network
KNOBS = {"Tsonis": "winter_only", "Spearman": "winter_only", "PartialCorrelation": "winter_only",
         "MutualInfo": "winter_only", "Havlin": "max_delay"}


def make_subclass_case(rng, nprng, cls, nops, fixed=None):
    import pyunicorn.climate as C
    from pyunicorn.core import GeoGrid
    directed = cls in ("CoupledDirected", "EventSeriesES", "EventSeriesECA")
    sim_in = None
    if fixed is None:
        N = rng.choice([3, 4, 5, 6])
        grid = gen_grid(rng, N)
        T_obs = gen_data(rng, nprng, N)
        lat, lon = grid.lat_sequence(), grid.lon_sequence()
        if cls in ("Coupled", "CoupledDirected"):
            sim_in, _ = gen_sim(rng, 2 * N)
    else:
        T_obs = np.array(fixed["observable"], dtype=float)
        lat = np.array(fixed["layer_lat"], dtype=float)
        lon = np.array(fixed["layer_lon"], dtype=float)
        if fixed.get("similarity_in") is not None:
            sim_in = np.array(fixed["similarity_in"], dtype=float)
    T = T_obs.shape[0]
    grid = GeoGrid(np.arange(T, dtype=float), lat, lon, silence_level=3)

    def builder(init, nl):
        kw = {"threshold": init[1]} if init[0] == "T" else {"link_density": init[1]}
        kw.update(non_local=nl, silence_level=3)
        data = C.ClimateData(observable=T_obs.copy(), grid=grid, time_cycle=12,
                             silence_level=3)
        if cls == "Tsonis":
            return C.TsonisClimateNetwork(data, winter_only=False, **kw)
        if cls == "Spearman":
            return C.SpearmanClimateNetwork(data, winter_only=False, **kw)
        if cls == "PartialCorrelation":
            return C.PartialCorrelationClimateNetwork(data, winter_only=False, **kw)
        if cls == "MutualInfo":
            return C.MutualInfoClimateNetwork(data, winter_only=False, **kw)
        if cls == "Havlin":
            return C.HavlinClimateNetwork(data, max_delay=2, **kw)
        if cls == "HilbertUndirected":
            return C.HilbertClimateNetwork(data, directed=False, **kw)
        if cls == "Rainfall":
            return C.RainfallClimateNetwork(data, **kw)
        if cls == "CoupledTsonis":
            return C.CoupledTsonisClimateNetwork(data, data, **kw)
        if cls == "SmallTestNetwork":
            net = C.ClimateNetwork.SmallTestNetwork()
        elif cls.startswith("EventSeries"):
            # always built with threshold 0; `symmetrization="directed"` keeps the asymmetric
            # event synchronisation / coincidence strengths
            ev = (T_obs > 0.8).astype(float)
            edata = C.ClimateData(observable=ev, grid=grid, time_cycle=12, silence_level=3)
            net = C.EventSeriesClimateNetwork(
                edata, method=cls[len("EventSeries"):], taumax=3.0,
                symmetrization="directed", non_local=nl, silence_level=3)
        else:
            return C.CoupledClimateNetwork(grid, grid, sim_in.copy(), directed=directed, **kw)
        # objects that come with their own initial threshold: the requested initial setting is
        # applied through the setters
        if nl and not net.non_local():
            net.set_non_local(True)
        if init[0] == "T":
            net.set_threshold(init[1])
        else:
            net.set_link_density(init[1])
        return net

    try:
        with contextlib.redirect_stdout(io.StringIO()):
            probe = builder(("T", 0.5), False)
    except Exception:  # noqa   (estimating the similarity is C10's business)
        return None
    S0 = np.array(probe.similarity_measure(), dtype=float)      # stored |similarity| (float32)
    if not np.all(np.isfinite(S0)):
        return None
    d32, d64 = damp_of(probe.grid)
    M = S0.shape[0]
    if fixed is None:
        nl = rng.random() < 0.35
        init = ("T", f32(gen_threshold(rng, S0))) if rng.random() < 0.5 else \
            ("D", gen_density(rng, M))
        regen = None
        if cls in KNOBS:
            state = {"winter_only": False, "max_delay": 2}

            def regen(r, knob=KNOBS[cls]):
                if knob == "winter_only":
                    state[knob] = not state[knob] if r.random() < 0.8 else state[knob]
                else:
                    state[knob] = r.choice([1, 2, 3, 4])
                if cls == "MutualInfo" and r.random() < 0.7:
                    return (knob, state[knob], False)      # dump=False (non-default)
                return (knob, state[knob])
        ops = [(k, f32(v)) if k == "T" else (k, v)
               for k, v in gen_ops(rng, S0, M, nops, 1.0, regen)]
    else:
        nl = bool(fixed["non_local"])
        init, ops = ops_of([fixed["init"]])[0], ops_of(fixed["ops"])
    offmax = float((S0 - np.diag(np.diag(S0))).max())
    tags = {"sym": bool(np.array_equal(S0, S0.T)), "levels": 0,
            "diag": "maximal" if float(np.diag(S0).min()) >= offmax else "non-maximal"}
    replay = {"class": cls, "N": M, "observable": T_obs.tolist(),
              "layer_lat": list(map(float, lat)), "layer_lon": list(map(float, lon)),
              "similarity_in": None if sim_in is None else sim_in.tolist(),
              "stored_similarity": S0.tolist(), "lat": probe.grid.lat_sequence().tolist(),
              "lon": probe.grid.lon_sequence().tolist(), "directed": directed, "non_local": nl,
              "init": list(init), "ops": [op_repr(o) for o in ops]}
    return {"cls": cls, "builder": builder, "S0": S0, "grid": probe.grid, "d32": d32, "d64": d64,
            "directed": directed, "nl": nl, "init": init, "ops": ops, "tags": tags,
            "replay": replay}


def request_of(case):
    """the history as a request to the model; the similarity of every regeneration op is the
    one the object stored afterwards (`case["mats"]`, filled by run_history)"""
    N = case["S0"].shape[0]
    mats, toks, stored = [], [], list(case["mats"])
    for o in case["ops"]:
        if o[0] == "R":
            if not stored:
                break                     # the history raised before this op
            o = ("R", stored.pop(0))
        toks.append(enc_op(o, mats))
    return ("hist {} {} {} {} {} {} {} {}".format(
        N, int(case["directed"]), int(case["nl"]), enc_mat(case["S0"]), enc_mat(case["d32"]),
        enc_op(case["init"]), ",".join(toks) or "-",
        "@".join(enc_mat(m) for m in mats) or "-"))


def exercise(ctx, case, reqs, impl, kept):
    """run the implementation on one case: oracle always, correspondence unless a non-local
    state sits on a float32 near-tie"""
    states, raw, net = run_history(case)
    prev = None
    skip = False
    for st in raw:
        if st is None:
            break
        if st["nl"] and near_tie(st["S"], case["d32"], st["theta"], case.get("scale", 1.0)):
            skip = True
        oracle_state(ctx, case, st, prev)
        prev = st
    if net is not None and raw and raw[-1] is not None and not case.get("nonfinite"):
        oracle_twin(ctx, case, net, raw[-1])
    # the caller's array is never modified (and never aliased by the stored similarity)
    for arr, copy in case.get("held", []):
        if not np.array_equal(np.asarray(arr, dtype=float), copy):
            ctx.fail({"class": "ClimateNetwork", "kind": "caller-array-modified",
                      "layout": case.get("layout")},
                     "the similarity array handed to the constructor was modified by the library",
                     case["replay"])
    t = case["tags"]
    N = case["S0"].shape[0]
    ctx.count(f"N={N}" if N <= 8 else "N>8")
    if "cls" in case:
        ctx.count("class=" + case["cls"])
    ctx.count("diag=" + t["diag"])
    ctx.count("sym" if t["sym"] else "asym")
    ctx.count("directed" if case["directed"] else "undirected")
    ctx.count("init=" + case["init"][0] + (",non_local" if case["nl"] else ""))
    for o in case["ops"]:
        ctx.count("op=" + o[0])
    if case.get("nonfinite"):
        ctx.count(f"regenerated similarity not finite:{case.get('cls')} (not judged)")
        skip = True
    if "layout" in case:
        ctx.count("caller-array=" + case["layout"])
    if case.get("scale", 1.0) != 1.0:
        ctx.count("rescaled by 2^%d" % round(math.log2(case["scale"])))
    for n, s in enumerate(states):
        if s.startswith("raise:"):
            ctx.count(s)
            op = ([case["init"]] + list(case["ops"]))[n]
            if op[0] == "R" and isinstance(op[1], tuple):
                skip = True
                if case.get("cls") == "MutualInfo" and len(op[1]) == 2:
                    # default dump=True: not an estimator problem
                    ctx.fail({"class": "MutualInfo", "kind": "raises", "error": s[6:],
                              "call": "setter:set_winter_only(dump=True)"},
                             f"MutualInfoClimateNetwork.set_winter_only({op[1][1]}) raised {s[6:]}",
                             dict(case["replay"], failing_call=op_repr(op), call_index=n))
                else:
                    # the estimator of the subclass failed on this data (C10's business)
                    ctx.count(f"regenerate-raises:{case.get('cls')}:{s[6:]} (not judged)")
            elif N >= 2:
                ctx.fail({"class": case.get("cls", "ClimateNetwork"), "kind": "raises",
                          "error": s[6:], "call": ("constructor:" if n == 0 else "setter:") + op[0]},
                         f"{'constructor' if n == 0 else 'setter'} with "
                         f"{'threshold' if op[0] == 'T' else 'link_density' if op[0] == 'D' else 'similarity' if op[0] == 'R' else 'non_local'}"
                         f"={op_repr(op)[1]} raised {s[6:]} on a valid {N}-node input",
                         dict(case["replay"], failing_call=op_repr(op), call_index=n))
    nontriv = N >= 2 and any(
        st is not None and 0 < int(np.count_nonzero(st["A"])) < N * (N - 1) for st in raw)
    canon = (case.get("cls", ""), N, case["S0"].tobytes().hex(), case["directed"], case["nl"],
             op_key(case["init"]), [op_key(o) for o in case["ops"]],
             case["replay"]["lat"], case["replay"]["lon"])
    ctx.case(canon, nontriv, case["replay"] if N <= 4 else None)
    if skip:
        ctx.count("near-tie(non_local): oracle only")
        return
    reqs.append(request_of(case))
    impl.append(";".join(states))
    kept.append(case)


# --------------------------------------------------------------------------
# HilbertClimateNetwork: phase mask, set_directed (model: Model/SimilarityHilbert.lean)
# --------------------------------------------------------------------------

def hilbert_state_of(net):
    return state_of(net) + "|" + str(int(bool(net.directed)))


def run_hilbert_case(ctx, spec, reqs, impl):
    """one history on a HilbertClimateNetwork: correspondence with the Lean model `HNet` (fed the
    coherence / phase matrices the object stores) and the statement itself as oracle:
    linked <=> i != j, |coherence| (damped) > threshold and, when directed, phase shift > 0"""
    import pyunicorn.climate as C
    from pyunicorn.core import GeoGrid
    obs = np.array(spec["observable"], dtype=float)
    lat, lon = np.array(spec["lat"], dtype=float), np.array(spec["lon"], dtype=float)
    grid = GeoGrid(np.arange(obs.shape[0], dtype=float), lat, lon, silence_level=3)
    N = obs.shape[1]
    M = N * (N - 1)
    d0, nl0 = bool(spec["directed"]), bool(spec["non_local"])
    init, ops = ops_of([spec["init"]])[0], ops_of_h(spec["ops"])

    def fresh(directed, nl, **kw):
        data = C.ClimateData(observable=obs.copy(), grid=grid, time_cycle=12, silence_level=3)
        return C.HilbertClimateNetwork(data, directed=directed, non_local=nl, silence_level=3, **kw)

    sig = {"class": "HilbertClimateNetwork"}
    rep = dict(spec, kind="hilbert-history")
    states, mats, toks = [], [], []
    skip = False
    with contextlib.redirect_stdout(io.StringIO()):
        try:
            net = fresh(d0, nl0, **({"threshold": init[1]} if init[0] == "T"
                                    else {"link_density": init[1]}))
        except Exception as e:  # noqa
            if N >= 2:
                ctx.fail(dict(sig, kind="raises", call="constructor:" + init[0],
                              error=type(e).__name__),
                         f"HilbertClimateNetwork constructor raised {type(e).__name__}", rep)
            return
        S = np.array(net.similarity_measure(), dtype=float)
        P = np.array(net.phase_shift(), dtype=float)
        if not (np.all(np.isfinite(S)) and np.all(np.isfinite(P))):
            ctx.count("hilbert: coherence not finite (not judged)")
            return
        S0, P0 = S, P
        d32, d64 = damp_of(net.grid)
        want_dir = d0
        prev = None
        for n, op in enumerate([init] + ops):
            if n:
                try:
                    if op[0] == "C":
                        # clear_cache() drops the stored phase: no change of the network, and
                        # later setters must still apply the phase condition (model: no-op)
                        net.clear_cache()
                    elif op[0] == "X":
                        net.set_directed(op[1])
                        want_dir = op[1]
                        S = np.array(net.similarity_measure(), dtype=float)
                        P = np.array(net.phase_shift(), dtype=float)
                        mats += [S, P]
                        toks.append(f"X:{int(op[1])}:{len(mats) - 2}:{len(mats) - 1}")
                    else:
                        apply_op(net, op)
                        toks.append(enc_op(op))
                    if op[0] == "C":
                        S_now = np.array(net.similarity_measure(), dtype=float)
                        if hilbert_state_of(net) != states[-1] or not np.array_equal(S_now, S):
                            ctx.fail(dict(sig, kind="clear_cache-changes-network"),
                                     "clear_cache() changed the reported network",
                                     dict(rep, call_index=n))
                        ctx.count("hilbert op=C")
                        continue
                except Exception as e:  # noqa
                    ctx.fail(dict(sig, kind="raises", call="setter:" + op[0],
                                  error=type(e).__name__),
                             f"HilbertClimateNetwork setter {op_repr_h(op)} raised "
                             f"{type(e).__name__}: {e}", dict(rep, call_index=n))
                    return
            A = np.asarray(net.adjacency).copy()
            theta = fr(net.threshold())
            nl = bool(net.non_local())
            directed = bool(net.directed)
            states.append(hilbert_state_of(net))
            ctx.count("hilbert op=" + op[0] + (",directed" if directed else ",undirected")
                      + (",non_local" if nl else ""))
            if nl and near_tie(S, d32, theta):
                skip = True

            def fail(kind, what):
                ctx.fail(dict(sig, kind=kind, directed=directed, non_local=nl), what,
                         dict(rep, call_index=n, observed=states[-1]))
            # the statement on the implementation
            bad = None
            for i in range(N):
                for j in range(N):
                    w = abs(float(S[i, j])) * (d64[i, j] if nl else 1.0)
                    if nl and w != float(theta) and abs(w - float(theta)) <= NEAR * max(1.0, abs(float(theta))):
                        continue
                    exp = int(i != j and w > float(theta) and (not directed or P[i, j] > 0))
                    if int(A[i, j]) != exp and bad is None:
                        bad = (i, j, exp)
            if bad:
                fail("hilbert-link-rule", f"adjacency[{bad[0]},{bad[1]}] != {bad[2]} = (coherence"
                     f"{'*w' if nl else ''} > threshold{' and phase > 0' if directed else ''})")
            if directed != want_dir or bool(net.graph.is_directed()) != want_dir:
                fail("hilbert-directed-flag", f"directed={directed}, graph.is_directed()="
                     f"{net.graph.is_directed()} after requesting directed={want_dir}")
            nz = int(np.count_nonzero(A))
            if int(net.n_links) != (nz if directed else nz // 2):
                fail("n_links", f"n_links={net.n_links} but adjacency has {nz} non-zeros "
                     f"(directed={directed})")
            if M and abs(float(net.link_density) - nz / M) > 1e-12:
                fail("link_density", f"link_density={net.link_density} but adjacency gives {nz}/{M}")
            if op[0] == "D" and nz > fr(op[1]) * M + Fraction(1, 10 ** 9):
                fail("density-exceeds-request", f"requested link density {op[1]} but realised {nz}/{M}")
            if not directed and np.array_equal(S, S.T) and not np.array_equal(A, A.T):
                fail("symmetry", "symmetric coherence gave an asymmetric undirected network")
            if prev is not None and op[0] in "TD" and prev[2] == (nl, directed):
                lo, hi = ((prev, (theta, A)) if prev[0] <= theta else ((theta, A), prev))
                if np.any(hi[1] > lo[1]):
                    fail("monotonicity", "raising the threshold added links")
            prev = (theta, A, (nl, directed))
        # fresh twin with the reported settings
        try:
            tw = fresh(bool(net.directed), bool(net.non_local()), threshold=net.threshold())
            if np.allclose(np.asarray(tw.similarity_measure()), S, rtol=1e-5, atol=1e-6) and \
                    hilbert_state_of(tw) != hilbert_state_of(net):
                ctx.fail(dict(sig, kind="stale-after-history"),
                         "Hilbert network after the history differs from a fresh one with the "
                         "reported threshold()/non_local()/directed",
                         dict(rep, observed=hilbert_state_of(net), fresh=hilbert_state_of(tw)))
        except Exception:  # noqa
            pass
    ctx.case(("hilbert", obs.tobytes().hex()[:64], d0, nl0, op_key(init), str(spec["ops"])),
             any("1" in st.split("|")[1] for st in states), spec if N <= 4 else None)
    if skip:
        ctx.count("hilbert near-tie(non_local): oracle only")
        return
    reqs.append("hhist {} {} {} {} {} {} {} {} {}".format(
        N, int(d0), int(nl0), enc_mat(S0), enc_mat(P0), enc_mat(d32), enc_op(init),
        ",".join(toks) or "-", "@".join(enc_mat(m) for m in mats) or "-"))
    impl.append(";".join(states))


def ops_of_h(lst):
    return [("X", bool(v)) if k == "X" else ("C", None) if k == "C" else ops_of([[k, v]])[0]
            for k, v in lst]


def op_repr_h(op):
    return [op[0], op[1]]


def hilbert_histories(ctx, rng, nprng, quick):
    reqs, impl = [], []
    for _ in range(40 if quick else 400):
        N = rng.choice([2, 3, 3, 4, 5, 6])
        g0 = gen_grid(rng, N)
        obs = gen_data(rng, nprng, N)
        # stored coherence of this data (float32), to place thresholds on / between its values
        try:
            with contextlib.redirect_stdout(io.StringIO()):
                import pyunicorn.climate as C
                from pyunicorn.core import GeoGrid
                grid = GeoGrid(np.arange(obs.shape[0], dtype=float), g0.lat_sequence(),
                               g0.lon_sequence(), silence_level=3)
                probe = C.HilbertClimateNetwork(
                    C.ClimateData(observable=obs.copy(), grid=grid, time_cycle=12, silence_level=3),
                    threshold=0.5, directed=False, silence_level=3)
            S0 = np.array(probe.similarity_measure(), dtype=float)
        except Exception:  # noqa
            ctx.count("hilbert: coherence not computable (skipped)")
            continue
        if not np.all(np.isfinite(S0)):
            ctx.count("hilbert: coherence not finite (not judged)")
            continue
        init = ("T", f32(gen_threshold(rng, S0))) if rng.random() < 0.5 else \
            ("D", gen_density(rng, N))
        ops = []
        for _k in range(rng.choice([1, 2, 4, 7])):
            r = rng.random()
            if r < 0.12:
                ops.append(("C", None))
            elif r < 0.35:
                ops.append(("X", rng.random() < 0.5))
            elif r < 0.55:
                ops.append(("T", f32(gen_threshold(rng, S0))))
            elif r < 0.8:
                ops.append(("D", gen_density(rng, N)))
            else:
                ops.append(("L", rng.random() < 0.6))
        spec = {"observable": obs.tolist(), "lat": list(map(float, g0.lat_sequence())),
                "lon": list(map(float, g0.lon_sequence())), "directed": rng.random() < 0.6,
                "non_local": rng.random() < 0.35, "init": list(init),
                "ops": [op_repr_h(o) for o in ops]}
        run_hilbert_case(ctx, spec, reqs, impl)
    ctx.correspond("Lean HNet model == HilbertClimateNetwork (directed / undirected, phase mask, "
                   "set_directed histories)", reqs, impl)
    ctx.correspond("generated method scripts (gen_C09) == HilbertClimateNetwork",
                   ["s" + r for r in reqs], impl)



def no_setting(ctx, rng):
    """construction with neither threshold nor link density: the generated `__init__` script
    raises (no network is generated, `adjacency=self.adjacency` fails) — and so must the class"""
    from pyunicorn.climate import ClimateNetwork
    reqs, impl = [], []
    for _ in range(6):
        N = rng.choice([2, 3, 5])
        S0, _t = gen_sim(rng, N)
        grid = gen_grid(rng, N)
        d32, _d = damp_of(grid)
        nl, directed = rng.random() < 0.5, rng.random() < 0.5
        try:
            with contextlib.redirect_stdout(io.StringIO()):
                net = ClimateNetwork(grid, S0, non_local=nl, directed=directed, silence_level=3)
            got = state_of(net)
        except Exception as e:  # noqa
            got = "raise:" + type(e).__name__
        reqs.append("shist {} {} {} {} {} - - -".format(N, int(directed), int(nl), enc_mat(S0),
                                                        enc_mat(d32)))
        impl.append(got)
        ctx.count("constructor without threshold and link_density")
    ctx.correspond("generated __init__ script == ClimateNetwork(grid, S) without threshold and "
                   "link density (raises)", reqs, impl)


def nan_similarities(ctx, rng, quick):
    """oracle only: similarity matrices with NaN entries (missing estimates).  `NaN > θ` is
    false, so a NaN pair is never linked; every finite pair follows the link rule; n_links and
    link_density stay consistent; a prescribed density is never exceeded (NaNs sort last, a NaN
    threshold gives the empty network)"""
    for _ in range(40 if quick else 400):
        N = rng.choice([2, 3, 4, 5, 6])
        S0, _t = gen_sim(rng, N)
        k = rng.choice([1, 1, 2, N, N * N])
        for _k in range(k):
            i, j = rng.randrange(N), rng.randrange(N)
            S0[i, j] = np.nan
            if rng.random() < 0.6:
                S0[j, i] = np.nan
        grid = gen_grid(rng, N)
        directed = rng.random() < 0.4
        M = N * (N - 1)
        init = ("T", gen_threshold(rng, np.nan_to_num(S0))) if rng.random() < 0.4 else \
            ("D", gen_density(rng, N))
        ops = [o for o in gen_ops(rng, np.nan_to_num(S0), N, rng.choice([0, 1, 3])) if o[0] != "L"]
        rep = {"kind": "nan", "similarity": [[None if v != v else v for v in row]
                                             for row in S0.tolist()],
               "directed": directed, "init": list(init), "ops": [op_repr(o) for o in ops]}
        try:
            with np.errstate(all="ignore"):
                net = build(grid, S0, init, False, directed, rng.choice(["f64", "f32"]))
        except Exception as e:  # noqa
            ctx.fail({"class": "ClimateNetwork", "kind": "raises", "input": "nan-similarity",
                      "error": type(e).__name__},
                     f"constructor raised {type(e).__name__} on a similarity matrix with NaN "
                     "entries", rep)
            continue
        absS = np.abs(S0)
        for n, op in enumerate([init] + ops):
            if n:
                try:
                    with np.errstate(all="ignore"):
                        apply_op(net, op)
                except Exception as e:  # noqa
                    ctx.fail({"class": "ClimateNetwork", "kind": "raises", "input": "nan-similarity",
                              "error": type(e).__name__},
                             f"setter {op_repr(op)} raised {type(e).__name__} on a similarity "
                             "matrix with NaN entries", dict(rep, call_index=n))
                    break
            A = np.asarray(net.adjacency)
            th = float(net.threshold())
            exp = np.array([[int(i != j and absS[i, j] == absS[i, j] and th == th
                                 and fr(absS[i, j]) > fr(th)) for j in range(N)] for i in range(N)])
            nz = int(np.count_nonzero(A))
            what = None
            if not np.array_equal(A, exp):
                what = "adjacency differs from `i != j and |S| > threshold` (NaN never linked)"
            elif int(net.n_links) != (nz if directed else nz // 2):
                what = f"n_links={net.n_links} but {nz} non-zero entries"
            elif abs(float(net.link_density) - nz / M) > 1e-12:
                what = f"link_density={net.link_density} but adjacency gives {nz}/{M}"
            elif op[0] == "D" and nz > fr(op[1]) * M + Fraction(1, 10 ** 9):
                what = f"requested link density {op[1]} but realised {nz}/{M}"
            if what:
                ctx.fail({"class": "ClimateNetwork", "kind": "nan-similarity", "op": op[0]}, what,
                         dict(rep, call_index=n, threshold=repr(th), adjacency=A.tolist()))
                break
        ctx.count("nan-similarity histories")
        ctx.case(("nan", np.nan_to_num(S0, nan=-7.0).tobytes().hex(), directed, op_key(init),
                  str(rep["ops"])), True, None)


def density_function(ctx, rng, quick):
    """oracle only: `link_density_function(n_bins)` = cumulative histogram of *all* N*N stored
    similarities: starts at 0, non-decreasing, below 1, entry i = fraction of entries below the
    i-th bin edge"""
    for _ in range(30 if quick else 300):
        N = rng.choice([2, 3, 4, 6, 9])
        S0, _t = gen_sim(rng, N)
        net = build(gen_grid(rng, N), S0, ("T", 0.5), False, rng.random() < 0.5)
        nb = rng.choice([1, 2, 3, 5, 10, 33])
        absS = np.abs(S0)
        if float(absS.max()) == float(absS.min()):
            ctx.count("link_density_function: constant matrix (numpy widens the range)")
        with contextlib.redirect_stdout(io.StringIO()):
            ldf, edges = net.link_density_function(nb)
        ldf, edges = np.asarray(ldf, dtype=float), np.asarray(edges, dtype=float)
        what = None
        if len(ldf) != nb or len(edges) != nb + 1:
            what = f"lengths {len(ldf)}, {len(edges)} for n_bins={nb}"
        elif ldf[0] != 0 or np.any(np.diff(ldf) < -1e-12) or ldf[-1] > 1 + 1e-12:   # float sums
            what = f"not a cumulative distribution: {ldf.tolist()}"
        else:
            w = (edges[-1] - edges[0]) / nb
            for i in range(nb):
                lo = np.count_nonzero(absS < edges[i] - 1e-6 * max(w, 1e-300))
                hi = np.count_nonzero(absS < edges[i] + 1e-6 * max(w, 1e-300))
                if not (lo / (N * N) - 1e-9 <= ldf[i] <= hi / (N * N) + 1e-9):
                    what = (f"entry {i} is {ldf[i]} but {lo}..{hi} of {N * N} similarities lie "
                            f"below the bin edge {edges[i]}")
                    break
        if what:
            ctx.fail({"class": "ClimateNetwork", "kind": "link_density_function"}, what,
                     {"similarity": S0.tolist(), "n_bins": nb, "got": ldf.tolist(),
                      "edges": edges.tolist()})
        ctx.count("link_density_function")


def coupled_blocks(ctx, rng, quick):
    """oracle only: the layer / cross-layer observables of CoupledClimateNetwork follow the
    thresholded blocks of the similarity after every setter (theorem cross_link_iff)"""
    import pyunicorn.climate as C
    for _ in range(30 if quick else 300):
        N1, N2 = rng.choice([1, 2, 3, 4]), rng.choice([1, 2, 3, 4])
        g1, g2 = gen_grid(rng, N1), gen_grid(rng, N2)
        S0, _t = gen_sim(rng, N1 + N2)
        directed = rng.random() < 0.4
        init = ("T", gen_threshold(rng, S0)) if rng.random() < 0.5 else ("D", gen_density(rng, N1 + N2))
        ops = [o for o in gen_ops(rng, S0, N1 + N2, rng.choice([0, 2, 4])) if o[0] != "L"]
        rep = {"kind": "coupled-blocks", "similarity": S0.tolist(), "N1": N1, "N2": N2,
               "directed": directed, "init": list(init), "ops": [op_repr(o) for o in ops]}
        try:
            with contextlib.redirect_stdout(io.StringIO()):
                net = C.CoupledClimateNetwork(
                    g1, g2, S0.copy(), directed=directed, silence_level=3,
                    **({"threshold": init[1]} if init[0] == "T" else {"link_density": init[1]}))
        except Exception as e:  # noqa
            ctx.fail({"class": "CoupledClimateNetwork", "kind": "raises", "call": "constructor",
                      "error": type(e).__name__}, f"constructor raised {type(e).__name__}", rep)
            continue
        absS = [[abs(fr(v)) for v in row] for row in S0]
        for n, op in enumerate([init] + ops):
            with contextlib.redirect_stdout(io.StringIO()):
                if n:
                    apply_op(net, op)
                th = fr(net.threshold())
                got = (np.asarray(net.cross_layer_adjacency()).tolist(),
                       np.asarray(net.adjacency_1()).tolist(), np.asarray(net.adjacency_2()).tolist(),
                       # (documented as not implemented for directed networks)
                       -1 if directed else int(net.number_cross_layer_links()),
                       -1.0 if directed else float(net.cross_link_density()))
            cross = [[int(absS[i][N1 + j] > th) for j in range(N2)] for i in range(N1)]
            a1 = [[int(i != j and absS[i][j] > th) for j in range(N1)] for i in range(N1)]
            a2 = [[int(i != j and absS[N1 + i][N1 + j] > th) for j in range(N2)] for i in range(N2)]
            nc = sum(map(sum, cross))
            exp = (cross, a1, a2, -1 if directed else nc, -1.0 if directed else nc / (N1 * N2))
            for lab, g, e in zip(("cross_layer_adjacency", "adjacency_1", "adjacency_2",
                                  "number_cross_layer_links", "cross_link_density"), got, exp):
                if (abs(g - e) > 1e-12) if isinstance(e, float) else (g != e):
                    ctx.fail({"class": "CoupledClimateNetwork", "kind": "cross-block",
                              "observable": lab},
                             f"{lab} = {g} after {op_repr(op)} but thresholding the similarity "
                             f"block at {th} gives {e}", dict(rep, call_index=n))
                    break
        ctx.count("coupled cross-block histories")
        ctx.case(("coupled", S0.tobytes().hex(), N1, N2, directed, op_key(init), str(rep["ops"])),
                 True, None)



def scratch_cwd():
    d = tempfile.mkdtemp(prefix="C09-")
    atexit.register(shutil.rmtree, d, True)
    os.chdir(d)


def replay(ctx, rp):
    """./check C09 --replay FILE: re-run the recorded case (oracle + correspondence)"""
    r = rp["replay"]
    scratch_cwd()
    if r.get("kind") == "hilbert-history":
        reqs, impl = [], []
        run_hilbert_case(ctx, r, reqs, impl)
        if reqs:
            ctx.correspond("replayed Hilbert history", reqs, impl)
        return
    with contextlib.redirect_stdout(io.StringIO()):
        if "class" in r:
            case = make_subclass_case(None, None, r["class"], 0, fixed=r)
        else:
            case = make_case(None, int(r["N"]), 0, fixed=r)
    reqs, impl, kept = [], [], []
    with contextlib.redirect_stdout(io.StringIO()):
        exercise(ctx, case, reqs, impl, kept)
    if reqs:
        ctx.correspond("replayed history", reqs, impl)


def regenerate_histories(ctx, rng, nprng, quick):
    """oracle only: subclasses that re-derive the similarity on a live object
    (set_winter_only / set_max_delay / set_directed -> _regenerate_network): afterwards the
    network must be the one a fresh object with the new setting has — also with
    non_local=True and after intermediate setters."""
    import pyunicorn.climate as C
    from pyunicorn.core import GeoGrid
    specs = [("Tsonis", C.TsonisClimateNetwork, "winter_only"),
             ("Spearman", C.SpearmanClimateNetwork, "winter_only"),
             ("PartialCorrelation", C.PartialCorrelationClimateNetwork, "winter_only"),
             ("MutualInfo", C.MutualInfoClimateNetwork, "winter_only"),
             ("Havlin", C.HavlinClimateNetwork, "max_delay"),
             ("Hilbert", C.HilbertClimateNetwork, "directed")]
    for rep in range(4 if quick else 20):
        for name, cls, knob in specs:
            N = rng.choice([4, 5, 6])
            g0 = gen_grid(rng, N)
            obs = gen_data(rng, nprng, N)
            T = obs.shape[0]
            grid = GeoGrid(np.arange(T, dtype=float), g0.lat_sequence(), g0.lon_sequence(),
                           silence_level=3)
            nl = rng.random() < 0.6
            if name == "MutualInfo":
                scratch_cwd()
            thr = rng.choice([0.25, 0.375, 0.5])
            v0, v1 = {"winter_only": (False, True), "max_delay": (2, 4),
                      "directed": (False, True)}[knob]
            if rng.random() < 0.5:
                v0, v1 = v1, v0

            def build(v, threshold):
                data = C.ClimateData(observable=obs.copy(), grid=grid, time_cycle=12,
                                     silence_level=3)
                return cls(data, threshold=threshold, non_local=nl, silence_level=3, **{knob: v})
            hist = []
            try:
                with contextlib.redirect_stdout(io.StringIO()):
                    net = build(v0, thr)
                    if rng.random() < 0.5:
                        t2 = rng.choice([0.3125, 0.4375, 0.5625])
                        net.set_threshold(t2)
                        hist.append(["set_threshold", t2])
                        thr = t2
                    if name == "MutualInfo":
                        net.set_winter_only(v1, dump=False)
                    else:
                        getattr(net, "set_" + knob)(v1)
                    hist.append(["set_" + knob, v1])
                    if rng.random() < 0.5:
                        d = rng.choice([0.3, 0.5, 0.7])
                        net.set_link_density(d)
                        hist.append(["set_link_density", d])
                        twin = build(v1, 0.5)
                        twin.set_link_density(d)
                    else:
                        twin = build(v1, thr)
                    a = (np.asarray(net.adjacency), int(net.n_links), float(net.link_density),
                         float(net.threshold()), np.asarray(net.similarity_measure()))
                    b = (np.asarray(twin.adjacency), int(twin.n_links), float(twin.link_density),
                         float(twin.threshold()), np.asarray(twin.similarity_measure()))
            except Exception as ex:  # noqa  (estimator problems are C10's business)
                ctx.count(f"regenerate-raises:{name}:{type(ex).__name__}")
                continue
            ctx.case(("regen", name, nl, str(hist), obs.tobytes().hex()[:40]), True,
                     {"class": name, "non_local": nl, "history": hist})
            ctx.count(f"regenerate:{name}" + (",non_local" if nl else ""))
            if not np.allclose(a[4], b[4], rtol=1e-5, atol=1e-6):
                continue        # the estimator itself is not reproducible (C10 / C20): not judged
            for k, lab in enumerate(("adjacency", "n_links", "link_density", "threshold")):
                same = np.array_equal(a[k], b[k]) if k < 2 else abs(a[k] - b[k]) <= 1e-6
                if not same:
                    ctx.fail({"kind": "regenerate-differs", "class": name, "observable": lab},
                             f"{name}ClimateNetwork(non_local={nl}) after {hist}: {lab} differs from "
                             f"a fresh network with {knob}={v1}",
                             {"class": name, "non_local": nl, "history": hist,
                              "observable": obs.tolist(), "lat": list(map(float, grid.lat_sequence())),
                              "lon": list(map(float, grid.lon_sequence())),
                              "observed": np.asarray(a[k]).tolist(),
                              "fresh": np.asarray(b[k]).tolist()})
                    break


def direct_calls(ctx, rng, quick):
    """`_calculate_threshold_adjacency` / `_calculate_non_local_adjacency` called directly:
    arbitrary *signed* matrices and thresholds in both float widths, non-default weight
    parameters `a`, `d_min` (model: `thresholdAdjacency`; oracle: the link rule itself)"""
    reqs, impl = [], []
    weights_ok = []
    for _ in range(150 if quick else 1500):
        N = rng.choice([0, 1, 2, 3, 4, 5, 6, 9])
        # the host object only lends its grid (N < 2 cannot be constructed: ZeroDivisionError)
        grid = gen_grid(rng, max(N, 2))
        net = build(grid, np.eye(max(N, 2)), ("T", 0.5), False, False)
        scale = 2.0 ** rng.choice([0, 0, 3, -30, 40])
        W = (gen_sim(rng, N)[0] if N else np.zeros((0, 0))) * scale
        thr = gen_threshold(rng, W, scale) * rng.choice([1, 1, -1])
        Wd = W.astype(rng.choice([np.float32, np.float64]))
        nonloc = N >= 2 and rng.random() < 0.4
        with contextlib.redirect_stdout(io.StringIO()):
            if nonloc:
                a_, dmin = rng.choice([(20, 0.05), (30, 0.2), (5, 0.0), (100, 0.5), (1, 1.0)])
                # the documented weight with these parameters, evaluated as numpy does
                d32 = np.asarray(0.5 * (np.tanh(a_ * (grid.angular_distance() - dmin)) + 1))
                weights_ok.append(bool(np.all((d32 >= 0) & (d32 <= 1))))
                Wm = np.array(Wd * d32, dtype=float)      # what is thresholded
                diff = np.abs(Wm - thr)
                if np.any((diff > 0) & (diff <= 1e-6 * max(abs(thr), 1e-3 * scale))):
                    ctx.count("direct: non_local near-tie (skipped)")
                    continue
                A = net._calculate_non_local_adjacency(Wd, thr, a=a_, d_min=dmin)
                ctx.count(f"direct: non_local a={a_} d_min={dmin}")
            else:
                A = net._calculate_threshold_adjacency(Wd, thr)
                Wm = W
                ctx.count("direct: threshold_adjacency " + Wd.dtype.name)
        A = np.asarray(A)
        exp = np.array([[int(i != j and fr(Wm[i, j]) > fr(thr)) for j in range(N)]
                        for i in range(N)]).reshape(N, N)
        if not np.array_equal(A, exp):
            ctx.fail({"class": "ClimateNetwork", "kind": "link-rule-direct", "non_local": nonloc},
                     "direct call of the adjacency computation disagrees with "
                     "`i != j and W[i,j] > threshold`",
                     {"N": N, "W": Wm.tolist(), "threshold": thr, "got": A.tolist(),
                      "lat": grid.lat_sequence().tolist(), "lon": grid.lon_sequence().tolist()})
        reqs.append(f"adj {N} {enc_mat(Wm)} {enc_fr(fr(thr))}")
        impl.append(",".join(str(int(v)) for v in A.flatten()) or "-")
    ctx.correspond("Lean thresholdAdjacency == _calculate_(threshold|non_local)_adjacency on "
                   "signed matrices, non-default a / d_min", reqs, impl)
    ctx.obligation("distance weights 0.5*(tanh(a(d-d_min))+1) lie in [0,1] (hypothesis of "
                   "nnz_non_local_le / density_le_request; theorem dampOf_mem_unit)",
                   "trusted-base-probe", all(weights_ok), "")


def shared_arrays(ctx, rng, quick):
    """oracle only: two live networks sharing one array (the second is built from the array the
    first one *stores*); setter histories on either must not disturb the other"""
    for _ in range(40 if quick else 400):
        N = rng.choice([3, 4, 5, 6])
        c1 = make_case(rng, N, 0)
        try:
            n1 = build(c1["grid"], c1["S0"], c1["init"], c1["nl"], c1["directed"])
            stored = n1.similarity_measure()
            n2 = build(c1["grid"], stored, ("T", float(np.median(stored))), False,
                       c1["directed"], layout="as-is")
        except Exception:  # noqa
            continue
        before1 = (state_of(n1), np.array(stored, dtype=float))
        ops = gen_ops(rng, c1["S0"], N, rng.randrange(2, 6), c1["scale"])
        hist = []
        ok = True
        for o in ops:
            tgt = rng.choice([1, 2])
            try:
                apply_op(n1 if tgt == 1 else n2, o)
            except Exception:  # noqa
                ok = False
                break
            hist.append([tgt] + op_repr(o))
        ctx.count("shared-array histories")
        if not ok:
            continue
        if not np.array_equal(np.asarray(n1.similarity_measure(), dtype=float), before1[1]) or \
                not np.array_equal(np.asarray(n2.similarity_measure(), dtype=float), before1[1]):
            ctx.fail({"class": "ClimateNetwork", "kind": "stored-similarity-modified"},
                     "a setter modified the stored similarity matrix (shared by two networks)",
                     dict(c1["replay"], history=hist))
            continue
        for n, lab in ((n1, "first"), (n2, "second")):
            tw = build(c1["grid"], c1["S0"], ("T", n.threshold()), bool(n.non_local()),
                       c1["directed"])
            if state_of(tw) != state_of(n):
                ctx.fail({"class": "ClimateNetwork", "kind": "shared-array-stale"},
                         f"{lab} of two networks sharing a similarity array differs from a fresh "
                         "network with its reported settings",
                         dict(c1["replay"], history=hist, observed=state_of(n),
                              fresh=state_of(tw)))
        ctx.case(("shared", c1["S0"].tobytes().hex(), str(hist)), True, None)


def run(ctx):
    rng = ctx.rng
    quick = ctx.tier == "quick"
    ctx.rule = ("ClimateNetwork objects over dyadic (k/16 times a power of two 2^-60..2^60) "
                "similarity matrices handed over as float64/float32/Fortran/strided/read-only "
                "arrays, N in 1..12 (thorough: ..24), symmetric/asymmetric, constant matrices, "
                "diagonal maximal/zero/random/negative, ties, directed on/off, non_local on/off "
                "over clustered grids, built by threshold or link density (incl. extreme values), "
                "followed by random set_threshold/set_link_density/set_non_local/"
                "_regenerate_network histories; the data-driven subclasses incl. their "
                "similarity-re-deriving setters; distinct = distinct (matrix, grid, flags, "
                "history); non-trivial = some observed state has a network that is neither empty "
                "nor complete")
    ctx.trusted = common.DEFAULT_TRUSTED + [
        "CPython evaluates int((1-rho)*len) with two IEEE-754 binary64 round-to-nearest-even "
        "operations (modelled exactly in rational arithmetic by rn53/ieeeIndex; theorem "
        "ieeeIndex_bounds; compared with CPython on every run)",
        "GeoGrid.angular_distance and the float32 tanh weight are taken from numpy (the model "
        "receives the weight matrix; the oracle recomputes it in float64 with a 1e-4 margin; "
        "that the weights lie in [0,1] is checked on every grid)",
    ]
    ctx.proofs()

    reqs, impl, kept = [], [], []
    # ---------------- constructor-only cases: many matrices x thresholds / densities ---------
    nmat = 800 if quick else 8000
    sizes = [2, 3, 3, 4, 4, 5, 6, 8, 12] if quick else [2, 3, 4, 5, 6, 8, 12, 16, 24]
    for _ in range(nmat):
        N = rng.choice(sizes)
        exercise(ctx, make_case(rng, N, rng.choice([0, 1, 2, 5])), reqs, impl, kept)
    # ---------------- long histories ---------------------------------------------------------
    for _ in range(200 if quick else 2000):
        N = rng.choice([2, 3, 4, 5, 7])
        exercise(ctx, make_case(rng, N, rng.randrange(6, 9 if quick else 13)), reqs, impl, kept)
    # ---------------- edge cases ------------------------------------------------------------
    for N in (1, 2):
        for _ in range(4):
            exercise(ctx, make_case(rng, N, 2), reqs, impl, kept)
    bad, model = ctx.correspond(
        "Lean Similarity model == ClimateNetwork (constructor + setter histories)", reqs, impl)
    # the same histories through the interpreter of the method scripts regenerated from the
    # source by translate/gen_C09.py (Model/SimilarityScript.lean)
    ctx.correspond("generated method scripts (gen_C09) == ClimateNetwork (constructor + setter "
                   "histories)", ["s" + r for r in reqs], impl)
    no_setting(ctx, rng)
    # ---------------- subclasses deriving the similarity from data ---------------------------
    nprng = np.random.RandomState(rng.randrange(2 ** 31))
    sreqs, simpl, skept = [], [], []
    scratch_cwd()     # MutualInfo reads/writes a file in the cwd
    for cls in SUBCLASSES:
        for _ in range(15 if quick else 150):
            if cls == "MutualInfo":
                scratch_cwd()   # a failed dump leaves an empty file that breaks later objects
            with contextlib.redirect_stdout(io.StringIO()):
                case = make_subclass_case(rng, nprng, cls, rng.choice([1, 3, 6]))
            if case is None:
                ctx.count("class=" + cls + ": similarity not computable / not finite (skipped)")
                continue
            with contextlib.redirect_stdout(io.StringIO()):
                exercise(ctx, case, sreqs, simpl, skept)
    ctx.correspond("Lean Similarity model == subclasses of ClimateNetwork on their stored "
                   "similarity", sreqs, simpl)
    ctx.correspond("generated method scripts (gen_C09) == subclasses of ClimateNetwork",
                   ["s" + r for r in sreqs], simpl)
    ctx.extra["histories_compared"] = len(reqs)
    ctx.extra["states_compared"] = sum(s.count(";") + 1 for s in impl)

    # ---------------- threshold_from_link_density alone, IEEE index vs CPython --------------
    treqs, timpl = [], []
    for _ in range(150 if quick else 1500):
        N = rng.choice(sizes)
        S0, tags = gen_sim(rng, N)
        rho = gen_density(rng, N)
        grid = gen_grid(rng, N)
        net = build(grid, S0, ("T", 0.5), False, False)
        try:
            th = enc_fr(fr(net.threshold_from_link_density(rho)))
        except Exception as e:  # noqa
            th = "raise:" + type(e).__name__
        treqs.append(f"tfld {N} {enc_mat(np.abs(S0))} {enc_fr(fr(rho))}")
        timpl.append(th)
        ctx.count("tfld")
    # the two IEEE roundings of int((1-rho)*len): rational model rn53 and Lean Float vs CPython
    for _ in range(400 if quick else 4000):
        ln = rng.choice([2, 6, 12, 20, 30, 56, 90, 132, 552, 1000, 9900, 999000, 2 ** 31 - 1,
                         2 ** 52 + 1, rng.randrange(1, 10 ** 6)])
        rho = rng.choice([rng.randrange(0, ln + 1) / ln, rng.random(),
                          rng.randrange(0, 101) / 100, gen_density(rng, 5),
                          1 - rng.random() * 2.0 ** -rng.randrange(1, 60),
                          rng.random() * 2.0 ** -rng.randrange(1, 1000)])
        k = int((1 - rho) * ln)
        treqs.append(f"index {enc_fr(fr(rho))} {bits(rho)} {ln}")
        timpl.append(f"{k}|{k}")
        ctx.count("ieee-index")
    for _ in range(200 if quick else 2000):
        # rn53 alone against CPython's correctly rounded int/int division
        p_, q_ = rng.randrange(1, 2 ** rng.randrange(1, 120)), \
            rng.randrange(1, 2 ** rng.randrange(1, 120))
        treqs.append(f"rn53 {enc_fr(Fraction(p_, q_))}")
        timpl.append(enc_fr(fr(p_ / q_)))
        ctx.count("rn53")
    ctx.correspond("threshold_from_link_density, IEEE index evaluation, binary64 rounding",
                   treqs, timpl)
    direct_calls(ctx, rng, quick)
    shared_arrays(ctx, rng, quick)
    regenerate_histories(ctx, rng, nprng, quick)
    hilbert_histories(ctx, rng, nprng, quick)
    nan_similarities(ctx, rng, quick)
    density_function(ctx, rng, quick)
    coupled_blocks(ctx, rng, quick)
