"""C09 — similarity networks link exactly the pairs above the threshold.

proof  : lean/Pyunicorn/Properties/C09.lean (link_iff, antitone, symmetry, density bounds of the
         quantile rule, consistency after every setter history) about the model
         lean/Pyunicorn/Model/Similarity.lean and the gen_arith-generated index expressions
tie    : exact correspondence of the model with ClimateNetwork (constructor + setter histories,
         threshold_from_link_density) on dyadic similarity matrices; gen_arith for the index,
         comparison, stride and density expressions
search : the statement itself in exact rational arithmetic on the implementation (entry-wise
         link rule, density bound / tie gap, mutual consistency, monotonicity, fresh twin),
         also through the data-driven subclasses
"""
import atexit
import contextlib
import io
import math
import os
import shutil
import struct
import tempfile
from fractions import Fraction

import numpy as np

from . import common  # noqa: F401

A_STEEP, D_MIN = 20, 0.05          # documented defaults of the distance weight


# --------------------------------------------------------------------------
# encoding
# --------------------------------------------------------------------------

def fr(x):
    return Fraction(float(x))


def enc_fr(q):
    q = Fraction(q)
    return str(q.numerator) if q.denominator == 1 else f"{q.numerator}/{q.denominator}"


def enc_mat(M):
    return ";".join(",".join(enc_fr(fr(v)) for v in row) for row in M) or "-"


def bits(x):
    return struct.unpack("<Q", struct.pack("<d", float(x)))[0]


def canon_density(ld, N):
    """the implementation's float density as the exact fraction nnz / (N (N-1)) it denotes"""
    M = N * (N - 1)
    x = float(ld) * M
    r = round(x) if math.isfinite(x) else 0
    if M and abs(x - r) < 1e-6:
        return enc_fr(Fraction(r, M))
    return f"inexact:{ld!r}"


def state_of(net):
    A = np.asarray(net.adjacency)
    return (enc_fr(fr(net.threshold())) + "|" +
            (",".join(str(int(v)) for v in A.flatten()) or "-") + "|" +
            str(int(net.n_links)) + "|" + canon_density(net.link_density, A.shape[0]))


# --------------------------------------------------------------------------
# generators
# --------------------------------------------------------------------------

def gen_grid(rng, N):
    """nodes in clusters: pairs inside a cluster are closer than ~0.3 rad (weight < 1), pairs of
    different clusters are > 0.6 rad apart (float32 weight exactly 1)"""
    from pyunicorn.core import GeoGrid
    centres = [(-60, -150), (-20, -60), (10, 20), (50, 100), (75, -20)]
    lat, lon = [], []
    for _ in range(N):
        c = rng.choice(centres[:rng.choice([1, 2, 3, 5])])
        lat.append(c[0] + rng.choice([0, 0, 1, 2.5, 5, 8]) * rng.choice([-1, 1]))
        lon.append(c[1] + rng.choice([0, 0, 1, 2.5, 5, 8]) * rng.choice([-1, 1]))
    return GeoGrid(np.arange(3.0), np.array(lat, dtype=float), np.array(lon, dtype=float),
                   silence_level=3)


def damp_of(grid):
    """documented weight 0.5 (tanh(a (d - d_min)) + 1): float32 evaluation (what the model is
    fed, as exact rationals) and an independent float64 evaluation for the oracle"""
    ang = grid.angular_distance()
    d32 = 0.5 * (np.tanh(A_STEEP * (ang - D_MIN)) + 1)
    d64 = np.array([[0.5 * (math.tanh(A_STEEP * (float(x) - D_MIN)) + 1) for x in row]
                    for row in ang])
    return np.asarray(d32), d64


def gen_sim(rng, N):
    """dyadic similarity matrix (multiples of 1/16 in [-1, 1]); returns (S0, tags)"""
    levels = rng.choice([2, 3, 5, 9, 33])
    pool = rng.sample(range(-16, 17), min(levels, 33))
    if rng.random() < 0.3:
        pool = [abs(p) for p in pool]
    S = np.array([[rng.choice(pool) / 16 for _ in range(N)] for _ in range(N)], dtype=float)
    sym = rng.random() < 0.6
    if sym:
        S = np.triu(S) + np.triu(S, 1).T
    diag = rng.choice(["one", "one", "zero", "random", "neg-one"])
    if diag == "one":
        np.fill_diagonal(S, 1.0)
    elif diag == "zero":
        np.fill_diagonal(S, 0.0)
    elif diag == "neg-one":
        np.fill_diagonal(S, -1.0)
    return S, {"sym": sym, "diag": diag, "levels": levels}


def gen_threshold(rng, S):
    r = rng.random()
    vals = sorted(set(abs(float(v)) for v in S.flatten()))
    if r < 0.45:
        return rng.choice(vals)                      # tie with an entry
    if r < 0.8:
        return rng.randrange(-4, 36) / 32            # between entries, below 0, above 1
    if r < 0.9:
        return rng.choice(vals) + rng.choice([-1, 1]) / 64
    return rng.choice([0.0, 1.0, -0.5, 2.0])


def gen_density(rng, N):
    M = max(N * (N - 1), 1)
    r = rng.random()
    if r < 0.45:
        return rng.randrange(0, M + 1) / M           # rho * M integral up to rounding
    if r < 0.6:
        return rng.choice([0.0, 1.0, 0.5, 0.25, 0.75])
    if r < 0.7:
        return rng.choice([0.1, 0.2, 0.3, 0.7, 0.9, 0.05, 0.95])
    return rng.random()


def gen_ops(rng, S, N, length):
    ops = []
    for _ in range(length):
        r = rng.random()
        if r < 0.4:
            ops.append(("T", gen_threshold(rng, S)))
        elif r < 0.75:
            ops.append(("D", gen_density(rng, N)))
        else:
            ops.append(("L", rng.random() < 0.6))
    return ops


def enc_op(op):
    k, v = op
    if k == "T":
        return "T:" + enc_fr(fr(v))
    if k == "D":
        return "D:" + str(bits(v))
    return "L:" + ("1" if v else "0")


# --------------------------------------------------------------------------
# running the implementation
# --------------------------------------------------------------------------

def build(grid, S0, init, nl, directed):
    from pyunicorn.climate import ClimateNetwork
    kw = {"threshold": init[1]} if init[0] == "T" else {"link_density": init[1]}
    return ClimateNetwork(grid, S0.copy(), non_local=nl, directed=directed,
                          silence_level=3, **kw)


def apply_op(net, op):
    k, v = op
    if k == "T":
        net.set_threshold(v)
    elif k == "D":
        net.set_link_density(v)
    else:
        net.set_non_local(v)


def run_history(case):
    """-> (list of canonical states or raise:<Error>, list of observed raw states, net)"""
    init, ops = case["init"], case["ops"]
    states, raw = [], []
    net = None
    for n, op in enumerate([init] + list(ops)):
        try:
            if n == 0:
                if "builder" in case:
                    with contextlib.redirect_stdout(io.StringIO()):
                        net = case["builder"](init, case["nl"])
                    # the similarity this very object stores (estimators need not be
                    # reproducible, e.g. RainfallClimateNetwork: C10/C20's business)
                    case["S0"] = np.array(net.similarity_measure(), dtype=float)
                    case["replay"]["stored_similarity"] = case["S0"].tolist()
                else:
                    net = build(case["grid"], case["S0"], init, case["nl"], case["directed"])
            else:
                with contextlib.redirect_stdout(io.StringIO()):
                    apply_op(net, op)
        except Exception as e:  # noqa
            name = {"ZeroDivisionError": "ZeroDivision"}.get(type(e).__name__, type(e).__name__)
            states.append("raise:" + name)
            raw.append(None)
            break
        states.append(state_of(net))
        raw.append({"theta": fr(net.threshold()), "A": np.asarray(net.adjacency).copy(),
                    "n_links": int(net.n_links), "ld": float(net.link_density),
                    "nl": bool(net.non_local()), "op": op})
    return states, raw, net


# --------------------------------------------------------------------------
# oracle: the statement, evaluated exactly on the implementation's outputs
# --------------------------------------------------------------------------

NEAR = 1e-4


def near_tie(S0, d32, theta):
    """non-local decisions are exact only away from ties of the float32 product"""
    th = float(theta)
    W = np.abs(S0) * d32.astype(float)
    off = ~np.eye(S0.shape[0], dtype=bool)
    diff = np.abs(W - th)[off]
    return bool(np.any((diff > 0) & (diff <= 1e-6 * max(abs(th), 1e-3))))


def oracle_state(ctx, case, st, prev):
    """check one observed state; `case` carries S0 (float array of dyadics), d64, directed, tags"""
    S0, d64, directed = case["S0"], case["d64"], case["directed"]
    N = S0.shape[0]
    M = N * (N - 1)
    A, theta, nl = st["A"], st["theta"], st["nl"]
    absS = [[abs(fr(S0[i, j])) for j in range(N)] for i in range(N)]
    sig_base = {"class": case.get("cls", "ClimateNetwork"), "non_local": nl}

    def fail(kind, what, extra=None):
        sig = dict(sig_base, kind=kind)
        if extra:
            sig.update(extra)
        rep = dict(case["replay"], failing_state={
            "after_op": list(st["op"]), "threshold": str(theta),
            "adjacency": A.tolist(), "n_links": st["n_links"], "link_density": st["ld"]})
        ctx.fail(sig, what, rep)

    # (a) entry-wise link rule
    bad = []
    for i in range(N):
        for j in range(N):
            if i == j:
                exp = 0
            elif not nl:
                exp = int(absS[i][j] > theta)
            else:
                w = float(absS[i][j]) * d64[i, j]
                if abs(w - float(theta)) <= NEAR and w != float(theta):
                    continue                      # not decisive in float32
                exp = int(w > float(theta))
            if int(A[i, j]) != exp:
                bad.append((i, j, exp, int(A[i, j])))
    if bad:
        i, j, exp, got = bad[0]
        fail("link-rule", f"adjacency[{i},{j}]={got} but |S|{'*w' if nl else ''} > threshold "
             f"is {bool(exp)} (|S|={absS[i][j]}, threshold={theta})",
             {"diagonal": i == j})
    # (b) link count / (c) density
    nz = int(np.count_nonzero(A))
    exp_links = nz if directed else nz // 2
    if st["n_links"] != exp_links:
        fail("n_links", f"n_links={st['n_links']} but adjacency has {nz} non-zero entries "
             f"(directed={directed})")
    if M and abs(st["ld"] - nz / M) > 1e-12:
        fail("link_density", f"link_density={st['ld']} but adjacency gives {nz}/{M}")
    symS = all(absS[i][j] == absS[j][i] for i in range(N) for j in range(i))
    if symS and not np.array_equal(A, A.T):
        fail("symmetry", "symmetric similarity gave an asymmetric adjacency")
    # (d) density request
    if st["op"][0] == "D":
        rho = fr(st["op"][1])
        offv = [absS[i][j] for i in range(N) for j in range(N) if i != j]
        ties = sum(1 for v in offv if v == theta)
        diag_max = all(absS[i][i] >= max(offv) for i in range(N)) if offv else True
        tag = {"method": "set_link_density", "diag_maximal": diag_max}
        if nz > rho * M + Fraction(1, 10 ** 9):
            fail("density-exceeds-request",
                 f"requested link density {float(rho)} but realised {nz}/{M}", tag)
        if not nl and rho * M - nz > ties + Fraction(1, 10 ** 9):
            fail("density-gap-exceeds-ties",
                 f"requested {float(rho)}*{M} links, realised {nz}, only {ties} pairs tied at "
                 f"the threshold {theta}", tag)
        if offv and all(theta != absS[i][j] for i in range(N) for j in range(N)):
            fail("threshold-not-a-similarity",
                 f"threshold {theta} selected for density {float(rho)} is not one of the "
                 "similarity values", tag)
    # (e) raising the threshold only removes links
    if prev is not None and prev["nl"] == nl and st["op"][0] in "TD":
        lo, hi = (prev, st) if prev["theta"] <= theta else (st, prev)
        if np.any(hi["A"] > lo["A"]):
            fail("monotonicity", f"threshold {hi['theta']} >= {lo['theta']} but links were added")


def oracle_twin(ctx, case, net, last):
    """the object after its history equals a fresh object with the reported settings"""
    try:
        twin = build(case["grid"], case["S0"], ("T", net.threshold()), bool(net.non_local()),
                     case["directed"])
    except Exception:  # noqa
        return
    if state_of(twin) != state_of(net):
        ctx.fail({"class": case.get("cls", "ClimateNetwork"), "kind": "stale-after-history"},
                 "state after the setter history differs from a fresh object built with the "
                 "reported threshold()/non_local()",
                 dict(case["replay"], fresh=state_of(twin), observed=state_of(net)))


# --------------------------------------------------------------------------

def ops_of(lst):
    return [(k, bool(v) if k == "L" else float(v)) for k, v in lst]


def make_case(rng, N, nops, fixed=None):
    if fixed is None:
        S0, tags = gen_sim(rng, N)
        grid = gen_grid(rng, N)
        directed = rng.random() < 0.4
        nl = rng.random() < 0.35
        init = ("T", gen_threshold(rng, S0)) if rng.random() < 0.5 else \
            ("D", gen_density(rng, N))
        ops = gen_ops(rng, S0, N, nops)
    else:
        from pyunicorn.core import GeoGrid
        S0 = np.array(fixed["similarity"], dtype=float)
        tags = {"sym": bool(np.array_equal(S0, S0.T)), "diag": "replay", "levels": 0}
        grid = GeoGrid(np.arange(3.0), np.array(fixed["lat"], dtype=float),
                       np.array(fixed["lon"], dtype=float), silence_level=3)
        directed, nl = bool(fixed["directed"]), bool(fixed["non_local"])
        init, ops = ops_of([fixed["init"]])[0], ops_of(fixed["ops"])
    d32, d64 = damp_of(grid)
    replay = {"N": N, "similarity": S0.tolist(), "lat": grid.lat_sequence().tolist(),
              "lon": grid.lon_sequence().tolist(), "directed": directed, "non_local": nl,
              "init": list(init), "ops": [list(o) for o in ops]}
    return {"S0": S0, "grid": grid, "d32": d32, "d64": d64, "directed": directed, "nl": nl,
            "init": init, "ops": ops, "tags": tags, "replay": replay}


# --------------------------------------------------------------------------
# subclasses that derive the similarity from data
# --------------------------------------------------------------------------

def f32(x):
    return float(np.float32(x))


def gen_data(rng, nprng, N):
    """(T, N) observable with correlated, duplicated and negated columns (ties at |r| = 1)"""
    T = rng.choice([24, 36, 48])
    obs = nprng.randn(T, N)
    for j in range(1, N):
        r = rng.random()
        if r < 0.2:
            obs[:, j] = obs[:, rng.randrange(j)]
        elif r < 0.35:
            obs[:, j] = -obs[:, rng.randrange(j)]
        elif r < 0.6:
            obs[:, j] += rng.choice([0.5, 1, 2]) * obs[:, rng.randrange(j)]
    return obs


# HilbertClimateNetwork(directed=True) is left out: by documented design it additionally masks
# the thresholded matrix with the sign of the phase shift (a different link rule).
SUBCLASSES = ["Tsonis", "Spearman", "PartialCorrelation", "MutualInfo", "Havlin",
              "HilbertUndirected", "Rainfall", "CoupledTsonis", "Coupled", "CoupledDirected"]


def make_subclass_case(rng, nprng, cls, nops, fixed=None):
    import pyunicorn.climate as C
    from pyunicorn.core import GeoGrid
    directed = cls == "CoupledDirected"
    sim_in = None
    if fixed is None:
        N = rng.choice([3, 4, 5, 6])
        grid = gen_grid(rng, N)
        T_obs = gen_data(rng, nprng, N)
        lat, lon = grid.lat_sequence(), grid.lon_sequence()
        if cls in ("Coupled", "CoupledDirected"):
            sim_in, _ = gen_sim(rng, 2 * N)
    else:
        T_obs = np.array(fixed["observable"], dtype=float)
        lat = np.array(fixed["layer_lat"], dtype=float)
        lon = np.array(fixed["layer_lon"], dtype=float)
        if fixed.get("similarity_in") is not None:
            sim_in = np.array(fixed["similarity_in"], dtype=float)
    T = T_obs.shape[0]
    grid = GeoGrid(np.arange(T, dtype=float), lat, lon, silence_level=3)

    def builder(init, nl):
        kw = {"threshold": init[1]} if init[0] == "T" else {"link_density": init[1]}
        kw.update(non_local=nl, silence_level=3)
        data = C.ClimateData(observable=T_obs.copy(), grid=grid, time_cycle=12,
                             silence_level=3)
        if cls == "Tsonis":
            return C.TsonisClimateNetwork(data, winter_only=False, **kw)
        if cls == "Spearman":
            return C.SpearmanClimateNetwork(data, winter_only=False, **kw)
        if cls == "PartialCorrelation":
            return C.PartialCorrelationClimateNetwork(data, winter_only=False, **kw)
        if cls == "MutualInfo":
            return C.MutualInfoClimateNetwork(data, winter_only=False, **kw)
        if cls == "Havlin":
            return C.HavlinClimateNetwork(data, max_delay=2, **kw)
        if cls == "HilbertUndirected":
            return C.HilbertClimateNetwork(data, directed=False, **kw)
        if cls == "Rainfall":
            return C.RainfallClimateNetwork(data, **kw)
        if cls == "CoupledTsonis":
            return C.CoupledTsonisClimateNetwork(data, data, **kw)
        return C.CoupledClimateNetwork(grid, grid, sim_in.copy(), directed=directed, **kw)

    try:
        with contextlib.redirect_stdout(io.StringIO()):
            probe = builder(("T", 0.5), False)
    except Exception:  # noqa   (estimating the similarity is C10's business)
        return None
    S0 = np.array(probe.similarity_measure(), dtype=float)      # stored |similarity| (float32)
    if not np.all(np.isfinite(S0)):
        return None
    d32, d64 = damp_of(probe.grid)
    M = S0.shape[0]
    if fixed is None:
        nl = rng.random() < 0.35
        init = ("T", f32(gen_threshold(rng, S0))) if rng.random() < 0.5 else \
            ("D", gen_density(rng, M))
        ops = [(k, f32(v)) if k == "T" else (k, v) for k, v in gen_ops(rng, S0, M, nops)]
    else:
        nl = bool(fixed["non_local"])
        init, ops = ops_of([fixed["init"]])[0], ops_of(fixed["ops"])
    offmax = float((S0 - np.diag(np.diag(S0))).max())
    tags = {"sym": bool(np.array_equal(S0, S0.T)), "levels": 0,
            "diag": "maximal" if float(np.diag(S0).min()) >= offmax else "non-maximal"}
    replay = {"class": cls, "N": M, "observable": T_obs.tolist(),
              "layer_lat": list(map(float, lat)), "layer_lon": list(map(float, lon)),
              "similarity_in": None if sim_in is None else sim_in.tolist(),
              "stored_similarity": S0.tolist(), "lat": probe.grid.lat_sequence().tolist(),
              "lon": probe.grid.lon_sequence().tolist(), "directed": directed, "non_local": nl,
              "init": list(init), "ops": [list(o) for o in ops]}
    return {"cls": cls, "builder": builder, "S0": S0, "grid": probe.grid, "d32": d32, "d64": d64,
            "directed": directed, "nl": nl, "init": init, "ops": ops, "tags": tags,
            "replay": replay}


def request_of(case):
    N = case["S0"].shape[0]
    return ("hist {} {} {} {} {} {} {}".format(
        N, int(case["directed"]), int(case["nl"]), enc_mat(case["S0"]), enc_mat(case["d32"]),
        enc_op(case["init"]), ",".join(enc_op(o) for o in case["ops"]) or "-"))


def exercise(ctx, case, reqs, impl, kept):
    """run the implementation on one case: oracle always, correspondence unless a non-local
    state sits on a float32 near-tie"""
    states, raw, net = run_history(case)
    prev = None
    skip = False
    for st in raw:
        if st is None:
            break
        if st["nl"] and near_tie(case["S0"], case["d32"], st["theta"]):
            skip = True
        oracle_state(ctx, case, st, prev)
        prev = st
    if net is not None and raw and raw[-1] is not None:
        oracle_twin(ctx, case, net, raw[-1])
    t = case["tags"]
    N = case["S0"].shape[0]
    ctx.count(f"N={N}" if N <= 8 else "N>8")
    if "cls" in case:
        ctx.count("class=" + case["cls"])
    ctx.count("diag=" + t["diag"])
    ctx.count("sym" if t["sym"] else "asym")
    ctx.count("directed" if case["directed"] else "undirected")
    ctx.count("init=" + case["init"][0] + (",non_local" if case["nl"] else ""))
    for o in case["ops"]:
        ctx.count("op=" + o[0])
    for n, s in enumerate(states):
        if s.startswith("raise:"):
            ctx.count(s)
            if N >= 2:
                op = ([case["init"]] + list(case["ops"]))[n]
                ctx.fail({"class": case.get("cls", "ClimateNetwork"), "kind": "raises",
                          "error": s[6:], "call": ("constructor:" if n == 0 else "setter:") + op[0]},
                         f"{'constructor' if n == 0 else 'setter'} with "
                         f"{'threshold' if op[0] == 'T' else 'link_density' if op[0] == 'D' else 'non_local'}"
                         f"={op[1]} raised {s[6:]} on a valid {N}-node input",
                         dict(case["replay"], failing_call=list(op), call_index=n))
    nontriv = N >= 2 and any(
        st is not None and 0 < int(np.count_nonzero(st["A"])) < N * (N - 1) for st in raw)
    canon = (case.get("cls", ""), N, case["S0"].tobytes().hex(), case["directed"], case["nl"],
             enc_op(case["init"]), [enc_op(o) for o in case["ops"]],
             case["replay"]["lat"], case["replay"]["lon"])
    ctx.case(canon, nontriv, case["replay"] if N <= 4 else None)
    if skip:
        ctx.count("near-tie(non_local): oracle only")
        return
    reqs.append(request_of(case))
    impl.append(";".join(states))
    kept.append(case)


def scratch_cwd():
    d = tempfile.mkdtemp(prefix="C09-")
    atexit.register(shutil.rmtree, d, True)
    os.chdir(d)


def replay(ctx, rp):
    """./check C09 --replay FILE: re-run the recorded case (oracle + correspondence)"""
    r = rp["replay"]
    scratch_cwd()
    with contextlib.redirect_stdout(io.StringIO()):
        if "class" in r:
            case = make_subclass_case(None, None, r["class"], 0, fixed=r)
        else:
            case = make_case(None, int(r["N"]), 0, fixed=r)
    reqs, impl, kept = [], [], []
    with contextlib.redirect_stdout(io.StringIO()):
        exercise(ctx, case, reqs, impl, kept)
    if reqs:
        ctx.correspond("replayed history", reqs, impl)


def regenerate_histories(ctx, rng, nprng, quick):
    """oracle only: subclasses that re-derive the similarity on a live object
    (set_winter_only / set_max_delay / set_directed -> _regenerate_network): afterwards the
    network must be the one a fresh object with the new setting has — also with
    non_local=True and after intermediate setters."""
    import pyunicorn.climate as C
    from pyunicorn.core import GeoGrid
    specs = [("Tsonis", C.TsonisClimateNetwork, "winter_only"),
             ("Spearman", C.SpearmanClimateNetwork, "winter_only"),
             ("PartialCorrelation", C.PartialCorrelationClimateNetwork, "winter_only"),
             ("MutualInfo", C.MutualInfoClimateNetwork, "winter_only"),
             ("Havlin", C.HavlinClimateNetwork, "max_delay"),
             ("Hilbert", C.HilbertClimateNetwork, "directed")]
    for rep in range(4 if quick else 20):
        for name, cls, knob in specs:
            N = rng.choice([4, 5, 6])
            g0 = gen_grid(rng, N)
            obs = gen_data(rng, nprng, N)
            T = obs.shape[0]
            grid = GeoGrid(np.arange(T, dtype=float), g0.lat_sequence(), g0.lon_sequence(),
                           silence_level=3)
            nl = rng.random() < 0.6
            thr = rng.choice([0.25, 0.375, 0.5])
            v0, v1 = {"winter_only": (False, True), "max_delay": (2, 4),
                      "directed": (False, True)}[knob]
            if rng.random() < 0.5:
                v0, v1 = v1, v0

            def build(v, threshold):
                data = C.ClimateData(observable=obs.copy(), grid=grid, time_cycle=12,
                                     silence_level=3)
                return cls(data, threshold=threshold, non_local=nl, silence_level=3, **{knob: v})
            hist = []
            try:
                with contextlib.redirect_stdout(io.StringIO()):
                    net = build(v0, thr)
                    if rng.random() < 0.5:
                        t2 = rng.choice([0.3125, 0.4375, 0.5625])
                        net.set_threshold(t2)
                        hist.append(["set_threshold", t2])
                        thr = t2
                    getattr(net, "set_" + knob)(v1)
                    hist.append(["set_" + knob, v1])
                    if rng.random() < 0.5:
                        d = rng.choice([0.3, 0.5, 0.7])
                        net.set_link_density(d)
                        hist.append(["set_link_density", d])
                        twin = build(v1, 0.5)
                        twin.set_link_density(d)
                    else:
                        twin = build(v1, thr)
                    a = (np.asarray(net.adjacency), int(net.n_links), float(net.link_density),
                         float(net.threshold()), np.asarray(net.similarity_measure()))
                    b = (np.asarray(twin.adjacency), int(twin.n_links), float(twin.link_density),
                         float(twin.threshold()), np.asarray(twin.similarity_measure()))
            except Exception as ex:  # noqa  (estimator problems are C10's business)
                ctx.count(f"regenerate-raises:{name}:{type(ex).__name__}")
                continue
            ctx.case(("regen", name, nl, str(hist), obs.tobytes().hex()[:40]), True,
                     {"class": name, "non_local": nl, "history": hist})
            ctx.count(f"regenerate:{name}" + (",non_local" if nl else ""))
            if not np.allclose(a[4], b[4], rtol=1e-5, atol=1e-6):
                continue        # the estimator itself is not reproducible (C10 / C20): not judged
            for k, lab in enumerate(("adjacency", "n_links", "link_density", "threshold")):
                same = np.array_equal(a[k], b[k]) if k < 2 else abs(a[k] - b[k]) <= 1e-6
                if not same:
                    ctx.fail({"kind": "regenerate-differs", "class": name, "observable": lab},
                             f"{name}ClimateNetwork(non_local={nl}) after {hist}: {lab} differs from "
                             f"a fresh network with {knob}={v1}",
                             {"class": name, "non_local": nl, "history": hist,
                              "observable": obs.tolist(), "lat": list(map(float, grid.lat_sequence())),
                              "lon": list(map(float, grid.lon_sequence())),
                              "observed": np.asarray(a[k]).tolist(),
                              "fresh": np.asarray(b[k]).tolist()})
                    break


def run(ctx):
    rng = ctx.rng
    quick = ctx.tier == "quick"
    ctx.rule = ("ClimateNetwork objects over dyadic (k/16) similarity matrices, N in 1..12 "
                "(thorough: ..24), symmetric/asymmetric, diagonal maximal/zero/random/negative, "
                "ties, directed on/off, non_local on/off over clustered grids, built by threshold "
                "or link density, followed by random set_threshold/set_link_density/set_non_local "
                "histories; distinct = distinct (matrix, grid, flags, history); non-trivial = some "
                "observed state has a network that is neither empty nor complete")
    ctx.trusted = common.DEFAULT_TRUSTED + [
        "IEEE double evaluation of int((1-rho)*len) lies within one of the exact value "
        "(theorems hold for every index in that interval; the model evaluates it in Lean Float "
        "and the correspondence compares it with CPython)",
        "GeoGrid.angular_distance and the float32 tanh weight are taken from numpy (the model "
        "receives the weight matrix; the oracle recomputes it in float64 with a 1e-4 margin)",
    ]
    ctx.proofs()

    reqs, impl, kept = [], [], []
    # ---------------- constructor-only cases: many matrices x thresholds / densities ---------
    nmat = 800 if quick else 8000
    sizes = [2, 3, 3, 4, 4, 5, 6, 8, 12] if quick else [2, 3, 4, 5, 6, 8, 12, 16, 24]
    for _ in range(nmat):
        N = rng.choice(sizes)
        exercise(ctx, make_case(rng, N, rng.choice([0, 1, 2, 5])), reqs, impl, kept)
    # ---------------- long histories ---------------------------------------------------------
    for _ in range(200 if quick else 2000):
        N = rng.choice([2, 3, 4, 5, 7])
        exercise(ctx, make_case(rng, N, rng.randrange(6, 9 if quick else 13)), reqs, impl, kept)
    # ---------------- edge cases ------------------------------------------------------------
    for N in (1, 2):
        for _ in range(4):
            exercise(ctx, make_case(rng, N, 2), reqs, impl, kept)
    bad, model = ctx.correspond(
        "Lean Similarity model == ClimateNetwork (constructor + setter histories)", reqs, impl)
    # ---------------- subclasses deriving the similarity from data ---------------------------
    nprng = np.random.RandomState(rng.randrange(2 ** 31))
    sreqs, simpl, skept = [], [], []
    scratch_cwd()     # MutualInfo reads/writes a file in the cwd
    for cls in SUBCLASSES:
        for _ in range(15 if quick else 150):
            with contextlib.redirect_stdout(io.StringIO()):
                case = make_subclass_case(rng, nprng, cls, rng.choice([1, 3, 6]))
            if case is None:
                ctx.count("class=" + cls + ": similarity not computable / not finite (skipped)")
                continue
            with contextlib.redirect_stdout(io.StringIO()):
                exercise(ctx, case, sreqs, simpl, skept)
    ctx.correspond("Lean Similarity model == subclasses of ClimateNetwork on their stored "
                   "similarity", sreqs, simpl)
    ctx.extra["histories_compared"] = len(reqs)
    ctx.extra["states_compared"] = sum(s.count(";") + 1 for s in impl)

    # ---------------- threshold_from_link_density alone, float index vs CPython ------------
    treqs, timpl = [], []
    for _ in range(150 if quick else 1500):
        N = rng.choice(sizes)
        S0, tags = gen_sim(rng, N)
        rho = gen_density(rng, N)
        grid = gen_grid(rng, N)
        net = build(grid, S0, ("T", 0.5), False, False)
        try:
            th = enc_fr(fr(net.threshold_from_link_density(rho)))
        except Exception as e:  # noqa
            th = "raise:" + type(e).__name__
        treqs.append(f"tfld {N} {enc_mat(np.abs(S0))} {bits(rho)}")
        timpl.append(th)
        ctx.count("tfld")
    outside = []
    eps = Fraction(1, 10 ** 9)
    for _ in range(300 if quick else 3000):
        ln = rng.choice([2, 6, 12, 20, 30, 56, 90, 132, 1000, 9900, 999000])
        rho = rng.choice([rng.randrange(0, ln + 1) / ln, rng.random(),
                          rng.randrange(0, 101) / 100])
        k = int((1 - rho) * ln)
        treqs.append(f"index {bits(rho)} {ln}")
        timpl.append(str(k))
        x = (1 - Fraction(rho)) * ln
        if not (x - 1 - eps <= k <= x + eps):
            outside.append((rho, ln, k))
        ctx.count("float-index")
    ctx.correspond("threshold_from_link_density and IEEE index evaluation", treqs, timpl)
    regenerate_histories(ctx, rng, nprng, quick)
    ctx.obligation("IEEE evaluation of int((1-rho)*len) lies in [x-1-eps, x+eps], eps=1e-9 "
                   "(index hypotheses of density_le_request / density_gap_le_ties)",
                   "trusted-base-probe", not outside, repr(outside[:5]))
