"""C01 (round 4) — stored state under re-initialising mutators.

Why seeded change C01-6 (`RecurrenceNetwork.set_fixed_threshold` re-initialising the network with
`directed=self.directed`) was missed: (1) `directed` was not among the compared summary
attributes; (2) RecurrenceNetwork has 6 spec mutators = 36 ordered pairs, the quick tier sampled
16 of them, and (`set_fixed_local_recurrence_rate`, `set_fixed_threshold`) was not drawn for
seed 0; (3) every spec constructs its objects in one constructor mode only (`threshold=`), so
"constructed with `local_recurrence_rate=`, then `set_fixed_threshold`" never occurred;
(4) derived invokers are compared with a *replay* twin, which carries the same leak.
C01-5 (`ClimateNetwork.set_link_density` bypassing the subclass override of `set_threshold`) was
missed because the specs of the data-derived climate networks had no `set_link_density` mutator
with fresh-twin bookkeeping (only the replayed derived invoker).

This module therefore runs, deterministically and for every class spec:

  * structural histories: EVERY ordered pair of spec mutators, every (constructor mode, mutator)
    pair, and a sample of triples; after each history the *structural summary* — `directed`, `N`,
    `n_links`, `link_density`, shape and dtype of `adjacency` / `node_weights` / `R` / `sp_A`,
    the igraph's directedness / vertex / edge counts — and the spec's summary expressions must
    equal the fresh twin's;
  * the tie of the Lean mode tables (Model/MemoMode.lean, regenerated from the source): where the
    table says that a mutator stores the constant c in a mode field on every path, the real
    object holds c after the mutator, from every prior state; a mode field observed to be
    stored by a mutator has an assignment event in its table;
  * coverage: every public mutator that assigns a mode field has fresh-twin bookkeeping.
"""
import ast
import contextlib
import io

import numpy as np


def quiet(fn, *a, **k):
    with contextlib.redirect_stdout(io.StringIO()):
        return fn(*a, **k)


# attributes that depend on the number of nodes of the network part (grouped into one failure per
# history for constructor variants, see the known finding C01-rn-missing-values)
NETPART = ("N", "adjacency", "n_links", "link_density", "node_weights", "sp_A", "graph",
           "total_node_weight", "mean_node_weight",
           # RQA measures normalise by / scan up to self.N, which the network part overwrites
           "recurrence_rate()", "determinism()", "laminarity()")
SCALARS = ("directed", "N", "M", "n_links", "link_density")
ARRAYS = ("adjacency", "node_weights", "R", "sp_A")


def structure(o):
    """the structural summary of an object: what any two objects with the same current inputs
    must share whatever their histories"""
    out = {}
    for a in SCALARS:
        if hasattr(o, a):
            try:
                v = getattr(o, a)
            except Exception as ex:  # noqa
                v = "raises:" + type(ex).__name__
            if not callable(v):
                out[a] = v if not isinstance(v, (float, np.floating)) else round(float(v), 12)
    for a in ARRAYS:
        if hasattr(o, a):
            try:
                v = getattr(o, a)
            except Exception as ex:  # noqa
                out[a] = "raises:" + type(ex).__name__
                continue
            if v is None or callable(v):
                out[a] = None if v is None else "callable"
                continue
            out[a] = (tuple(int(x) for x in getattr(v, "shape", ())), str(getattr(v, "dtype", "?")))
    g = getattr(o, "graph", None)
    if g is not None and hasattr(g, "is_directed"):
        out["graph"] = (bool(g.is_directed()), int(g.vcount()), int(g.ecount()))
    return out


def _same_scalar(a, b):
    if isinstance(a, float) or isinstance(b, float):
        try:
            return abs(float(a) - float(b)) <= 1e-9
        except Exception:  # noqa
            return a == b
    try:
        return bool(a == b)
    except Exception:  # noqa
        return False


def run_history(spec, rng, hist, eval_summary):
    """hist = [("ctor", mode) | ("mut", name), ...]; returns the object (queries of the summary
    expressions are interleaved so that whatever they memoise is populated before the next step)"""
    obj = None
    for kind, what in hist:
        if kind == "ctor":
            if what is None:
                obj = quiet(spec["make"], rng)
            elif isinstance(what, dict):        # a constructor variant: keyword arguments of make
                obj = quiet(spec["make"], rng, **what)
            else:
                obj = quiet(spec["make"], rng, what)
        else:
            quiet(spec["mutators"][what], obj, rng)
        for expr in spec["summary"]:
            try:
                eval_summary(obj, expr)
            except Exception:  # noqa
                pass
        structure(obj)
    return obj


def structural_histories(ctx, cname, spec, quick, eval_summary, same, brief):
    rng = ctx.rng
    names = sorted(spec["mutators"])
    modes = [None] + list(spec.get("ctor_modes", [])) + list(spec.get("ctor_variants", []))
    hists = []
    for m in modes:
        for o in names:
            hists.append([("ctor", m), ("mut", o)])
    for o1 in names:
        for o2 in names:
            hists.append([("ctor", None), ("mut", o1), ("mut", o2)])
    triples = [(m, a, b, c) for m in modes for a in names for b in names for c in names]
    ntr = min(len(triples), (12 if quick else 80))
    for m, a, b, c in rng.sample(triples, ntr):
        hists.append([("ctor", m), ("mut", a), ("mut", b), ("mut", c)])
    for m in modes[1:]:
        # two mutators on an object constructed in another mode
        prs = [(a, b) for a in names for b in names]
        for a, b in rng.sample(prs, min(len(prs), 4 if quick else 16)):
            hists.append([("ctor", m), ("mut", a), ("mut", b)])
    for hist in hists:
        label = [("ctor" + ("" if w is None else str(w))) if k == "ctor" else w for k, w in hist]
        try:
            obj = run_history(spec, rng, hist, eval_summary)
            tw = quiet(spec["twin"], obj)
        except Exception as ex:  # noqa
            ctx.count(f"{cname}:structural:history-raises:{type(ex).__name__}")
            continue
        ctx.case((cname, "structural", tuple(label)), len(hist) > 2 or hist[0][1] is not None,
                 {"class": cname, "history": label})
        ctx.count(f"{cname}:structural-histories")
        so, st = structure(obj), structure(tw)
        variant = hist[0][1].get("variant") if isinstance(hist[0][1], dict) else None
        netpart = []
        for k in sorted(set(so) | set(st)):
            a, b = so.get(k, "<absent>"), st.get(k, "<absent>")
            if not (_same_scalar(a, b) if not isinstance(a, tuple) else a == b):
                if variant is not None and k in NETPART:
                    netpart.append((k, a, b))     # one failure per history (below)
                    continue
                ctx.fail({"kind": "stale-structure", "class": cname, "attribute": k,
                          "mutator": label[-1], "after": label[-2], "variant": variant},
                         f"{cname}.{k} after {label} is {a!r} but a fresh object given the current "
                         f"inputs has {b!r}",
                         {"class": cname, "attribute": k, "history": label,
                          "observed": repr(a), "fresh": repr(b)})
        if netpart:
            ctx.fail({"kind": "stale-structure", "class": cname, "attribute": "network-part",
                      "mutator": label[-1], "after": label[-2], "variant": variant},
                     f"{cname}: size-dependent network attributes after {label} differ from a fresh "
                     f"object given the current inputs: " +
                     "; ".join(f"{k} {a!r} vs {b!r}" for k, a, b in netpart),
                     {"class": cname, "history": label,
                      "differences": [[k, repr(a), repr(b)] for k, a, b in netpart]})
        for expr in spec["summary"]:
            if variant is not None and expr in NETPART:
                continue        # compared structurally above
            try:
                a, b = eval_summary(obj, expr), eval_summary(tw, expr)
            except Exception:  # noqa
                continue
            if not same(a, b):
                ctx.fail({"kind": "stale-summary", "class": cname, "attribute": expr,
                          "mutator": label[-1], "after": label[-2], "variant": variant},
                         f"{cname}.{expr} after {label} is {brief(a)} but a fresh object reports "
                         f"{brief(b)}",
                         {"class": cname, "attribute": expr, "history": label,
                          "observed": brief(a), "fresh": brief(b)})


def mode_tie(ctx, common, SPECS, gen, traced):
    """correspondence of the Lean mode tables with the real objects + coverage obligation"""
    rng = ctx.rng
    modes, names = gen["modes"], gen["names"]
    fname = {v: k for k, v in names.items()}
    classes = [c for c in SPECS if c in modes]
    ans = common.driver(ctx.pid, [f"modefields {c}" for c in classes])
    with_modes = {c: [int(x) for x in a.split(",")] for c, a in zip(classes, ans)
                  if a not in ("-", "no-such-class")}
    ctx.extra["mode_fields"] = {c: [fname[f] for f in fs] for c, fs in with_modes.items()}
    # constants as the translator numbered them (`constNames` of the Lean file)
    cval = {i: ast.literal_eval(r) for r, i in gen["consts"].items()}
    bad, uncovered, nchecked = [], [], 0
    for cname, fields in with_modes.items():
        spec = SPECS[cname]()
        order = modes[cname]["order"]
        preds = common.driver(ctx.pid, [f"modeconst {cname} {i}" for i in range(len(order))])
        muts = sorted(spec["mutators"])
        for oi, oname in enumerate(order):
            pred = dict(p.split(":") for p in preds[oi].split(",")) if preds[oi] != "-" else {}
            assigns = [int(f) for f, v in pred.items() if v != "-"]
            if not assigns:
                continue
            if oname not in spec["mutators"]:
                uncovered.append(f"{cname}.{oname} assigns mode field(s) "
                                 f"{[fname[f] for f in assigns]} but has no spec mutator with "
                                 "fresh-twin bookkeeping")
                continue
            priors = [None] + muts
            for o1 in priors:
                try:
                    obj = quiet(spec["make"], rng)
                    if o1 is not None:
                        quiet(spec["mutators"][o1], obj, rng)
                    before = {f: getattr(obj, fname[f], "<absent>") for f in assigns}
                    r, w = set(), set()
                    with traced(spec["cls"], obj, r, w):
                        quiet(spec["mutators"][oname], obj, rng)
                except Exception as ex:  # noqa
                    ctx.count(f"{cname}:mode-tie:raises:{type(ex).__name__}")
                    continue
                for f, v in pred.items():
                    f = int(f)
                    nchecked += 1
                    ctx.count(f"{cname}:mode-tie:predictions")
                    got = getattr(obj, fname[f], "<absent>")
                    if v.startswith("c"):
                        want = cval[int(v[1:])]
                        if not (got == want and type(got) is type(want)):
                            bad.append(f"{cname}: after {o1}; {oname} the table predicts "
                                       f"{fname[f]} = {want!r}, the object holds {got!r}")
                    elif v == "-" and fname[f] in w:
                        bad.append(f"{cname}.{oname} stores the mode field {fname[f]} but the "
                                   "table has no assignment event for it")
                    _ = before
        # mode fields stored by mutators the table says do not assign them
        for oname in muts:
            if oname not in order:
                continue
            pred = preds[order.index(oname)]
            pred = dict(p.split(":") for p in pred.split(",")) if pred != "-" else {}
            silent = [int(f) for f, v in pred.items() if v == "-"]
            if not silent:
                continue
            try:
                obj = quiet(spec["make"], rng)
                r, w = set(), set()
                with traced(spec["cls"], obj, r, w):
                    quiet(spec["mutators"][oname], obj, rng)
            except Exception:  # noqa
                continue
            nchecked += 1
            for f in silent:
                if fname[f] in w:
                    bad.append(f"{cname}.{oname} stores the mode field {fname[f]} but the table "
                               "has no assignment event for it")
    ctx.obligation(f"correspondence: constants the Lean mode tables predict for mode fields after "
                   f"a mutator (from every prior state) == the real objects' attributes; stores "
                   f"of mode fields are events of the tables ({nchecked} checks, classes with "
                   f"mode fields: {sorted(with_modes)})", "correspondence", not bad,
                   "\n".join(bad[:10]))
    ctx.obligation("coverage: every public mutator that assigns a mode field is driven with "
                   "fresh-twin bookkeeping", "coverage", not uncovered, "\n".join(uncovered[:10]))
    # direct the failing-input search: offending (mutator, event) pairs of tables that are not
    # modeWf (the all-pairs structural histories contain the history that exposes them)
    off = common.driver(ctx.pid, [f"modeoffending {c}" for c in classes])
    ctx.extra["mode_offending"] = {c: a for c, a in zip(classes, off) if a != "-"}
