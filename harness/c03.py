"""C03 — Network measures equal their published definitions.

proof  : lean/Pyunicorn/Properties/C03.lean (matrix formulas / kernel loops =
         counts of the named sub-structures, BFS = shortest walk length, Laplacian
         laws, path-measure conventions, assortativity = Pearson, unit-weight
         n.s.i. relations, arithmetic width of the cliquishness denominators,
         translator tie translate/arith_C03.json; round 4: link-weighted motif clustering =
         Fagiolo's definition, Newman random-walk kernel + normalisation by the component size)
tie    : correspondence of the Lean model (lean/Pyunicorn/Model/Net*.lean) with
         the public methods of `Network` and with the Cython kernels called
         directly, on the same graphs: exact for integer outputs, |x - p/q| <=
         1e-9*max(1,|p/q|) for float outputs against the model's rationals
search : brute-force definitions in `fractions.Fraction` (subset enumeration,
         Floyd-Warshall with path counting, peeling by subset search, Pearson
         correlation, dense linear algebra for the spectral / random-walk
         measures) evaluated on the implementation's graphs, independent of Lean;
         harness/c03_sweep.py: every public measure x every optional argument, coverage obligation
"""
import contextlib
import io
import itertools
import math
import os
from fractions import Fraction as Fr

import numpy as np

from . import common
from . import c03_sweep

TOL = 1e-9
INF = float("inf")


# --------------------------------------------------------------------------
# encoding
# --------------------------------------------------------------------------

def enc_mat(A):
    return ";".join(",".join(str(int(v)) for v in row) for row in A) or "-"


def enc_vec(v):
    return ",".join(str(int(x)) for x in v) or "-"


def enc_fr(x):
    x = Fr(x)
    return str(x.numerator) if x.denominator == 1 else f"{x.numerator}/{x.denominator}"


def enc_frs(v):
    return ",".join(enc_fr(x) for x in v) or "-"


def parse_num(tok):
    if tok == "nan":
        return None
    if tok == "inf":
        return INF
    return Fr(tok)


def parse_rows(s):
    if s == "-":
        return []
    return [[parse_num(t) for t in row.split(",")] if row != "-" else [] for row in s.split(";")]


def close(x, q, tol=TOL):
    """implementation float `x` against exact model value `q` (Fraction / inf / None=nan)"""
    if q is None:
        return isinstance(x, float) and math.isnan(x) or (hasattr(x, "dtype") and np.isnan(x))
    if q == INF:
        return x == INF
    x = float(x)
    if math.isnan(x) or math.isinf(x):
        return False
    return abs(x - float(q)) <= tol * max(1.0, abs(float(q)))


def quiet(f, *a, **k):
    """call the implementation; ('ok', value) or ('raise', ExceptionName)"""
    buf = io.StringIO()
    try:
        with contextlib.redirect_stdout(buf), np.errstate(all="ignore"):
            return "ok", f(*a, **k)
    except Exception as e:  # noqa
        return "raise", type(e).__name__


# --------------------------------------------------------------------------
# graph generators
# --------------------------------------------------------------------------

def all_undirected(n):
    pairs = [(i, j) for i in range(n) for j in range(i + 1, n)]
    for bits in itertools.product([0, 1], repeat=len(pairs)):
        A = np.zeros((n, n), dtype=np.int8)
        for (i, j), b in zip(pairs, bits):
            A[i, j] = A[j, i] = b
        yield A


def all_directed(n):
    pairs = [(i, j) for i in range(n) for j in range(n) if i != j]
    for bits in itertools.product([0, 1], repeat=len(pairs)):
        A = np.zeros((n, n), dtype=np.int8)
        for (i, j), b in zip(pairs, bits):
            A[i, j] = b
        yield A


def random_graph(rng, n, p, directed):
    A = np.zeros((n, n), dtype=np.int8)
    for i in range(n):
        for j in range(n if directed else i):
            if i != j and rng.random() < p:
                A[i, j] = 1
                if not directed:
                    A[j, i] = 1
    return A


def union(*blocks):
    n = sum(b.shape[0] for b in blocks)
    A = np.zeros((n, n), dtype=np.int8)
    o = 0
    for b in blocks:
        k = b.shape[0]
        A[o:o + k, o:o + k] = b
        o += k
    return A


def path(n):
    A = np.zeros((n, n), dtype=np.int8)
    for i in range(n - 1):
        A[i, i + 1] = A[i + 1, i] = 1
    return A


def cycle(n):
    A = path(n)
    if n > 2:
        A[0, n - 1] = A[n - 1, 0] = 1
    return A


def star(n):
    A = np.zeros((n, n), dtype=np.int8)
    A[0, 1:] = 1
    A[1:, 0] = 1
    return A


def clique(n):
    return (np.ones((n, n), dtype=np.int8) - np.eye(n, dtype=np.int8)).astype(np.int8)


def bipartite(a, b):
    A = np.zeros((a + b, a + b), dtype=np.int8)
    A[:a, a:] = 1
    A[a:, :a] = 1
    return A


def multipath(k, length):
    """two terminals joined by k node-disjoint paths of equal length (multiplicity k)"""
    n = 2 + k * (length - 1)
    A = np.zeros((n, n), dtype=np.int8)
    nxt = 2
    for _ in range(k):
        prev = 0
        for _ in range(length - 1):
            A[prev, nxt] = A[nxt, prev] = 1
            prev = nxt
            nxt += 1
        A[prev, 1] = A[1, prev] = 1
    return A


def permuted(rng, A):
    p = list(range(A.shape[0]))
    rng.shuffle(p)
    return A[np.ix_(p, p)]


def structured(rng):
    fam = [
        ("path", path(5)), ("path", path(8)), ("star", star(6)), ("star", star(9)),
        ("clique", clique(4)), ("clique", clique(5)), ("clique", clique(6)), ("clique", clique(7)),
        ("cycle", cycle(6)), ("cycle", cycle(7)),
        ("bipartite", bipartite(2, 3)), ("bipartite", bipartite(3, 3)), ("bipartite", bipartite(4, 5)),
        ("union", union(clique(4), path(3))), ("union", union(cycle(5), clique(5), star(4))),
        ("union", union(clique(5), clique(5))),
        ("isolated", union(clique(5), np.zeros((2, 2), dtype=np.int8))),
        ("isolated", union(np.zeros((1, 1), dtype=np.int8), star(6))),
        ("empty", np.zeros((4, 4), dtype=np.int8)),
        ("multipath", multipath(3, 2)), ("multipath", multipath(4, 3)), ("multipath", multipath(5, 2)),
        ("wheel", None),
    ]
    out = []
    for name, A in fam:
        if name == "wheel":
            A = union(np.zeros((1, 1), dtype=np.int8), cycle(7))
            A[0, 1:] = 1
            A[1:, 0] = 1
        out.append((name, A))
        out.append((name + "-perm", permuted(rng, A)))
    # clique with a pendant hub: a node of degree >= 5 whose neighbourhood has K3 and K4
    A = union(clique(6), path(3))
    A[0, 6] = A[6, 0] = 1
    out.append(("clique+tail", A))
    return out


# --------------------------------------------------------------------------
# brute-force definitions (the oracle), exact
# --------------------------------------------------------------------------

def floyd(n, W):
    """all-pairs shortest path lengths and numbers of shortest paths.
    W[i][j] = link length or None."""
    d = [[(0 if i == j else (W[i][j] if W[i][j] is not None else INF)) for j in range(n)]
         for i in range(n)]
    for k in range(n):
        for i in range(n):
            dik = d[i][k]
            if dik == INF:
                continue
            for j in range(n):
                if dik + d[k][j] < d[i][j]:
                    d[i][j] = dik + d[k][j]
    return d


def count_paths(n, A, d):
    """sigma[s][t] = number of shortest s-t paths in the unweighted graph"""
    sig = [[0] * n for _ in range(n)]
    for s in range(n):
        order = sorted((t for t in range(n) if d[s][t] != INF), key=lambda t: d[s][t])
        sig[s][s] = 1
        for t in order:
            if t == s:
                continue
            sig[s][t] = sum(sig[s][u] for u in range(n)
                            if A[u][t] and d[s][u] != INF and d[s][u] + 1 == d[s][t])
    return sig


class Oracle:
    def __init__(self, A, directed):
        self.A = [[int(v) for v in row] for row in A]
        self.n = len(self.A)
        self.directed = directed
        n, A_ = self.n, self.A
        self.out = [sum(A_[i]) for i in range(n)]
        self.inn = [sum(A_[j][i] for j in range(n)) for i in range(n)]
        self.deg = [self.inn[i] + self.out[i] for i in range(n)] if directed else list(self.out)
        self.N_out = [set(j for j in range(n) if A_[i][j]) for i in range(n)]
        self.N_in = [set(j for j in range(n) if A_[j][i]) for i in range(n)]
        self._d = None
        self._sig = None

    # -- paths ---------------------------------------------------------------
    @property
    def d(self):
        if self._d is None:
            self._d = floyd(self.n, [[1 if v else None for v in row] for row in self.A])
        return self._d

    @property
    def sig(self):
        if self._sig is None:
            self._sig = count_paths(self.n, self.A, self.d)
        return self._sig

    def connected(self):
        return all(x != INF for row in self.d for x in row)

    def bildegree(self):
        return [len(self.N_out[i] & self.N_in[i]) for i in range(self.n)]

    def motif(self, kind):
        n, A = self.n, self.A
        res = []
        bil = self.bildegree()
        for i in range(n):
            cnt = 0
            for j in range(n):
                for k in range(n):
                    if kind == "cycle":
                        cnt += A[i][j] and A[j][k] and A[k][i]
                    elif kind == "mid":
                        cnt += A[i][j] and A[k][j] and A[k][i]
                    elif kind == "in":
                        cnt += A[j][i] and A[j][k] and A[k][i]
                    else:
                        cnt += A[i][j] and A[j][k] and A[i][k]
            if kind in ("cycle", "mid"):
                T = self.inn[i] * self.out[i] - bil[i]
            elif kind == "in":
                T = self.inn[i] * (self.inn[i] - 1)
            else:
                T = self.out[i] * (self.out[i] - 1)
            res.append(Fr(cnt, T) if T else Fr(0))
        return res

    def local_clustering(self):
        res = []
        for i in range(self.n):
            nb = sorted(self.N_out[i])
            k = len(nb)
            tri = sum(1 for x, y in itertools.combinations(nb, 2) if self.A[x][y])
            res.append(Fr(tri, k * (k - 1) // 2) if k >= 2 else Fr(0))
        return res

    def transitivity(self):
        tri = 0
        for x, y, z in itertools.combinations(range(self.n), 3):
            tri += self.A[x][y] and self.A[y][z] and self.A[x][z]
        triples = sum(k * (k - 1) // 2 for k in self.out)
        return Fr(3 * tri, triples) if triples else None

    def cliquishness(self, order):
        res = []
        for i in range(self.n):
            nb = sorted(self.N_out[i])
            k = len(nb)
            if k < order - 1:
                res.append(Fr(0))
                continue
            cl = sum(1 for c in itertools.combinations(nb, order - 1)
                     if all(self.A[x][y] for x, y in itertools.combinations(c, 2)))
            res.append(Fr(cl, math.comb(k, order - 1)))
        return res

    def matching(self):
        n = self.n
        return [[(Fr(len(self.N_out[i] & self.N_out[j]), len(self.N_out[i] | self.N_out[j]))
                  if (self.N_out[i] | self.N_out[j]) else None) for j in range(n)]
                for i in range(n)]

    def efficiency(self):
        n = self.n
        s = sum(Fr(1, self.d[i][j]) for i in range(n) for j in range(n)
                if i != j and self.d[i][j] != INF)
        return s / (n * (n - 1))

    def betweenness(self):
        n, d, sig = self.n, self.d, self.sig
        b = [Fr(0)] * n
        for s in range(n):
            for t in range(n):
                if s == t or d[s][t] == INF:
                    continue
                for v in range(n):
                    if v in (s, t) or d[s][v] == INF or d[v][t] == INF:
                        continue
                    if d[s][v] + d[v][t] == d[s][t]:
                        b[v] += Fr(sig[s][v] * sig[v][t], sig[s][t])
        return b if self.directed else [x / 2 for x in b]

    def interregional(self, sources, targets):
        """number of shortest paths (as a fraction of all shortest s-t paths) through v,
        summed over ordered pairs s in sources, t in targets, v not an end point"""
        n, d, sig = self.n, self.d, self.sig
        b = [Fr(0)] * n
        for s in sources:
            for t in targets:
                if s == t or d[s][t] == INF:
                    continue
                for v in range(n):
                    if v in (s, t) or d[s][v] == INF or d[v][t] == INF:
                        continue
                    if d[s][v] + d[v][t] == d[s][t]:
                        b[v] += Fr(sig[s][v] * sig[v][t], sig[s][t])
        return b

    def link_betweenness(self):
        n, d, sig = self.n, self.d, self.sig
        L = [[Fr(0)] * n for _ in range(n)]
        for u in range(n):
            for v in range(n):
                if not self.A[u][v]:
                    continue
                for s in range(n):
                    for t in range(n):
                        if s == t or d[s][t] == INF or d[s][u] == INF or d[v][t] == INF:
                            continue
                        if d[s][u] + 1 + d[v][t] == d[s][t]:
                            L[u][v] += Fr(sig[s][u] * sig[v][t], sig[s][t])
        # undirected: unordered pairs, the link in either orientation
        if not self.directed:
            L = [[(L[u][v] + L[v][u]) / 2 for v in range(n)] for u in range(n)]
        return L

    def coreness_subsets(self):
        """by definition: largest k such that v lies in a node set whose induced
        (in+out) degrees are all >= k"""
        n = self.n
        core = [0] * n
        for mask in range(1, 1 << n):
            S = [v for v in range(n) if mask >> v & 1]
            m = min(sum(self.A[v][u] + (self.A[u][v] if self.directed else 0) for u in S if u != v)
                    for v in S)
            for v in S:
                core[v] = max(core[v], m)
        return core

    def coreness_peel(self):
        n = self.n
        alive = set(range(n))
        core = [0] * n

        def dg(v):
            return sum(self.A[v][u] + (self.A[u][v] if self.directed else 0) for u in alive if u != v)
        k = 0
        while alive:
            k += 1
            changed = True
            while changed:
                rm = [v for v in alive if dg(v) < k]
                changed = bool(rm)
                alive -= set(rm)
            for v in alive:
                core[v] = k
        return core

    def assortativity(self):
        """Pearson correlation of the degrees found at either end of a link
        (every link taken in both orientations)"""
        xs, ys = [], []
        for i in range(self.n):
            for j in range(self.n):
                if self.A[i][j] and (self.directed or i < j):
                    xs += [self.deg[i], self.deg[j]]
                    ys += [self.deg[j], self.deg[i]]
        if not xs:
            return None
        m = len(xs)
        mx = Fr(sum(xs), m)
        cov = sum((x - mx) * (y - mx) for x, y in zip(xs, ys))
        var = sum((x - mx) ** 2 for x in xs)
        return cov / var if var else None


# --------------------------------------------------------------------------
# the run
# --------------------------------------------------------------------------

def features(A, directed):
    n = A.shape[0]
    deg = A.sum(axis=0) + A.sum(axis=1) if directed else A.sum(axis=1)
    f = []
    if n and (deg == 0).any():
        f.append("isolated")
    if directed and (A * A.T).any():
        f.append("bilateral")
    if not A.any():
        f.append("edgeless")
    return "+".join(f) or "plain"


class Run:
    def __init__(self, ctx):
        self.ctx = ctx
        self.reqs, self.exp, self.meta = [], [], []   # model requests, impl answers, info
        self.freqs = []                               # (request, impl floats, meta) tolerance
        self.kernel_vs_def = []                       # round 3: arguments of betw / betwdef pairs
        self.kernel_vs_enum = []                      # round 5: arguments of betw / betwenum pairs
        self.sigma_reqs = []
        self.newman_def = []                          # round 4

    # exact correspondence item
    def exact(self, req, impl, meta):
        self.reqs.append(req)
        self.exp.append(impl)
        self.meta.append(meta)

    # tolerance correspondence item: impl is a nested list of floats / 'raise:…'
    def approx(self, req, impl, meta):
        self.freqs.append((req, impl, meta))


def mk_network(A, directed):
    from pyunicorn.core.network import Network
    return Network(adjacency=np.array(A, dtype=np.int8), directed=directed, silence_level=3)


def fl(x):
    return [float(v) for v in np.asarray(x).ravel()]


def check_graph(ctx, run, A, directed, family, tier):
    """all comparisons for one graph"""
    n = A.shape[0]
    m = enc_mat(A)
    d = "1" if directed else "0"
    net = mk_network(A, directed)
    orc = Oracle(A, directed)
    feat = features(A, directed)
    small = n <= 8
    ctx.count(f"family:{family}")
    ctx.count(("directed" if directed else "undirected") + (f":n={n}" if n <= 5 else ":n>5"))
    ctx.count("features:" + feat)
    ctx.case((directed, n, A.tobytes().hex()), bool(A.any()) and n >= 3,
             {"directed": directed, "n": n, "A": m} if n <= 5 else None)

    def sig(method, **kw):
        s = {"kind": "api", "method": method, "directed": directed, "input_class": feat}
        s.update(kw)
        return s

    def replay(method, expected, observed, **kw):
        r = {"method": method, "directed": directed, "adjacency": A.tolist(),
             "expected": expected, "observed": observed}
        r.update(kw)
        return r

    def call(method, *a, **k):
        return quiet(getattr(net, method), *a, **k)

    def oracle_vec(method, exp, *a, what=None, **k):
        """exp: list of Fraction / None (= nan / undefined: not compared)"""
        st, got = call(method, *a, **k)
        ctx.count("oracle:" + method)
        if st == "raise":
            ctx.fail(sig(method, error=got), f"{method} raised {got}",
                     replay(method, [str(e) for e in exp], "raise:" + got, args=[str(x) for x in a]))
            return None
        g = fl(got)
        if len(g) != len(exp) or any(e is not None and not close(x, e) for x, e in zip(g, exp)):
            ctx.fail(sig(method), what or f"{method} differs from its definition evaluated on the adjacency matrix",
                     replay(method, [str(e) for e in exp], g, args=[str(x) for x in a]))
        return got

    # ---- degree family ------------------------------------------------------
    vals = []
    for meth in ("indegree", "outdegree", "degree", "bildegree"):
        st, v = call(meth)
        vals.append(enc_vec(v) if st == "ok" else "raise:" + v)
    run.exact(f"deg {d} {m}", ";".join(vals) if n else "-;-;-;-", ("deg", A, directed))
    if n:
        oracle_vec("indegree", orc.inn)
        oracle_vec("outdegree", orc.out)
        oracle_vec("degree", orc.deg)
        oracle_vec("bildegree", orc.bildegree())

    # ---- Laplacian ------------------------------------------------------------
    for dirn in (("out", "in") if directed else ("out",)):
        st, L = call("laplacian", direction=dirn)
        run.exact(f"lap {d} {dirn} {m}", enc_mat(L) if st == "ok" else "raise:" + L,
                  ("lap", A, directed))
        if st == "ok":
            dg = orc.inn if (directed and dirn == "in") else (orc.out if directed else orc.deg)
            expL = [[(dg[i] if i == j else 0) - orc.A[i][j] for j in range(n)] for i in range(n)]
            ctx.count("oracle:laplacian")
            if np.asarray(L).tolist() != expL:
                ctx.fail(sig("laplacian", direction=dirn), "laplacian differs from D - A",
                         replay("laplacian", expL, np.asarray(L).tolist(), direction=dirn))

    # ---- motif clustering -------------------------------------------------------
    impl = []
    for kind in ("cycle", "mid", "in", "out"):
        meth = f"local_{kind}motif_clustering"
        got = oracle_vec(meth, orc.motif(kind))
        impl.append(fl(got) if got is not None else None)
    run.approx(f"motif {m}", impl, ("motif", A, directed))

    # ---- unit-weight n.s.i. degrees ---------------------------------------------
    impl = []
    for meth, base in (("nsi_indegree", orc.inn), ("nsi_outdegree", orc.out)):
        got = oracle_vec(meth, [Fr(b + 1) for b in base],
                         what=f"{meth} with unit node weights is not the degree + 1")
        impl.append(fl(got) if got is not None else None)
    got = oracle_vec("nsi_degree", [Fr(k + (2 if directed else 1)) for k in orc.deg],
                     what="nsi_degree with unit node weights is not the documented degree + 1 "
                          "(in + out + 2 for directed networks)")
    impl.append(fl(got) if got is not None else None)
    run.approx(f"nsiunit {d} {m}", impl, ("nsiunit", A, directed))

    # ---- shortest paths ------------------------------------------------------------
    st, P = call("path_lengths")
    if st == "ok":
        Penc = ";".join(",".join("inf" if x == INF else str(int(x)) for x in row) for row in P)
        run.exact(f"paths {m}", Penc or "-", ("paths", A, directed))
        ctx.count("oracle:path_lengths")
        expP = orc.d
        if [[float(x) for x in row] for row in expP] != np.asarray(P).tolist():
            ctx.fail(sig("path_lengths"), "path_lengths differs from the shortest-path lengths",
                     replay("path_lengths", expP, np.asarray(P).tolist()))
    elif n:
        ctx.fail(sig("path_lengths", error=P), f"path_lengths raised {P}", replay("path_lengths", "matrix", P))

    if n >= 2:
        st, ge = call("global_efficiency")
        ctx.count("oracle:global_efficiency")
        if st == "raise" or not close(ge, orc.efficiency()):
            ctx.fail(sig("global_efficiency"), "global_efficiency differs from mean of 1/d over ordered pairs",
                     replay("global_efficiency", str(orc.efficiency()), ge))
        st2, nc = call("nsi_closeness")
        cl = None
        if not directed and orc.connected():
            expc = [Fr(n - 1, sum(orc.d[i])) for i in range(n)]
            cl = oracle_vec("closeness", expc)
        run.approx(f"pathmeas {m}",
                   [[float(ge)] if st == "ok" else None,
                    fl(cl) if cl is not None else None,
                    fl(nc) if st2 == "ok" else None], ("pathmeas", A, directed))
        # unit-weight n.s.i. closeness: N / (sum_j d_ij + 1), 0 if some node is unreachable
        expn = [(Fr(n, sum(orc.d[i]) + 1) if all(x != INF for x in orc.d[i]) else Fr(0))
                for i in range(n)]
        oracle_vec("nsi_closeness", expn,
                   what="nsi_closeness with unit weights is not N / (sum of distances + 1)")
        # average path length / diameter over connected pairs
        fin = [orc.d[i][j] for i in range(n) for j in range(n) if i != j and orc.d[i][j] != INF]
        if fin:
            st, apl = call("average_path_length")
            st_apl = st
            ctx.count("oracle:average_path_length")
            if st == "raise" or not close(apl, Fr(sum(fin), len(fin))):
                ctx.fail(sig("average_path_length"), "average_path_length differs from the mean over connected pairs",
                         replay("average_path_length", str(Fr(sum(fin), len(fin))), apl))
            st, dia = call("diameter")
            ctx.count("oracle:diameter")
            if st == "raise" or dia != max(fin):
                ctx.fail(sig("diameter"), "diameter differs from the largest finite distance",
                         replay("diameter", max(fin), dia))
            if st == "ok" and st_apl == "ok":
                run.approx(f"upath {m}", [[float(apl)], [float(dia)]], ("upath", A, directed))

    # ---- coreness --------------------------------------------------------------------
    st, core = call("coreness")
    run.exact(f"core {d} {m}", (enc_vec(core) if st == "ok" else "raise:" + core) if n else "-",
              ("core", A, directed))
    if n:
        expcore = orc.coreness_subsets() if n <= 6 else orc.coreness_peel()
        oracle_vec("coreness", expcore)

    # ---- assortativity -----------------------------------------------------------------
    st, ass = call("assortativity")
    exp = orc.assortativity()
    ctx.count("oracle:assortativity")
    if exp is None:
        run.exact(f"assort {d} {m}", "raise:ZeroDivision" if (st == "raise" and ass == "ZeroDivisionError")
                  else f"{st}:{ass}", ("assort", A, directed))
    else:
        run.approx(f"assort {d} {m}", [[float(ass)] if st == "ok" else None], ("assort", A, directed))
        if st == "raise" or not close(ass, exp):
            ctx.fail(sig("assortativity"), "assortativity differs from the Pearson correlation of end-point degrees",
                     replay("assortativity", str(exp), ass))

    # ---- betweenness (igraph, directed or not) -----------------------------------------------
    if n and (small or n <= (26 if tier == "thorough" else 20)):
        oracle_vec("betweenness", orc.betweenness())

    # ---- local vulnerability: (E - E_i) / E with E_i the efficiency without node i -------------
    if 3 <= n <= 10 and A.any():
        E = orc.efficiency()
        expv, edgeless_after = [], False
        for i in range(n):
            keep = [v for v in range(n) if v != i]
            sub = np.asarray(A)[np.ix_(keep, keep)]
            if not sub.any():
                edgeless_after = True
            expv.append((E - Oracle(sub, directed).efficiency()) / E)
        st, got = call("local_vulnerability")
        ctx.count("oracle:local_vulnerability")
        if st == "raise":
            ctx.fail(sig("local_vulnerability", error=got,
                         removal_class="a-node-removal-leaves-no-link" if edgeless_after else "links-remain"),
                     f"local_vulnerability raised {got}",
                     replay("local_vulnerability", [str(e) for e in expv], "raise:" + got))
        elif any(not close(x, e) for x, e in zip(fl(got), expv)):
            ctx.fail(sig("local_vulnerability"), "local_vulnerability differs from (E - E_i)/E",
                     replay("local_vulnerability", [str(e) for e in expv], fl(got)))
        if st == "ok" and n <= 8:
            run.approx(f"vuln {m}", [fl(got)], ("vuln", A, directed))

    if directed:
        directed_extras(ctx, net, orc, A, sig, replay)
        return
    # ---- unit-weight n.s.i. clustering: linked ordered pairs of N+(i) over (k+1)^2 ------------------
    if n:
        tri = [sum(1 for x, y in itertools.combinations(sorted(orc.N_out[i]), 2) if orc.A[x][y])
               for i in range(n)]
        oracle_vec("nsi_local_clustering",
                   [Fr(2 * tri[i] + 3 * orc.deg[i] + 1, (orc.deg[i] + 1) ** 2) for i in range(n)],
                   what="nsi_local_clustering with unit weights is not (2 T_i + 3 k_i + 1)/(k_i + 1)^2")
    # ======================= undirected only ==============================================
    # ---- clustering / transitivity ------------------------------------------------------
    got = oracle_vec("local_clustering", orc.local_clustering())
    st, tr = call("transitivity")
    expt = orc.transitivity()
    ctx.count("oracle:transitivity")
    if st == "raise" or not close(tr, expt):
        ctx.fail(sig("transitivity"), "transitivity differs from 3*triangles/connected triples",
                 replay("transitivity", str(expt), tr))
    if got is not None and st == "ok" and n:
        run.approx(f"clust {m}", [fl(got), [float(tr)]], ("clust", A, directed))
    if n:
        lc = orc.local_clustering()
        st, gc = call("global_clustering")
        ctx.count("oracle:global_clustering")
        if st == "raise" or not close(gc, sum(lc) / n):
            ctx.fail(sig("global_clustering"), "global_clustering is not the mean local clustering",
                     replay("global_clustering", str(sum(lc) / n), gc))

    # ---- matching index ----------------------------------------------------------------------
    if n:
        st, M = call("matching_index")
        expM = orc.matching()
        ctx.count("oracle:matching_index")
        if st == "ok":
            run.approx(f"matching {m}", [fl(row) for row in np.asarray(M)], ("matching", A, directed))
            bad = [(i, j) for i in range(n) for j in range(n) if not close(M[i][j], expM[i][j])]
            if bad:
                ctx.fail(sig("matching_index"), "matching_index differs from |common neighbours| / |union of neighbours|",
                         replay("matching_index", [[str(x) for x in r] for r in expM], np.asarray(M).tolist()))
        else:
            ctx.fail(sig("matching_index", error=M), f"matching_index raised {M}", replay("matching_index", "matrix", M))

    # ---- neighbour degrees ---------------------------------------------------------------------
    if n:
        expavg = [(Fr(sum(orc.deg[j] for j in orc.N_out[i]), orc.deg[i]) if orc.deg[i] else None)
                  for i in range(n)]
        oracle_vec("average_neighbors_degree", expavg)
        oracle_vec("max_neighbors_degree", [max([orc.deg[j] for j in orc.N_out[i]] or [0]) for i in range(n)])

    # ---- cliquishness: public method and kernels -------------------------------------------------
    from pyunicorn.core._ext import numerics as K
    from pyunicorn.core._ext.types import ADJ, DEGREE, to_cy
    for order, kern in ((4, K._local_cliquishness_4thorder), (5, K._local_cliquishness_5thorder)):
        if n:
            got = oracle_vec("local_cliquishness", orc.cliquishness(order), order)
        degs = [np.asarray(orc.deg)]
        if n and ctx.rng.random() < 0.3:
            # a caller-supplied degree vector that is not the row sum (kernel called directly):
            # entries <= number of neighbours written so far are well defined
            degs.append(np.array([ctx.rng.randrange(0, k + 1) for k in orc.deg]))
        for dg in degs:
            st, r = quiet(kern, n, to_cy(np.asarray(A), ADJ), to_cy(dg, DEGREE))
            run.approx(f"cliq {order} {m} {enc_vec(dg)}", [fl(r) if st == "ok" else None],
                       ("cliq", A, directed))
            ctx.count(f"kernel:cliquishness{order}")

    # ---- link betweenness --------------------------------------------------------------------------
    if n and (small or n <= (26 if tier == "thorough" else 20)):
        st, LB = call("link_betweenness")
        ctx.count("oracle:link_betweenness")
        if st == "ok":
            expL = orc.link_betweenness()
            if any(not close(LB[i][j], expL[i][j]) for i in range(n) for j in range(n)):
                ctx.fail(sig("link_betweenness"), "link_betweenness differs from the shortest-path definition",
                         replay("link_betweenness", [[str(x) for x in r] for r in expL], np.asarray(LB).tolist()))
            # bookkeeping loop against the model, on igraph's own numbers
            al = net.graph.get_adjlist()
            eb = net.graph.edge_betweenness()
            req = "linkwrites " + ";".join(enc_vec(a) for a in al) + " " + enc_frs(Fr(x) for x in eb)
            writes = sorted((i, j, Fr(float(LB[i][j]))) for i in range(n) for j in range(i + 1, n)
                            if A[i][j])
            if eb:
                run.exact(req, ",".join(f"{i}:{j}:{enc_fr(v)}" for i, j, v in writes) or "-",
                          ("linkwrites", A, directed))
        else:
            ctx.fail(sig("link_betweenness", error=LB), f"link_betweenness raised {LB}",
                     replay("link_betweenness", "matrix", LB))

    # ---- interregional / n.s.i. betweenness: kernel _nsi_betweenness ---------------------------------
    if n and (small or n <= (26 if tier == "thorough" else 20)):
        rng = ctx.rng
        nodes = list(range(n))
        choices = [(nodes, nodes)]
        if n >= 2:
            choices.append((sorted(rng.sample(nodes, rng.randrange(1, n))),
                            sorted(rng.sample(nodes, rng.randrange(1, n)))))
        for S, T in choices:
            got = oracle_vec("interregional_betweenness", orc.interregional(S, T), sources=S, targets=T,
                             what="interregional_betweenness differs from the shortest-path count "
                                  f"for sources={S} targets={T}")
            if got is not None:
                src = [1 if v in S else 0 for v in nodes]
                run.approx(f"betw {m} {enc_vec([1] * n)} {enc_vec(src)} {enc_vec(T)}", [fl(got)],
                           ("betw", A, directed))
                # round 5: the public-method model (sources / targets as node lists, nsi=False) and the
                # counting definition over enumerated shortest paths (theorem interregionalBetweenness_eq_count)
                run.approx(f"betwapi {m} {enc_vec([1] * n)} {enc_vec(S)} {enc_vec(T)} 0", [fl(got)],
                           ("betwapi", A, directed))
                if n <= 9:
                    run.approx(f"betwcount {m} {enc_vec(S)} {enc_vec(T)}", [fl(got)], ("betwcount", A, directed))
                    ctx.count("model:betwcount")
        if n and A.any():
            got2 = oracle_vec("interregional_betweenness", [2 * x for x in orc.betweenness()],
                              sources=nodes, targets=nodes,
                              what="interregional_betweenness over all nodes is not twice betweenness")
        # dyadic node weights
        w = [Fr(rng.randrange(1, 9), 4) for _ in nodes]
        netw = mk_network(A, False)
        netw.node_weights = np.array([float(x) for x in w])
        S, T = choices[-1]
        st, got = quiet(netw.nsi_betweenness, sources=S, targets=T)
        src = [1 if v in S else 0 for v in nodes]
        run.approx(f"betw {m} {enc_frs(w)} {enc_vec(src)} {enc_vec(T)}", [fl(got) if st == "ok" else None],
                   ("betw-weighted", A, directed))
        ctx.count("kernel:_nsi_betweenness")
        st, got = quiet(netw.nsi_local_clustering)
        run.approx(f"nsiclust {m} {enc_frs(w)}", [fl(got) if st == "ok" else None],
                   ("nsiclust", A, directed))


def directed_extras(ctx, net, orc, A, sig, replay):
    """measures whose docstrings do not say what happens on directed networks; compared with the
    reading stated in design/C03.md: clustering of the undirected projection, link betweenness and
    closeness along link directions (the convention of path_lengths / betweenness)."""
    n = orc.n
    U = np.maximum(np.asarray(A), np.asarray(A).T)
    und = Oracle(U, False)
    st, got = quiet(net.local_clustering)
    ctx.count("oracle:directed:local_clustering")
    exp = und.local_clustering()
    if st == "raise" or any(not close(x, e) for x, e in zip(fl(got), exp)):
        ctx.fail(sig("local_clustering"), "local_clustering of a directed network differs from the clustering "
                 "of its undirected projection", replay("local_clustering", [str(e) for e in exp],
                                                        fl(got) if st == "ok" else got))
    if n <= 16:
        st, LB = quiet(net.link_betweenness)
        ctx.count("oracle:directed:link_betweenness")
        expL = orc.link_betweenness()
        # the method writes result[i,j] = result[j,i]; accept either orientation's value
        if st == "raise" or any(not (close(LB[i][j], expL[i][j]) or close(LB[i][j], expL[j][i]))
                                for i in range(n) for j in range(n)):
            ctx.fail(sig("link_betweenness"), "link_betweenness of a directed network is not the betweenness "
                     "of the link in either orientation",
                     replay("link_betweenness", [[str(x) for x in r] for r in expL],
                            np.asarray(LB).tolist() if st == "ok" else LB))
    if n >= 2 and orc.connected():
        st, got = quiet(net.closeness)
        ctx.count("oracle:directed:closeness")
        exp = [Fr(n - 1, sum(orc.d[i])) for i in range(n)]
        if st == "raise" or any(not close(x, e) for x, e in zip(fl(got), exp)):
            ctx.fail(sig("closeness"), "closeness of a strongly connected directed network differs from "
                     "(N-1)/sum_j path_lengths[i,j]", replay("closeness", [str(e) for e in exp],
                                                             fl(got) if st == "ok" else got))


def weighted_checks(ctx, run, A, directed):
    """integer link weights: strengths and the weighted path family"""
    n = A.shape[0]
    rng = ctx.rng
    W = np.array(A, dtype=float) * np.array([[rng.randrange(1, 6) for _ in range(n)] for _ in range(n)])
    if not directed:
        W = np.triu(W) + np.triu(W).T
    net = mk_network(A, directed)
    net.set_link_attribute("w", W)
    feat = features(A, directed)
    wm = ";".join(",".join(str(int(v)) for v in row) for row in W)
    impl = []
    for meth in ("indegree", "outdegree", "bildegree"):
        st, v = quiet(getattr(net, meth), "w")
        impl.append(fl(v) if st == "ok" else None)
    run.approx(f"strength {wm}", impl, ("strength", A, directed))
    ctx.count("weighted:strength")
    Wl = W.tolist()
    exp_in = [sum(Wl[j][i] for j in range(n)) for i in range(n)]
    exp_out = [sum(Wl[i]) for i in range(n)]
    exp_bil = [sum(Wl[i][j] * Wl[j][i] for j in range(n)) for i in range(n)]
    for meth, exp, got in (("indegree", exp_in, impl[0]), ("outdegree", exp_out, impl[1]),
                           ("bildegree", exp_bil, impl[2])):
        if got is None or any(not close(g, Fr(e)) for g, e in zip(got, exp)):
            ctx.fail({"kind": "api", "method": meth, "directed": directed, "input_class": feat,
                      "key": "link-attribute"},
                     f"{meth}(key) differs from the row/column sums of the link attribute",
                     {"method": meth, "adjacency": A.tolist(), "weights": Wl, "expected": exp, "observed": got})
    # weighted shortest paths
    st, P = quiet(net.path_lengths, "w")
    ctx.count("weighted:paths")
    if st != "ok":
        if A.any():
            ctx.fail({"kind": "api", "method": "path_lengths", "directed": directed, "input_class": feat,
                      "key": "link-attribute", "error": P}, f"path_lengths(key) raised {P}",
                     {"adjacency": A.tolist(), "weights": Wl})
        return
    expP = floyd(n, [[(Fr(int(W[i][j])) if A[i][j] else None) for j in range(n)] for i in range(n)])
    if [[float(x) for x in row] for row in expP] != np.asarray(P).tolist():
        ctx.fail({"kind": "api", "method": "path_lengths", "directed": directed, "input_class": feat,
                  "key": "link-attribute"}, "weighted path_lengths differ from the shortest weighted path lengths",
                 {"adjacency": A.tolist(), "weights": Wl, "expected": [[str(x) for x in r] for r in expP],
                  "observed": np.asarray(P).tolist()})
        return
    if n < 2:
        return
    dm = ";".join(",".join("x" if x == INF else str(int(x)) for x in row) for row in P)
    st1, apl = quiet(net.average_path_length, "w")
    st2, cc = quiet(net.closeness, "w")
    st3, ge = quiet(net.global_efficiency, "w")
    fin = [expP[i][j] for i in range(n) for j in range(n) if i != j and expP[i][j] != INF]
    if fin:
        run.approx(f"wpath {dm}", [[float(apl)] if st1 == "ok" else None, fl(cc) if st2 == "ok" else None],
                   ("wpath", A, directed))
        # documented conventions: mean over connected pairs; inf -> N in closeness; 1/inf = 0
        e_apl = Fr(sum(fin), len(fin))
        e_cc = []
        for i in range(n):
            s = sum((Fr(n) if x == INF else x) for x in expP[i])
            e_cc.append(Fr(n - 1) / s if s else Fr(0))
        e_ge = sum(Fr(1) / x for x in fin) / (n * (n - 1))
        for meth, st, got, exp in (("average_path_length", st1, apl, [e_apl]), ("closeness", st2, cc, e_cc),
                                   ("global_efficiency", st3, ge, [e_ge])):
            g = fl(got) if st == "ok" else None
            if g is None or any(not close(x, e) for x, e in zip(g, exp)):
                ctx.fail({"kind": "api", "method": meth, "directed": directed, "input_class": feat,
                          "key": "link-attribute"},
                         f"{meth}(key) differs from its documented formula on the weighted distance matrix",
                         {"method": meth, "adjacency": A.tolist(), "weights": Wl,
                          "expected": [str(e) for e in exp], "observed": g if g is not None else got})


def rel_close(x, y, tol=1e-12):
    x, y = float(x), float(y)
    if math.isnan(x) or math.isnan(y):
        return math.isnan(x) and math.isnan(y)
    if math.isinf(x) or math.isinf(y):
        return x == y
    return abs(x - y) <= tol * max(abs(x), abs(y))


def rel9(x, q):
    """purely relative comparison (for values on a rescaled axis)"""
    if q is None or q == INF:
        return close(x, q)
    x = float(x)
    if math.isnan(x) or math.isinf(x):
        return False
    return abs(x - float(q)) <= 1e-9 * abs(float(q)) + 1e-300


def weighted_floyd(A, W, n):
    return floyd(n, [[(Fr(W[i][j]) if A[i][j] else None) for j in range(n)] for i in range(n)])


def extended_checks(ctx, run, A, directed, tier):
    """round 2: every constructor / array type for the same graph, public wrappers and non-default
    arguments, multi-step histories on one object (including arrays the library keeps in its cache),
    both float widths for caller arrays, exact power-of-two rescalings of link and node weights"""
    import igraph
    import scipy.sparse as sp
    from pyunicorn.core.network import Network, NetworkError
    rng = ctx.rng
    n = A.shape[0]
    orc = Oracle(A, directed)
    feat = features(A, directed)
    nodes = list(range(n))
    ctx.count("extended:graphs")

    def sig(kind, method, **kw):
        s_ = {"kind": kind, "method": method, "directed": directed, "input_class": feat}
        s_.update(kw)
        return s_

    def rp(method, expected, observed, **kw):
        r_ = {"method": method, "directed": directed, "adjacency": A.tolist(),
              "expected": expected, "observed": observed}
        r_.update(kw)
        return r_

    def vec_ok(got, exp):
        g = fl(got)
        return len(g) == len(exp) and all(e is None or close(x, e) for x, e in zip(g, exp))

    # ---- 1. the same graph through every constructor / array type ------------------------------
    edges = [(i, j) for i in range(n) for j in range(n) if A[i, j] and (directed or i < j)]
    ctors = {
        "int64": lambda: Network(adjacency=np.array(A, dtype=np.int64), directed=directed, silence_level=3),
        "bool": lambda: Network(adjacency=np.array(A, dtype=bool), directed=directed, silence_level=3),
        "float64": lambda: Network(adjacency=np.array(A, dtype=np.float64), directed=directed, silence_level=3),
        "float32": lambda: Network(adjacency=np.array(A, dtype=np.float32), directed=directed, silence_level=3),
        "nested-list": lambda: Network(adjacency=A.tolist(), directed=directed, silence_level=3),
        "csr": lambda: Network(adjacency=sp.csr_matrix(A), directed=directed, silence_level=3),
        "fortran-order": lambda: Network(adjacency=np.asfortranarray(A), directed=directed, silence_level=3),
        "copy": lambda: mk_network(A, directed).copy(),
    }
    if edges:   # edgeless edge lists / igraph graphs are C05's subject
        ctors["edge_list"] = lambda: Network(edge_list=edges, n_nodes=n, directed=directed, silence_level=3)
        ctors["igraph"] = lambda: Network.FromIGraph(
            igraph.Graph.Adjacency(A.tolist(), mode="directed" if directed else "undirected"), silence_level=3)
    for cname in rng.sample(sorted(ctors), 3):
        st, net = quiet(ctors[cname])
        ctx.count("ctor:" + cname)
        if st != "ok":
            continue   # construction itself is C05's subject
        if net.directed != directed or not np.array_equal(np.asarray(net.adjacency), A):
            continue
        tests = [("degree", orc.deg, ()), ("path_lengths", [x for r_ in orc.d for x in r_], ())]
        if n <= 16:
            tests.append(("betweenness", orc.betweenness(), ()))
        if not directed:
            tests.append(("local_clustering", orc.local_clustering(), ()))
            tests.append(("local_cliquishness", orc.cliquishness(4), (4,)))
        for meth, exp, args in tests:
            st, got = quiet(getattr(net, meth), *args)
            if st != "ok" or not vec_ok(got, exp):
                ctx.fail(sig("ctor", meth, constructor=cname),
                         f"{meth} of the network built via {cname} differs from its definition",
                         rp(meth, [str(e) for e in exp], fl(got) if st == "ok" else got, constructor=cname))

    net = mk_network(A, directed)

    # ---- 2. wrappers and non-default arguments -----------------------------------------------------
    if not directed:
        ctx.count("wrapper:undirected")
        if n <= 16:
            st, got = quiet(net.edge_betweenness)
            expL = orc.link_betweenness()
            if st != "ok" or any(not close(got[i][j], expL[i][j]) for i in nodes for j in nodes):
                ctx.fail(sig("api", "edge_betweenness"), "edge_betweenness differs from the shortest-path definition",
                         rp("edge_betweenness", [[str(x) for x in r_] for r_ in expL],
                            np.asarray(got).tolist() if st == "ok" else got))
        st, got = quiet(net.local_cliquishness, 3)
        if st != "ok" or not vec_ok(got, orc.local_clustering()):
            ctx.fail(sig("api", "local_cliquishness", order=3),
                     "local_cliquishness(3) is not the local clustering coefficient",
                     rp("local_cliquishness", [str(e) for e in orc.local_clustering()],
                        fl(got) if st == "ok" else got, order=3))
        for order, err in ((0, "NetworkError"), (1, "NetworkError"), (2, "NetworkError"),
                           (6, "NotImplementedError")):
            st, got = quiet(net.local_cliquishness, order)
            if st != "raise" or got != err:
                ctx.fail(sig("api", "local_cliquishness", order=order),
                         f"local_cliquishness({order}) is documented as undefined / not implemented",
                         rp("local_cliquishness", "raise:" + err, str(got), order=order))
        # higher-order transitivity: order * #K_order / #stars with `order` nodes
        expt = orc.transitivity()
        st, got = quiet(net.higher_order_transitivity, 3)
        if st != "ok" or not close(got, expt):
            ctx.fail(sig("api", "higher_order_transitivity", order=3),
                     "higher_order_transitivity(3) is not the transitivity",
                     rp("higher_order_transitivity", str(expt), got, order=3))
        if n >= 4:
            k4 = sum(1 for c in itertools.combinations(nodes, 4)
                     if all(orc.A[x][y] for x, y in itertools.combinations(c, 2))) if n <= 24 else None
            stars = sum(math.comb(k, 3) for k in orc.deg)
            if k4 is not None:
                exp4 = Fr(4 * k4, stars) if stars else Fr(0)
                st, got = quiet(net.higher_order_transitivity, 4)
                ctx.count("oracle:higher_order_transitivity")
                if st != "ok" or not close(got, exp4):
                    ctx.fail(sig("api", "higher_order_transitivity", order=4),
                             "higher_order_transitivity(4) is not 4 * #K4 / #(stars with 4 nodes)",
                             rp("higher_order_transitivity", str(exp4), got, order=4))
        if n <= 16 and n:
            # default arguments = all nodes; sources / targets given as arrays, ranges, tuples
            exp2 = [2 * x for x in orc.betweenness()]
            for label, kw in (("defaults", {}),
                              ("ndarray", {"sources": np.arange(n), "targets": np.arange(n, dtype=np.int64)}),
                              ("range", {"sources": range(n), "targets": range(n)})):
                st, got = quiet(net.interregional_betweenness, **kw)
                ctx.count("wrapper:interregional:" + label)
                if st != "ok" or not vec_ok(got, exp2):
                    ctx.fail(sig("api", "interregional_betweenness", arguments=label),
                             f"interregional_betweenness with {label} for all nodes is not twice the betweenness",
                             rp("interregional_betweenness", [str(e) for e in exp2],
                                fl(got) if st == "ok" else got, arguments=label))
            # n.s.i. wrappers with dyadic node weights of either float width against the Lean kernel model
            scale = 2 ** rng.choice([-12, -3, 0, 0, 5, 20])
            w = [Fr(rng.randrange(1, 17), 8) * scale for _ in nodes]
            width = rng.choice([np.float32, np.float64])
            netw = mk_network(A, False)
            netw.node_weights = np.array([float(x) for x in w], dtype=width)
            ctx.count(f"nodeweights:{width.__name__}")
            S = sorted(rng.sample(nodes, rng.randrange(1, n + 1)))
            T = sorted(rng.sample(nodes, rng.randrange(1, n + 1)))
            src = [1 if v in S else 0 for v in nodes]
            st, got = quiet(netw.nsi_interregional_betweenness, S, T)
            if st == "ok":
                run.approx(f"betw {enc_mat(A)} {enc_frs(w)} {enc_vec(src)} {enc_vec(T)}",
                           [fl(got)], ("betw-wrapper-rel", A, directed))
            st, got = quiet(netw.nsi_betweenness)
            if st == "ok":
                run.approx(f"betw {enc_mat(A)} {enc_frs(w)} {enc_vec([1] * n)} {enc_vec(nodes)}",
                           [fl(got)], ("betw-default-rel", A, directed))
                run.approx(f"betwapi {enc_mat(A)} {enc_frs(w)} none none 1",
                           [fl(got)], ("betwapi-default-rel", A, directed))
            # round 5: nsi=False on a network that carries non-unit node weights (weights must be ignored),
            # defaults and unsorted / repeated targets through the public-method model
            T3 = [rng.choice(nodes) for _ in range(rng.randrange(1, n + 2))]
            kw3 = rng.choice([{}, {"sources": S}, {"targets": T3}, {"sources": S, "targets": T3}])
            st, got = quiet(netw.interregional_betweenness, **kw3)
            ctx.count("wrapper:interregional:weighted-network:" + "+".join(sorted(kw3)) if kw3
                      else "wrapper:interregional:weighted-network:defaults")
            if st == "ok":
                so = enc_vec(kw3["sources"]) if "sources" in kw3 else "none"
                to = enc_vec(kw3["targets"]) if "targets" in kw3 else "none"
                run.approx(f"betwapi {enc_mat(A)} {enc_frs(w)} {so} {to} 0", [fl(got)],
                           ("betwapi-unit-on-weighted", A, directed))
                if n <= 8:
                    run.approx(f"betwcount {enc_mat(A)} {enc_vec(kw3.get('sources', nodes))} "
                               f"{enc_vec(kw3.get('targets', nodes))}", [fl(got)],
                               ("betwcount-wrapper", A, directed))
            else:
                ctx.fail(sig("api", "interregional_betweenness", arguments="weighted-network"),
                         f"interregional_betweenness raised {got} on a network with node weights",
                         rp("interregional_betweenness", "no exception", got, **{k: list(map(int, v))
                                                                                 for k, v in kw3.items()}))
            st, got = quiet(netw.nsi_local_clustering)
            if st == "ok":
                run.approx(f"nsiclust {enc_mat(A)} {enc_frs(w)}", [fl(got)],
                           ("nsiclust-scaled-rel", A, directed))
            # n.s.i. degree scales with the weights
            st, got = quiet(netw.nsi_degree)
            expd = [sum(w[j] for j in nodes if A[i, j]) + w[i] for i in nodes]
            if st != "ok" or any(not rel_close(x, e, 1e-6 if width is np.float32 else 1e-12)
                                 for x, e in zip(fl(got), expd)):
                ctx.fail(sig("api", "nsi_degree", node_weights="dyadic*2^k"),
                         "nsi_degree differs from the weight of the closed neighbourhood",
                         rp("nsi_degree", [str(e) for e in expd], fl(got) if st == "ok" else got,
                            node_weights=[str(x) for x in w]))
    # diameter: non-default arguments
    fin = [orc.d[i][j] for i in nodes for j in nodes if i != j and orc.d[i][j] != INF]
    if fin:
        st, got = quiet(net.diameter, only_connected=False)
        conn = orc.connected()
        ctx.count("wrapper:diameter")
        # unconnected: the definition gives inf; the docstring promises N (the convention of older igraph)
        if st != "ok" or (got != max(fin) if conn else got not in (INF, n)):
            ctx.fail(sig("api", "diameter", arguments="only_connected=False"),
                     "diameter(only_connected=False) is not the diameter (connected) / inf or N (unconnected)",
                     rp("diameter", max(fin) if conn else "inf or N", got))
        U = np.maximum(np.asarray(A), np.asarray(A).T)
        du = Oracle(U, False).d
        finu = [du[i][j] for i in nodes for j in nodes if i != j and du[i][j] != INF]
        st, got = quiet(net.diameter, directed=False)
        if st != "ok" or got != max(finu):
            ctx.fail(sig("api", "diameter", arguments="directed=False"),
                     "diameter(directed=False) is not the largest finite distance ignoring link directions",
                     rp("diameter", max(finu), got))
    st, got = quiet(net.path_lengths, "topological")
    if st != "ok" or [[float(x) for x in r_] for r_ in orc.d] != np.asarray(got).tolist():
        ctx.fail(sig("api", "path_lengths", key="topological"),
                 "path_lengths('topological') differs from the shortest-path lengths",
                 rp("path_lengths", orc.d, np.asarray(got).tolist() if st == "ok" else got))

    # ---- 3. link weights: float widths, power-of-two rescaling, histories on one object ----------------
    if not A.any() or n < 2:
        return
    k = rng.choice([-40, -9, 0, 0, 7, 40])
    scale = Fr(2) ** k
    Wq = [[(Fr(rng.randrange(1, 33), 4) * scale if A[i, j] else Fr(0)) for j in nodes] for i in nodes]
    if not directed:
        Wq = [[Wq[min(i, j)][max(i, j)] for j in nodes] for i in nodes]
    width = rng.choice([np.float32, np.float64])
    W = np.array([[float(x) for x in r_] for r_ in Wq], dtype=width)
    Wcopy = W.copy()
    ctx.count(f"linkweights:{width.__name__}:2^{k}")
    net = mk_network(A, directed)
    net.set_link_attribute("len", W)
    dw = weighted_floyd(orc.A, Wq, n)
    finw = [dw[i][j] for i in nodes for j in nodes if i != j and dw[i][j] != INF]
    e_pl = [[float(x) for x in r_] for r_ in dw]
    e_apl = Fr(sum(finw), len(finw))
    e_ge = sum(Fr(1) / x for x in finw) / (n * (n - 1))
    e_cc = []
    for i in nodes:
        s_ = sum((Fr(n) if x == INF else x) for x in dw[i])
        e_cc.append(Fr(n - 1) / s_ if s_ else Fr(0))
    e_str = [sum(Wq[i]) for i in nodes]
    e_upl = [[float(x) for x in r_] for r_ in orc.d]
    e_uge = orc.efficiency()
    e_ncl = [(Fr(n, sum(orc.d[i]) + 1) if all(x != INF for x in orc.d[i]) else Fr(0)) for i in nodes]

    def chk_mat(exp):
        return lambda got: np.asarray(got).tolist() == exp

    def chk_vec(exp, tol=1e-12):
        return lambda got: len(fl(got)) == len(exp) and all(rel_close(x, e, tol) for x, e in zip(fl(got), exp))

    pool = {
        "path_lengths(len)": (lambda: net.path_lengths("len"), chk_mat(e_pl), e_pl),
        "average_path_length(len)": (lambda: net.average_path_length("len"), chk_vec([e_apl]), e_apl),
        "global_efficiency(len)": (lambda: net.global_efficiency("len"), chk_vec([e_ge]), e_ge),
        "closeness(len)": (lambda: net.closeness("len"), chk_vec(e_cc), e_cc),
        "outdegree(len)": (lambda: net.outdegree("len"), chk_vec(e_str), e_str),
        "path_lengths()": (lambda: net.path_lengths(), chk_mat(e_upl), e_upl),
        "global_efficiency()": (lambda: net.global_efficiency(), chk_vec([e_uge]), e_uge),
        "nsi_closeness()": (lambda: net.nsi_closeness(), chk_vec(e_ncl), e_ncl),
        "average_path_length()": (lambda: net.average_path_length(),
                                  chk_vec([Fr(sum(fin), len(fin))]), None),
    }
    if 3 <= n <= 7:
        # weighted vulnerability by node removal
        expv, ok_removal = [], True
        for i in nodes:
            keep = [v for v in nodes if v != i]
            subA = [[orc.A[x][y] for y in keep] for x in keep]
            if not any(any(r_) for r_ in subA):
                ok_removal = False   # known finding C03-F1 (edgeless FromIGraph)
                break
            dsub = weighted_floyd(subA, [[Wq[x][y] for y in keep] for x in keep], n - 1)
            gsub = sum(Fr(1) / dsub[x][y] for x in range(n - 1) for y in range(n - 1)
                       if x != y and dsub[x][y] != INF) / ((n - 1) * (n - 2))
            expv.append((e_ge - gsub) / e_ge)
        if ok_removal:
            pool["local_vulnerability(len)"] = (lambda: net.local_vulnerability("len"), chk_vec(expv, 1e-9), expv)
    names = sorted(pool)
    history = [rng.choice(names) for _ in range(10)] + ["path_lengths(len)", "path_lengths()"]
    held = {}
    done = []
    for step in history:
        f, ok, exp = pool[step]
        st, got = quiet(f)
        done.append(step)
        ctx.count("history:step")
        if st != "ok" or not ok(got):
            ctx.fail(sig("history", step, after="other-path-measures-on-the-same-object"
                         if len(done) > 1 else "fresh-object"),
                     f"{step} differs from its definition after the calls {done[:-1]} on the same object",
                     {"adjacency": A.tolist(), "weights": [[str(x) for x in r_] for r_ in Wq], "float": width.__name__,
                      "history": done, "expected": str(exp)[:2000],
                      "observed": (np.asarray(got).tolist() if st == "ok" else got)})
            break
        if step.startswith("path_lengths") and st == "ok":
            held[step] = got
    # the arrays handed out earlier (held by the library's cache) still hold the distances
    for step, arr in held.items():
        if not pool[step][1](arr):
            ctx.fail(sig("history", step, after="array-returned-earlier"),
                     f"the array returned by {step} was changed by later calls {done}",
                     {"adjacency": A.tolist(), "weights": [[str(x) for x in r_] for r_ in Wq], "history": done,
                      "observed": np.asarray(arr).tolist()})
    if not np.array_equal(W, Wcopy):
        ctx.fail(sig("history", "set_link_attribute", after="caller-array"),
                 "the caller's link-weight array was modified", {"adjacency": A.tolist()})



# --------------------------------------------------------------------------
# round 3: weighted n.s.i. betweenness against the pair-dependency definition, weighted clustering,
# distributions / histograms, exact random-walk betweenness, hubs
# --------------------------------------------------------------------------

def weighted_counts(orc, w):
    """sw[s][t] = sum over the shortest s-t paths of the product of the weights of all nodes on the path"""
    n, d, A = orc.n, orc.d, orc.A
    sw = [[Fr(0)] * n for _ in range(n)]
    for s in range(n):
        sw[s][s] = Fr(w[s])
        for t in sorted((t for t in range(n) if t != s and d[s][t] != INF), key=lambda t: d[s][t]):
            sw[s][t] = w[t] * sum(sw[s][u] for u in range(n)
                                  if A[u][t] and d[s][u] != INF and d[s][u] + 1 == d[s][t])
    return sw


def nsi_betweenness_def(orc, w, S, T):
    """published double sum: b_v = 1/w_v * sum_{t in T} sum_{s in S, s != v != t} w_s w_t sigma_ts(v)/sigma_ts
    with sigma_ts(v) = sigma_tv sigma_vs / w_v (product formula, v on a shortest t-s path)"""
    n, d = orc.n, orc.d
    sw = weighted_counts(orc, w)
    b = [Fr(0)] * n
    for t in T:
        for s in S:
            if s == t or d[t][s] == INF:
                continue
            for v in range(n):
                if v in (s, t) or d[t][v] == INF or d[v][s] == INF or d[t][v] + d[v][s] != d[t][s]:
                    continue
                b[v] += w[s] * w[t] * (sw[t][v] * sw[v][s] / w[v]) / sw[t][s]
    return [b[v] / w[v] for v in range(n)]


def hist_bounds(values, n_bins, interval=None):
    """exact normalised histogram (np.histogram semantics: equal-width classes, last one closed).
    Returns (certain, maybe, total, edges): a value that sits exactly on an interior class boundary may be
    counted on either side (the boundaries are floats in numpy)."""
    vals = [Fr(v) for v in values]
    lo, hi = (Fr(interval[0]), Fr(interval[1])) if interval is not None else (min(vals), max(vals))
    if lo == hi:
        lo, hi = lo - Fr(1, 2), hi + Fr(1, 2)
    certain, maybe = [0] * n_bins, [0] * n_bins
    total = 0
    for x in vals:
        if x < lo or x > hi:
            continue
        total += 1
        if x == hi:
            certain[-1] += 1
            continue
        t = (x - lo) * n_bins / (hi - lo)
        i = t.numerator // t.denominator
        if t.denominator == 1 and 0 < i:
            maybe[i] += 1
            maybe[i - 1] += 1
        else:
            certain[i] += 1
    edges = [lo + (hi - lo) * i / n_bins for i in range(n_bins)]
    return certain, maybe, total, edges


def hist_ok(got, certain, maybe, total, cumulative=False):
    g = [float(x) * total for x in np.asarray(got).ravel()]
    if len(g) != len(certain):
        return False
    lo, hi = list(certain), [c + m for c, m in zip(certain, maybe)]
    if cumulative:
        lo = [sum(lo[i:]) for i in range(len(lo))]
        hi = [min(total, sum(hi[i:])) for i in range(len(hi))]
    return all(l - 1e-6 <= x <= h + 1e-6 for x, l, h in zip(g, lo, hi)) and \
        (cumulative or abs(sum(g) - total) <= 1e-6)


def fr_solve(M, B):
    """exact solution X of M X = B (Fractions), None if singular"""
    n = len(M)
    m = len(B[0])
    a = [list(map(Fr, M[i])) + list(map(Fr, B[i])) for i in range(n)]
    for c in range(n):
        p = next((r for r in range(c, n) if a[r][c] != 0), None)
        if p is None:
            return None
        a[c], a[p] = a[p], a[c]
        inv = 1 / a[c][c]
        a[c] = [x * inv for x in a[c]]
        for r in range(n):
            if r != c and a[r][c] != 0:
                f = a[r][c]
                a[r] = [x - f * y for x, y in zip(a[r], a[c])]
    return [row[n:n + m] for row in a]


def exact_randomwalk(A):
    """Newman's and Arenas' random-walk betweenness of a connected undirected graph, in exact rationals
    (conventions of design/C03.md: Newman = sum_{s<t} I_i^{st} / ((N-1)/2) with unit current and
    I_s = I_t = 1; Arenas = expected number of visits of the walk absorbed at t, summed over s and t)"""
    n = len(A)
    k = [sum(r) for r in A]
    L = [[(k[i] if i == j else 0) - A[i][j] for j in range(n)] for i in range(n)]
    eye = [[Fr(int(i == j)) for j in range(n)] for i in range(n)]
    Jn = Fr(1, n)
    T = fr_solve([[L[i][j] + Jn for j in range(n)] for i in range(n)], eye)
    T = [[T[i][j] - Jn for j in range(n)] for i in range(n)]
    nb = [Fr(0)] * n
    for s in range(n):
        for t in range(s):
            x = [T[i][s] - T[i][t] for i in range(n)]
            for i in range(n):
                if i in (s, t):
                    nb[i] += 1
                else:
                    nb[i] += sum(abs(x[i] - x[j]) for j in range(n) if A[i][j]) / 2
    nb = [2 * x / (n - 1) for x in nb]
    P = [[Fr(A[i][j], k[i]) for j in range(n)] for i in range(n)]
    ab = [Fr(0)] * n
    for t in range(n):
        Pt = [([Fr(0)] * n if i == t else P[i]) for i in range(n)]
        inv = fr_solve([[eye[i][j] - Pt[i][j] for j in range(n)] for i in range(n)], eye)
        for j in range(n):
            # column sums of (I - Pt)^-1 Pt
            ab[j] += sum(inv[i][l] * Pt[l][j] for i in range(n) for l in range(n))
    return nb, ab


def round3_checks(ctx, run, A, directed, tier):
    from pyunicorn.core.network import Network
    rng = ctx.rng
    n = A.shape[0]
    orc = Oracle(A, directed)
    feat = features(A, directed)
    nodes = list(range(n))
    m = enc_mat(A)
    ctx.count("round3:graphs")

    def sig(kind, method, **kw):
        s_ = {"kind": kind, "method": method, "directed": directed, "input_class": feat}
        s_.update(kw)
        return s_

    def rp(method, expected, observed, **kw):
        r_ = {"method": method, "directed": directed, "adjacency": A.tolist(),
              "expected": expected, "observed": observed}
        r_.update(kw)
        return r_

    net = mk_network(A, directed)

    # ---- 1. distributions and histograms -------------------------------------------------------
    for meth, base, bins_plus, cum in (("degree_distribution", orc.deg, 0, False),
                                       ("indegree_distribution", orc.inn, 0, False),
                                       ("outdegree_distribution", orc.out, 1, False),
                                       ("degree_cdf", orc.deg, 0, True),
                                       ("indegree_cdf", orc.inn, 1, True),
                                       ("outdegree_cdf", orc.out, 1, True)):
        nb = max(base) + bins_plus
        st, got = quiet(getattr(net, meth))
        ctx.count("oracle:" + meth)
        if nb <= 0:
            continue   # a histogram with no class: numpy raises, the distribution is undefined
        c, mb, tot, _ = hist_bounds(base, nb)
        c03_sweep.mark(meth)
        if st != "ok" or not hist_ok(got, c, mb, tot, cum):
            ctx.fail(sig("api", meth), f"{meth} is not the normalised {'cumulative ' if cum else ''}histogram of the "
                     f"degrees in {nb} equal classes between the smallest and the largest degree",
                     rp(meth, {"certain": c, "boundary": mb, "total": tot}, fl(got) if st == "ok" else got))
    # static helpers with arbitrary values / intervals
    vals = [Fr(rng.randrange(-8, 40), rng.choice([1, 2, 4])) for _ in range(rng.randrange(1, 30))]
    nb = rng.randrange(1, 9)
    interval = rng.choice([None, (0, 8), (-2, 10), (1, 1.5), (3, 20)])
    c, mb, tot, edges = hist_bounds(vals, nb, interval)
    fv = [float(x) for x in vals]
    fv = rng.choice([fv, np.array(fv), np.array(fv, dtype=np.float32)])
    ctx.count("oracle:_histogram")
    # lower class bounds come back in the width of the caller's array
    etol = 1e-5 if getattr(fv, "dtype", None) == np.float32 else 1e-9
    if tot:
        st, got = quiet(Network._histogram, fv, nb, interval)
        ok = st == "ok" and hist_ok(got[0], c, mb, tot) and \
            all(rel_close(x, e, etol) or abs(float(x) - float(e)) < etol for x, e in zip(fl(got[2]), edges))
        if ok:   # statistical error 1/sqrt(n_i)/total per class
            for f_, e_ in zip(fl(got[0]), fl(got[1])):
                cnt = f_ * tot
                exp_e = (1 / math.sqrt(cnt) / tot) if cnt > 0.5 else 0.0
                ok &= abs(e_ - exp_e) <= 1e-9
        if not ok:
            ctx.fail({"kind": "api", "method": "_histogram", "input_class": "values"},
                     "_histogram differs from the normalised histogram / its error / lower class bounds",
                     {"values": [str(x) for x in vals], "n_bins": nb, "interval": interval,
                      "expected": {"certain": c, "boundary": mb, "total": tot, "edges": [str(e) for e in edges]},
                      "observed": [fl(x) for x in got] if st == "ok" else got})
        st, got = quiet(Network._cum_histogram, fv, nb, interval)
        if st != "ok" or not hist_ok(got[0], c, mb, tot, True):
            ctx.fail({"kind": "api", "method": "_cum_histogram", "input_class": "values"},
                     "_cum_histogram[i] is not the share of the values in the classes j >= i",
                     {"values": [str(x) for x in vals], "n_bins": nb, "interval": interval,
                      "observed": fl(got[0]) if st == "ok" else got})
    # n.s.i. degree histograms with dyadic node weights
    if not directed and n:
        w = [Fr(rng.randrange(1, 9), 4) for _ in nodes]
        netw = mk_network(A, False)
        netw.node_weights = np.array([float(x) for x in w], dtype=rng.choice([np.float32, np.float64]))
        nk = [sum(w[j] for j in nodes if A[i, j]) + w[i] for i in nodes]
        # typical weight a power of two: the corrected degrees stay dyadic, so `int(max/min)` is exact
        for tw in (None, Fr(1, 8)):
            vk = nk if tw is None else [x / tw - 1 for x in nk]
            q = max(vk) / min(vk)
            nb = q.numerator // q.denominator + 1
            c, mb, tot, edges = hist_bounds(vk, nb)
            kw = {} if tw is None else {"typical_weight": float(tw)}
            st, got = quiet(netw.nsi_degree_histogram, **kw)
            ctx.count("oracle:nsi_degree_histogram")
            for meth_ in ("nsi_degree_histogram", "nsi_degree_cumulative_histogram"):
                c03_sweep.mark(meth_)
                if tw is not None:
                    c03_sweep.mark(meth_, "typical_weight")
            if st != "ok" or not hist_ok(got[0], c, mb, tot) or \
                    any(not rel_close(x, e, 1e-9) for x, e in zip(fl(got[2]), edges)):
                ctx.fail(sig("api", "nsi_degree_histogram", typical_weight=tw is not None),
                         "nsi_degree_histogram is not the histogram of the n.s.i. degrees in "
                         "int(max/min)+1 classes", rp("nsi_degree_histogram", {"certain": c, "boundary": mb},
                                                      [fl(x) for x in got] if st == "ok" else got,
                                                      node_weights=[str(x) for x in w]))
            st, got = quiet(netw.nsi_degree_cumulative_histogram, **kw)
            if st != "ok" or not hist_ok(got[0], c, mb, tot, True):
                ctx.fail(sig("api", "nsi_degree_cumulative_histogram", typical_weight=tw is not None),
                         "nsi_degree_cumulative_histogram is not the cumulative histogram of the n.s.i. degrees",
                         rp("nsi_degree_cumulative_histogram", {"certain": c, "boundary": mb},
                            fl(got[0]) if st == "ok" else got, node_weights=[str(x) for x in w]))

    # ---- 2. weighted_local_clustering (static; Holme 2007) ---------------------------------------
    if n and A.any():
        k = rng.choice([-30, -4, 0, 0, 3, 30])
        Wq = [[(Fr(rng.randrange(1, 17), 8) * Fr(2) ** k if A[i, j] else Fr(0)) for j in nodes] for i in nodes]
        if not directed or rng.random() < 0.5:
            Wq = [[Wq[min(i, j)][max(i, j)] if (A[i, j] or A[j, i]) else Fr(0) for j in nodes] for i in nodes]
        mx = max(max(r_) for r_ in Wq)
        expw = []
        for i in nodes:
            num = sum(Wq[i][j] * Wq[j][l] * Wq[l][i] for j in nodes for l in nodes)
            den = mx * sum(Wq[i]) * sum(Wq[l][i] for l in nodes)
            expw.append(num / den if den else None)
        width = rng.choice([np.float32, np.float64, "list"])
        Wf = [[float(x) for x in r_] for r_ in Wq]
        arg = Wf if width == "list" else np.array(Wf, dtype=width)
        st, got = quiet(Network.weighted_local_clustering, arg)
        ctx.count(f"oracle:weighted_local_clustering:{width if width == 'list' else width.__name__}")
        c03_sweep.mark("weighted_local_clustering")
        tol = 2e-6 if width is np.float32 else 1e-9
        if st != "ok" or len(fl(got)) != n or any(
                (e is None and not math.isnan(x)) or (e is not None and not abs(x - float(e)) <= tol * max(1.0, float(e)))
                for x, e in zip(fl(got), expw)):
            ctx.fail(sig("api", "weighted_local_clustering"),
                     "weighted_local_clustering differs from sum_jk w_ij w_jk w_ki / (max(w) sum_jk w_ij w_ki)",
                     rp("weighted_local_clustering", [str(e) for e in expw], fl(got) if st == "ok" else got,
                        weights=[[str(x) for x in r_] for r_ in Wq]))
        elif width is not np.float32 and n <= 12:
            run.approx("wlc " + ";".join(enc_frs(r_) for r_ in Wq), [fl(got)], ("wlc", A, directed))

    if directed:
        return
    # ---- 3. the kernel _nsi_betweenness against the pair-dependency definition -------------------
    if n and n <= (22 if tier == "thorough" else 16):
        scale = Fr(2) ** rng.choice([-10, 0, 0, 6])
        w = [Fr(rng.randrange(1, 13), 4) * scale for _ in nodes]
        netw = mk_network(A, False)
        netw.node_weights = np.array([float(x) for x in w], dtype=rng.choice([np.float32, np.float64]))
        pick = rng.random()
        if pick < 0.3:
            S, T = nodes, nodes
        elif pick < 0.5:
            S, T = [rng.choice(nodes)], [rng.choice(nodes)]
        else:
            S = sorted(rng.sample(nodes, rng.randrange(1, n + 1)))
            T = rng.sample(nodes, rng.randrange(1, n + 1))      # unsorted targets
        expb = nsi_betweenness_def(orc, w, S, T)
        Targ = rng.choice([T, np.array(T), tuple(T)])
        st, got = quiet(netw.nsi_betweenness, sources=S, targets=Targ)
        ctx.count("oracle:nsi_betweenness:weighted")
        if st != "ok" or any(not rel9(x, e) for x, e in zip(fl(got), expb)):
            ctx.fail(sig("api", "nsi_betweenness", node_weights="dyadic"),
                     "nsi_betweenness differs from 1/w_v sum_{s,t} w_s w_t sigma_st(v)/sigma_st",
                     rp("nsi_betweenness", [str(e) for e in expb], fl(got) if st == "ok" else got,
                        node_weights=[str(x) for x in w], sources=S, targets=list(map(int, T))))
        elif n <= 12:
            src = [1 if v in S else 0 for v in nodes]
            args = f"{m} {enc_frs(w)} {enc_vec(src)} {enc_vec(T)}"
            run.approx("betwdef " + args, [fl(got)], ("betwdef-rel", A, directed))
            run.kernel_vs_def.append(args)
            if n <= 9:
                run.sigma_reqs.append(f"sigma {m} {enc_frs(w)} {rng.choice(nodes)}")
                # round 5: the implementation against the definition by ENUMERATION of all shortest paths
                # (right-hand side of `nsiBetweenness_eq_enumeration`), and the same inside the model
                run.approx("betwenum " + args, [fl(got)], ("betwenum-rel", A, directed))
                run.kernel_vs_enum.append(args)
                ctx.count("model:betwenum")
        # a second call on the same object with other sources / targets (cached worker, different key)
        S2 = sorted(rng.sample(nodes, rng.randrange(1, n + 1)))
        T2 = sorted(rng.sample(nodes, rng.randrange(1, n + 1)))
        st, got = quiet(netw.nsi_interregional_betweenness, S2, T2)
        exp2 = nsi_betweenness_def(orc, w, S2, T2)
        if st != "ok" or any(not rel9(x, e) for x, e in zip(fl(got), exp2)):
            ctx.fail(sig("history", "nsi_interregional_betweenness", after="nsi_betweenness-with-other-sets"),
                     "nsi_interregional_betweenness after an earlier call with other sources/targets differs "
                     "from its definition",
                     rp("nsi_interregional_betweenness", [str(e) for e in exp2], fl(got) if st == "ok" else got,
                        node_weights=[str(x) for x in w], sources=S2, targets=T2))

    # ---- 4. random-walk betweenness in exact rationals (small connected graphs) --------------------
    if 3 <= n <= 7 and is_connected(A):
        nbx, abx = exact_randomwalk(orc.A)
        for meth, exp in (("newman_betweenness", nbx), ("arenas_betweenness", abx)):
            st, got = quiet(getattr(net, meth))
            ctx.count("oracle:exact:" + meth)
            if st != "ok" or any(not close(x, e, 1e-8) for x, e in zip(fl(got), exp)):
                ctx.fail({"kind": "api", "method": meth, "directed": False, "input_class": "connected",
                          "oracle": "exact"},
                         f"{meth} differs from its definition evaluated in exact rational arithmetic",
                         rp(meth, [str(e) for e in exp], fl(got) if st == "ok" else got))


def hub_betweenness(ctx):
    """hubs / multiplicities beyond the small integer ranges in the kernel `_nsi_betweenness`:
    a star with 300 leaves and K(2,200) (200 equal shortest paths between the two hubs), closed forms"""
    for name, A, exp in (("star-300", star(301), [Fr(300 * 299)] + [Fr(0)] * 300),
                         ("K(2,200)", bipartite(2, 200), [Fr(200 * 199, 2)] * 2 + [Fr(2, 200)] * 200)):
        net = mk_network(A, False)
        ctx.count("kernel:_nsi_betweenness:" + name)
        ctx.case(("hub-betw", name), True)
        st, got = quiet(net.interregional_betweenness)
        if st != "ok" or any(not close(x, e) for x, e in zip(fl(got), exp)):
            ctx.fail({"kind": "kernel", "kernel": "_nsi_betweenness", "input_class": name},
                     f"interregional_betweenness on {name} differs from the closed form",
                     {"graph": name, "expected": [str(exp[0]), str(exp[-1])],
                      "observed": [fl(got)[0], fl(got)[-1]] if st == "ok" else got})
        st, got = quiet(net.betweenness)
        if st != "ok" or any(not close(x, e / 2) for x, e in zip(fl(got), exp)):
            ctx.fail({"kind": "api", "method": "betweenness", "input_class": name},
                     f"betweenness on {name} differs from the closed form",
                     {"graph": name, "observed": [fl(got)[0], fl(got)[-1]] if st == "ok" else got})


def spectral_checks(ctx, A):
    """connected undirected graphs: spectral and random-walk measures against dense
    linear algebra (correspondence-only measures; float tolerance 1e-6)"""
    n = A.shape[0]
    net = mk_network(A, False)
    Af = np.array(A, dtype=float)
    tol = 1e-6

    def bad(method, exp, got):
        ctx.fail({"kind": "api", "method": method, "directed": False, "input_class": "connected"},
                 f"{method} differs from its definition (dense linear algebra)",
                 {"method": method, "adjacency": A.tolist(), "expected": np.asarray(exp).tolist(),
                  "observed": np.asarray(got).tolist() if not isinstance(got, str) else got})
    ctx.count("spectral:graphs")
    # eigenvector centrality: Perron vector of A, max-normalised
    ev, V = np.linalg.eigh(Af)
    gap = ev[-1] - ev[-2] if n > 1 else 1.0
    if gap > 1e-3 and abs(ev[-1] + ev[0]) > 1e-3:
        v = np.abs(V[:, -1])
        st, got = quiet(net.eigenvector_centrality)
        if st != "ok" or not np.allclose(got, v / v.max(), atol=tol):
            bad("eigenvector_centrality", v / v.max(), got)
    # msf synchronizability: lambda_max / lambda_2 of the Laplacian
    L = np.diag(Af.sum(axis=1)) - Af
    lev = np.linalg.eigvalsh(L)
    st, got = quiet(net.msf_synchronizability)
    if st != "ok" or not abs(got - lev[-1] / lev[1]) <= tol * max(1, abs(lev[-1] / lev[1])):
        bad("msf_synchronizability", lev[-1] / lev[1], got)
    # PageRank: stationary vector of the damped walk (damping 0.85)
    k = Af.sum(axis=1)
    P = Af / k[:, None]
    G = 0.85 * P.T + 0.15 / n * np.ones((n, n))
    pr = np.linalg.solve(np.eye(n) - G + np.ones((n, n)), np.ones(n))
    st, got = quiet(net.pagerank)
    if st != "ok" or not np.allclose(got, pr / pr.sum(), atol=tol):
        bad("pagerank", pr / pr.sum(), got)
    # Newman's random-walk betweenness via the pseudo-inverse (L + J/n)^-1 - J/n of the Laplacian:
    # current through i for the pair (s,t): I_i = 1/2 sum_j A_ij |T_is - T_it - T_js + T_jt|, I_s = I_t = 1;
    # the method returns sum_{s<t} I_i / ((N-1)/2)
    J = np.ones((n, n)) / n
    T = np.linalg.inv(L + J) - J     # pseudo-inverse of the Laplacian of a connected graph
    b = np.zeros(n)
    for s in range(n):
        for t in range(s):
            x = T[:, s] - T[:, t]
            cur = 0.5 * (Af * np.abs(x[:, None] - x[None, :])).sum(axis=1)
            cur[s] = cur[t] = 1.0
            b += cur
    st, got = quiet(net.newman_betweenness)
    if st != "ok" or not np.allclose(got, 2 * b / (n - 1), atol=tol, rtol=tol):
        bad("newman_betweenness", 2 * b / (n - 1), got)
    # Arenas random-walk betweenness: expected visits of absorbing walks, summed over sources and targets
    ab = np.zeros(n)
    for t in range(n):
        Pt = P.copy()
        Pt[t, :] = 0
        visits = np.linalg.solve((np.eye(n) - Pt).T, np.ones(n))   # sum over sources of (I-Pt)^-1
        Bt = np.linalg.inv(np.eye(n) - Pt) @ Pt
        ab += Bt.sum(axis=0)
        del visits
    st, got = quiet(net.arenas_betweenness)
    if st != "ok" or not np.allclose(got, ab, atol=tol, rtol=tol):
        bad("arenas_betweenness", ab, got)


def is_connected(A):
    n = A.shape[0]
    if n == 0:
        return False
    seen = {0}
    todo = [0]
    while todo:
        u = todo.pop()
        for v in range(n):
            if (A[u, v] or A[v, u]) and v not in seen:
                seen.add(v)
                todo.append(v)
    return len(seen) == n


def big_degree_kernels(ctx):
    """hubs beyond the int32 range of k(k-1)(k-2) resp. k(k-1)(k-2)(k-3)"""
    from pyunicorn.core._ext import numerics as K
    for order, kern, k in ((4, K._local_cliquishness_4thorder, 1292), (4, K._local_cliquishness_4thorder, 1291),
                           (5, K._local_cliquishness_5thorder, 217), (5, K._local_cliquishness_5thorder, 216)):
        N = k + 1
        A = np.zeros((N, N), dtype=np.int8)
        A[0, 1:] = 1
        A[1:, 0] = 1
        c = order - 1
        for a in range(1, c + 1):
            for b in range(1, c + 1):
                if a != b:
                    A[a, b] = 1
        deg = A.sum(axis=1).astype(np.int16)
        st, r = quiet(kern, N, A, deg)
        exp = Fr(1, math.comb(k, c))
        ctx.count(f"kernel:cliquishness{order}:hub-degree={k}")
        ctx.case(("bighub", order, k), True)
        if st != "ok" or not abs(float(r[0]) - float(exp)) <= 1e-9 * float(exp):
            ctx.fail({"kind": "kernel", "kernel": f"_local_cliquishness_{order}thorder",
                      "input_class": f"degree>{'1291' if order == 4 else '216'}" if k in (1292, 217)
                      else "degree-at-bound"},
                     f"_local_cliquishness_{order}thorder: hub of degree {k} with one K{c} among its "
                     f"neighbours gives {r[0] if st == 'ok' else r}, definition 1/C({k},{c}) = {float(exp)}",
                     {"kernel": f"_local_cliquishness_{order}thorder",
                      "graph": f"star with hub 0 of degree {k} plus clique on nodes 1..{c}",
                      "expected": str(exp), "observed": float(r[0]) if st == "ok" else r})


def run(ctx):
    rng = ctx.rng
    quick = ctx.tier == "quick"
    ctx.rule = ("graphs: all labelled undirected graphs on <= %d nodes, directed on <= %d nodes, random "
                "G(n,p) with 6..40 nodes over p in 0.03..0.97, structured families (paths, stars, cliques, "
                "cycles, bipartite, disjoint unions, isolated nodes, equal-length multipaths, wheel) and "
                "permuted copies; every graph goes through every applicable measure; a subset additionally "
                "through every constructor / array type, the public wrappers with non-default arguments, "
                "float32/float64 weights rescaled by powers of two and 12-step call histories on one object; "
                "round 4: every public measure of Network (by introspection) with every optional argument on "
                "structured, sparse-disconnected and sampled graphs with cube link weights and dyadic node weights; "
                "distinct = distinct "
                "(directed, adjacency); non-trivial = at least 3 nodes and one link"
                % ((4, 3) if quick else (5, 4)))
    ctx.trusted = common.DEFAULT_TRUSTED + [
        "igraph (distances, betweenness, edge_betweenness, transitivity, coreness, closeness, pagerank) and the "
        "scipy/numpy eigen-solvers are not modelled; their results are compared with brute-force definitions "
        "on every run",
    ]
    ctx.proofs()
    run_ = Run(ctx)

    graphs = []
    nu, nd = (4, 3) if quick else (5, 4)
    for n in range(2, nu + 1):   # N <= 1 cannot be constructed (link_density divides by N-1; C05)
        for A in all_undirected(n):
            graphs.append(("exhaustive", A, False))
    if quick:
        # a slice of the 5-node graphs
        g5 = list(all_undirected(5))
        for A in rng.sample(g5, 60):
            graphs.append(("exhaustive-sample", A, False))
    for n in range(2, nd + 1):
        for A in all_directed(n):
            graphs.append(("exhaustive", A, True))
    if quick:
        for _ in range(120):
            graphs.append(("exhaustive-sample", random_graph(rng, 4, rng.choice([0.3, 0.5, 0.7]), True), True))
    for name, A in structured(rng):
        graphs.append((name, A, False))
    nrand = 60 if quick else 400
    for c in range(nrand):
        n = rng.randrange(6, 41) if (c % 3 or not quick) else rng.randrange(6, 13)
        if quick and n > 24 and c % 2:
            n = rng.randrange(6, 25)
        p = rng.choice([0.03, 0.08, 0.15, 0.25, 0.4, 0.5, 0.65, 0.8, 0.9, 0.97])
        directed = c % 4 == 3
        graphs.append(("random", random_graph(rng, n, p, directed), directed))

    for fam, A, directed in graphs:
        check_graph(ctx, run_, A, directed, fam, ctx.tier)
    # weighted variants and spectral measures on a subset
    wsel = [g for g in graphs if g[1].shape[0] >= 2 and g[1].any()]
    for fam, A, directed in (wsel if not quick else rng.sample(wsel, min(len(wsel), 150))):
        weighted_checks(ctx, run_, A, directed)
    csel = [g for g in graphs if not g[2] and g[1].shape[0] >= 3 and is_connected(g[1])]
    for fam, A, directed in (csel if not quick else rng.sample(csel, min(len(csel), 60))):
        spectral_checks(ctx, A)
    # round 2: constructors / wrappers / histories / rescalings on a subset
    esel = [g for g in graphs if g[1].shape[0] >= 2]
    nx = 140 if quick else 1200
    for fam, A, directed in (esel if len(esel) <= nx else rng.sample(esel, nx)):
        extended_checks(ctx, run_, A, directed, ctx.tier)
    big_degree_kernels(ctx)
    # round 3: distributions, weighted clustering, weighted n.s.i. betweenness = definition, exact random walks
    nr = 160 if quick else 1500
    for fam, A, directed in (esel if len(esel) <= nr else rng.sample(esel, nr)):
        round3_checks(ctx, run_, A, directed, ctx.tier)
    hub_betweenness(ctx)
    # round 4: every public measure of Network (found by introspection) with every optional argument against
    # its definition, random-walk betweenness per connected component on disconnected graphs included
    api = c03_sweep.public_api()
    ssel = [g for g in graphs if g[0] not in ("exhaustive", "exhaustive-sample", "random")
            and g[1].shape[0] <= 12]
    for c in range(30 if quick else 200):     # sparse graphs: several components of >= 2 nodes
        n = rng.randrange(5, 15)
        ssel.append(("sparse-disconnected", random_graph(rng, n, rng.choice([0.8, 1.2, 1.6]) / n, False), False))
    pool = [g for g in graphs if g[0] in ("exhaustive", "exhaustive-sample", "random") and 3 <= g[1].shape[0] <= 12]
    ssel += rng.sample(pool, min(len(pool), 90 if quick else 900))
    for fam, A, directed in ssel:
        ctx.count("sweep:family:" + fam)
        ctx.case(("sweep", directed, A.shape[0], A.tobytes().hex()), bool(A.any()))
        c03_sweep.sweep_graph(ctx, A, directed, api, run_)
    c03_sweep.coverage_obligation(ctx)
    # inside the model: the statement-by-statement kernel model against the pair-dependency definition,
    # and the path-count recursion against the enumeration of all shortest paths (exact rationals)
    kd = run_.kernel_vs_def
    ans = common.driver(ctx.pid, ["betw " + a for a in kd] + ["betwdef " + a for a in kd] + run_.sigma_reqs)
    badk = [kd[i][:200] for i in range(len(kd)) if ans[i] != ans[len(kd) + i] or ans[i] == "bad-request"]
    bads = [r[:200] for r, x in zip(run_.sigma_reqs, ans[2 * len(kd):])
            if ";" not in x or x.split(";")[0] != x.split(";")[1]]
    ctx.obligation(f"model: kernel _nsi_betweenness == pair-dependency definition, exact ({len(kd)} requests)",
                   "correspondence", not badk, "\n".join(badk[:5]))
    ctx.obligation(f"model: path-count recursion == sum over all enumerated shortest paths, exact "
                   f"({len(run_.sigma_reqs)} requests)", "correspondence", not bads, "\n".join(bads[:5]))

    ke = run_.kernel_vs_enum
    anse = common.driver(ctx.pid, ["betw " + a for a in ke] + ["betwenum " + a for a in ke])
    bade = [ke[i][:200] for i in range(len(ke)) if anse[i] != anse[len(ke) + i] or anse[i] == "bad-request"]
    ctx.obligation(f"model: kernel _nsi_betweenness == double sum over all ENUMERATED shortest paths, exact "
                   f"({len(ke)} requests; theorem nsiBetweenness_eq_enumeration)", "correspondence", not bade,
                   "\n".join(bade[:5]))

    nd = run_.newman_def
    ansn = common.driver(ctx.pid, nd)
    badn = [r[:300] for r, x in zip(nd, ansn) if x != "1"]
    ctx.obligation(f"model: per component, reduced Kirchhoff matrix x computed inverse == identity and "
                   f"newman kernel + normalisation == sum_(t<s) I_i^st / ((N_c-1)/2), exact ({len(nd)} graphs; "
                   f"cross-check of theorems ratInv_correct, newmanComponent_eq_def)",
                   "correspondence", not badn, "\n".join(badn[:5]))
    # ---------------- correspondence with the Lean model --------------------------------
    ctx.correspond("Lean Net model == Network methods (integer outputs)", run_.reqs, run_.exp)
    freqs = run_.freqs
    model = common.driver(ctx.pid, [r for r, _, _ in freqs])
    badl = []
    ncmp = 0
    for (req, impl, meta), ans in zip(freqs, model):
        rowsm = parse_rows(ans) if ans not in ("bad-request",) and not ans.startswith("raise:") else None
        if rowsm is None:
            badl.append(f"{req[:200]} :: model={ans[:100]}")
            continue
        rowsm = rowsm + [[]] * (len(impl) - len(rowsm))
        for ri, irow in enumerate(impl):
            if irow is None:
                continue   # the implementation raised / not applicable: reported by the oracle part
            mrow = rowsm[ri] if ri < len(rowsm) else []
            ncmp += 1
            cmp = rel9 if meta[0].endswith("-rel") else close
            if len(mrow) != len(irow) or any(not cmp(x, q) for x, q in zip(irow, mrow)):
                badl.append(f"{req[:300]} :: row {ri} model={[str(q) for q in mrow][:12]} impl={irow[:12]}")
    ctx.obligation(f"correspondence: Lean Net/NetBetw model == Network methods and kernels "
                   f"(rational outputs, tol 1e-9; {len(freqs)} requests, {ncmp} vectors)",
                   "correspondence", not badl, "\n".join(badl[:6]))
    ctx.extra["requests_compared"] = ctx.extra.get("requests_compared", 0) + len(freqs)
    ctx.extra["graphs"] = len(graphs)
