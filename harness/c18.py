"""C18 — Resistive-network quantities obey circuit laws.

proof  : lean/Pyunicorn/Properties/C18.lean (effective resistance = potential difference for
         every generalised inverse, metric laws, scaling, series / parallel, Foster, kernels =
         defining sums, histories of update_resistances)
tie    : the Lean model (exact Rat) against ResNetwork on the same generated networks
         (tolerance 1e-7; float32 paths: stated bound), against the compiled current-flow
         kernels at the kernel boundary on exact float32 inputs, and on update/query histories
         (round 3) complex networks against the field model executed at the Gaussian rationals
         (`cnet`), histories with a reassigned adjacency against the model's fresh history
search : exact circuit solve in fractions.Fraction (grounded Laplacian), the circuit laws as
         identities on the implementation's own output, fresh twin objects after every
         update_resistances, complex impedances against a direct linear solve, hubs of degree
         128+ against an independent float64 solve
"""
import contextlib
import io
import itertools
import math
import warnings
from fractions import Fraction as Fr

import numpy as np

from . import common

TOL = 1e-7          # float64 pipeline (pinv)
F32 = 2.0 ** -24    # unit round-off of the float32 copies handed to the C sums


# --------------------------------------------------------------------------
# encoding / parsing
# --------------------------------------------------------------------------

def enc_fr(x):
    x = Fr(x)
    return str(x.numerator) if x.denominator == 1 else f"{x.numerator}/{x.denominator}"


def enc_mat(M):
    return ";".join(",".join(enc_fr(v) for v in row) for row in M) or "-"


def enc_adj(A):
    return ";".join(",".join(str(int(v)) for v in row) for row in A) or "-"


def p_fr(s):
    return None if s == "none" else Fr(s)


def p_vec(s):
    return [] if s == "-" else [p_fr(t) for t in s.split(",")]


def p_mat(s):
    return [] if s == "-" else [p_vec(r) for r in s.split(";")]


def close(x, q, tol=TOL, scale=1.0, floor=1.0):
    """implementation float x against exact value q: |x - q| <= tol * max(floor, |q|, scale)"""
    if q is None:
        return False
    try:
        x = float(x)
    except (TypeError, ValueError):
        return False
    if math.isnan(x) or math.isinf(x):
        return False
    return abs(x - float(q)) <= tol * max(floor, abs(float(q)), scale)


def pdriver(pid, reqs, jobs=4):
    """common.driver on up to `jobs` interleaved chunks in parallel (the exact Gauss-Jordan of the
    model dominates the thorough tier); answers in request order"""
    if len(reqs) < 200:
        return common.driver(pid, reqs)
    from concurrent.futures import ThreadPoolExecutor
    chunks = [reqs[k::jobs] for k in range(jobs)]
    with ThreadPoolExecutor(jobs) as ex:
        outs = list(ex.map(lambda ch: common.driver(pid, ch), chunks))
    ans = [None] * len(reqs)
    for k, out in enumerate(outs):
        ans[k::jobs] = out
    return ans


def quiet(f, *a, **k):
    with contextlib.redirect_stdout(io.StringIO()), warnings.catch_warnings():
        warnings.simplefilter("ignore")
        return f(*a, **k)


# --------------------------------------------------------------------------
# generators: connected graphs, positive resistances
# --------------------------------------------------------------------------

def is_connected(n, A):
    seen, todo = {0}, [0]
    while todo:
        i = todo.pop()
        for j in range(n):
            if A[i][j] and j not in seen:
                seen.add(j)
                todo.append(j)
    return len(seen) == n


def graph_from_edges(n, edges):
    A = [[0] * n for _ in range(n)]
    for i, j in edges:
        A[i][j] = A[j][i] = 1
    return A


def all_connected(n):
    pairs = list(itertools.combinations(range(n), 2))
    for bits in itertools.product([0, 1], repeat=len(pairs)):
        A = graph_from_edges(n, [p for p, b in zip(pairs, bits) if b])
        if is_connected(n, A):
            yield A


def structured(n, kind):
    e = []
    if kind == "path":
        e = [(i, i + 1) for i in range(n - 1)]
    elif kind == "cycle":
        e = [(i, (i + 1) % n) for i in range(n)] if n >= 3 else [(0, 1)]
    elif kind == "star":
        e = [(0, i) for i in range(1, n)]
    elif kind == "complete":
        e = list(itertools.combinations(range(n), 2))
    elif kind == "ladder":            # two rails + rungs (n even)
        h = n // 2
        e = [(i, i + 1) for i in range(h - 1)] + [(h + i, h + i + 1) for i in range(h - 1)] \
            + [(i, h + i) for i in range(h)]
        if n % 2:
            e.append((n - 2, n - 1))
    elif kind == "wheel":
        e = [(0, i) for i in range(1, n)] + [(i, i + 1) for i in range(1, n - 1)] + \
            ([(n - 1, 1)] if n > 3 else [])
    elif kind == "barbell":
        h = n // 2
        e = list(itertools.combinations(range(h), 2)) + \
            list(itertools.combinations(range(h, n), 2)) + [(h - 1, h)]
    elif kind == "bundle":            # parallel two-edge branches between 0 and 1
        e = [(0, k) for k in range(2, n)] + [(k, 1) for k in range(2, n)]
    elif kind == "bundle+direct":
        e = [(0, 1)] + [(0, k) for k in range(2, n)] + [(k, 1) for k in range(2, n)]
    return graph_from_edges(n, sorted(set(tuple(sorted(x)) for x in e if x[0] != x[1])))


def random_connected(n, rng, p):
    perm = list(range(n))
    rng.shuffle(perm)
    e = [(perm[i], perm[rng.randrange(i)]) for i in range(1, n)]   # random spanning tree
    for i, j in itertools.combinations(range(n), 2):
        if rng.random() < p:
            e.append((i, j))
    return graph_from_edges(n, e)


OFFLINK_MODES = ["dense", "dense", "some", "some-asym", "diag", "dense+diag"]


def draw_res(n, A, rng, kind, offlink=None):
    """symmetric positive resistances on the links; exactly representable as doubles.
    `offlink`: the resistance *matrix* is non-zero also on pairs that are NOT links (a dense
    distance-like matrix next to a thresholded adjacency): `dense` every non-linked pair,
    `some` a random subset, `some-asym` a random subset of *ordered* pairs, `diag` the diagonal,
    `dense+diag` both.  Only legal together with an explicit `adjacency=` (or in
    `update_resistances` on an existing network): the links stay those of `A`."""
    R = [[Fr(0)] * n for _ in range(n)]
    pow2_base = rng.randrange(-30, 28)      # one extreme scale per network, ratios <= 8

    def one():
        if kind == "unit":
            return Fr(1)
        if kind == "int":
            return Fr(rng.randrange(1, 11))
        if kind == "dyadic":
            return Fr(rng.randrange(1, 81), 8)
        if kind == "pow2":     # extreme but exact: 1/r is exact in both float widths
            return Fr(2) ** (pow2_base + rng.randrange(0, 4))
        return Fr(2) ** rng.randrange(-4, 8) * rng.choice([1, 3, 5])   # wide
    for i in range(n):
        for j in range(i):
            if A[i][j]:
                R[i][j] = R[j][i] = one()
    if offlink:
        for i in range(n):
            for j in range(i):
                if not A[i][j]:
                    if offlink in ("dense", "dense+diag") or \
                            (offlink == "some" and rng.random() < 0.5):
                        # smaller than the links now and then: a conducting non-link dominates
                        R[i][j] = R[j][i] = one() / rng.choice([1, 1, 8])
                    elif offlink == "some-asym":
                        if rng.random() < 0.5:
                            R[i][j] = one()
                        if rng.random() < 0.5:
                            R[j][i] = one()
            if offlink in ("diag", "dense+diag"):
                R[i][i] = one()
    return R


def has_offlink(A, res):
    n = len(A)
    return any(res[i][j] != 0 and not A[i][j] for i in range(n) for j in range(n))


def to_np(res, kind, dtype="auto"):
    """the caller's array.  auto: int64 for integral unit/int draws, else float64;
    float32 only if every value is exactly representable (else float64)"""
    if dtype == "float32":
        a = np.array([[float(v) for v in r] for r in res], dtype=np.float32)
        if all(Fr(float(a[i, j])) == res[i][j] for i in range(len(res)) for j in range(len(res))):
            return a
        dtype = "float64"
    if dtype == "auto" and kind in ("unit", "int") and \
            all(v.denominator == 1 and abs(v) < 2 ** 62 for r in res for v in r):
        return np.array([[int(v) for v in r] for r in res], dtype=np.int64)
    return np.array([[float(v) for v in r] for r in res], dtype=float)


class Case:
    def __init__(self, n, A, res, kind, tag, adj_from_res=False, dtype="auto", opts=None,
                 offlink=None):
        self.n, self.A, self.res, self.kind, self.tag = n, A, res, kind, tag
        self.offlink = offlink if has_offlink(A, res) else None
        # the default constructor derives the links from `resistances != 0`: only legal when
        # the two patterns coincide
        self.adj_from_res = adj_from_res and not self.offlink
        self.dtype = dtype
        self.opts = opts or {}          # non-default constructor arguments

    @property
    def lowprec(self):
        """float32 caller array: `1./resistances[i, j]` is then a float32 division, so the
        admittances (and everything derived) carry float32 relative accuracy"""
        return self.dtype == "float32"

    @property
    def tol(self):
        return 3e-6 if self.lowprec else TOL

    def array(self, res=None):
        a = to_np(self.res if res is None else res, self.kind, self.dtype)
        lay = self.opts.get("layout")
        if lay == "F":                  # Fortran (column-major) memory order
            a = np.asfortranarray(a)
        elif lay == "strided":          # non-contiguous view into a larger buffer
            big = np.full((2 * a.shape[0], 2 * a.shape[1]), 77, dtype=a.dtype)
            big[::2, ::2] = a
            a = big[::2, ::2]
        return a

    def build_from(self, RN, arr, force_adj=False):
        kw = {}
        if "silence_level" in self.opts:
            kw["silence_level"] = self.opts["silence_level"]
        if self.opts.get("directed"):
            kw["directed"] = True          # documented as ignored for resistor networks
        if self.opts.get("grid"):
            from pyunicorn.core import GeoGrid
            n = self.n
            kw["grid"] = quiet(GeoGrid, time_seq=np.arange(3),
                               lat_seq=np.linspace(-60, 60, n), lon_seq=np.linspace(-170, 170, n),
                               silence_level=2)
        if self.opts.get("edge_list"):
            # ignored by the class (adjacency comes from `adjacency` / the resistances)
            kw["edge_list"] = [(i, j) for i in range(self.n) for j in range(i) if self.A[i][j]]
        if not self.adj_from_res or force_adj:
            kw["adjacency"] = np.array(self.A, dtype=self.opts.get("adj_dtype", np.int8))
        return quiet(RN, arr, **kw)

    def build(self, RN, res=None):
        return self.build_from(RN, self.array(res))

    def replay(self, **extra):
        d = {"n": self.n, "adjacency": self.A,
             "resistances": [[enc_fr(v) for v in r] for r in self.res],
             "resistances_dtype": str(self.array().dtype),
             "construct": "ResNetwork(res)" if self.adj_from_res
             else "ResNetwork(res, adjacency=A)",
             "resistances_nonzero_on_unlinked_pairs": self.offlink,
             "constructor_options": {k: (str(v) if k == "adj_dtype" else v)
                                     for k, v in self.opts.items()}}
        d.update(extra)
        return d

    def canon(self):
        return (self.n, enc_adj(self.A), enc_mat(self.res), self.dtype,
                tuple(sorted((k, str(v)) for k, v in self.opts.items())))


def gen_cases(ctx, quick):
    rng = ctx.rng
    out = []

    def add(n, A, tag, kinds=None):
        kind = rng.choice(kinds or ["unit", "int", "int", "dyadic", "dyadic", "wide", "pow2"])
        opts = {}
        if rng.random() < 0.35:
            if rng.random() < 0.5:
                opts["silence_level"] = rng.choice([0, 1, 3])
            if rng.random() < 0.3:
                opts["directed"] = True
            if rng.random() < 0.3:
                opts["grid"] = True
            if rng.random() < 0.2:
                opts["edge_list"] = True
            if rng.random() < 0.3:
                opts["adj_dtype"] = rng.choice([np.int64, np.uint8, bool, float])
        if rng.random() < 0.2:
            opts["layout"] = rng.choice(["F", "strided"])
        off = rng.choice(OFFLINK_MODES) if rng.random() < 0.3 else None
        c = Case(n, A, draw_res(n, A, rng, kind, off), kind, tag, adj_from_res=rng.random() < 0.3,
                 dtype=rng.choice(["auto", "auto", "float64", "float32"]), opts=opts, offlink=off)
        out.append(c)

    for n in (2, 3, 4):
        for A in all_connected(n):
            add(n, A, f"all-connected-n{n}")
    if not quick:
        for A in all_connected(5):
            for _ in range(3):
                add(5, A, "all-connected-n5")
    for n in range(2, 10):
        for kind in ("path", "cycle", "star", "complete", "ladder", "wheel", "barbell",
                     "bundle", "bundle+direct"):
            if kind in ("ladder", "barbell") and n < 4:
                continue
            if kind in ("bundle", "wheel") and n < 3:
                continue
            if quick and n > 7 and kind in ("complete", "wheel"):
                continue
            A = structured(n, kind)
            if is_connected(n, A):
                add(n, A, kind)
    for _ in range(110 if quick else 2500):
        n = rng.randrange(3, 8 if quick else 10)
        add(n, random_connected(n, rng, rng.choice([0.0, 0.15, 0.3, 0.6])), "random")
    return out


# --------------------------------------------------------------------------
# exact oracle (independent of the Lean model): grounded Laplacian in Fractions
# --------------------------------------------------------------------------

def fr_solve(M, B):
    """solve M X = B (square M, list of lists of Fraction) by Gauss–Jordan"""
    n = len(M)
    m = len(B[0])
    a = [list(M[i]) + list(B[i]) for i in range(n)]
    for k in range(n):
        p = next(i for i in range(k, n) if a[i][k] != 0)
        a[k], a[p] = a[p], a[k]
        piv = a[k][k]
        a[k] = [x / piv for x in a[k]]
        for i in range(n):
            if i != k and a[i][k] != 0:
                f = a[i][k]
                a[i] = [x - f * y for x, y in zip(a[i], a[k])]
    return [row[n:n + m] for row in a]


def oracle_adm(c, res=None):
    res = c.res if res is None else res
    n = c.n
    return [[(1 / res[i][j]) if c.A[i][j] else Fr(0) for j in range(n)] for i in range(n)]


def oracle_er(c, res=None):
    """all-pairs effective resistance: ground node 0, G = (L without row/col 0)^-1,
    R_eff(a,b) = G[a,a] + G[b,b] - 2 G[a,b] (entries with index 0 are 0)."""
    n = c.n
    adm = oracle_adm(c, res)
    if n == 1:
        return [[Fr(0)]]
    L = [[(sum(adm[i]) if i == j else Fr(0)) - adm[i][j] for j in range(1, n)]
         for i in range(1, n)]
    eye = [[Fr(int(i == j)) for j in range(n - 1)] for i in range(n - 1)]
    G = fr_solve(L, eye)

    def g(a, b):
        return Fr(0) if a == 0 or b == 0 else G[a - 1][b - 1]
    return [[g(a, a) + g(b, b) - g(a, b) - g(b, a) for b in range(n)] for a in range(n)]


def shortest_paths(c, res=None):
    res = c.res if res is None else res
    n = c.n
    D = [[(Fr(0) if i == j else (res[i][j] if c.A[i][j] else None)) for j in range(n)]
         for i in range(n)]
    for k in range(n):
        for i in range(n):
            for j in range(n):
                if D[i][k] is not None and D[k][j] is not None and \
                        (D[i][j] is None or D[i][k] + D[k][j] < D[i][j]):
                    D[i][j] = D[i][k] + D[k][j]
    return D


def direct_vcfb(n, adm, R, i, Is=1.0, It=1.0):
    """defining sum in float64 on the implementation's own admittance / R"""
    tot = 0.0
    for t in range(n):
        for s in range(t):
            if i in (s, t):
                continue
            tot += 0.5 * sum(adm[i][j] * abs(Is * (R[i][s] - R[j][s]) + It * (R[j][t] - R[i][t]))
                             for j in range(n))
    return 2.0 * tot / (n * (n - 1))


def direct_ecfb(n, adm, R, Is=1.0, It=1.0):
    E = np.zeros((n, n))
    for i in range(n):
        for j in range(n):
            E[i, j] = 2.0 * sum(adm[i][j] * abs(Is * (R[i][s] - R[j][s]) + It * (R[j][t] - R[i][t]))
                                for t in range(n) for s in range(t)) / (n * (n - 1))
    return E


# --------------------------------------------------------------------------
# observables of the implementation
# --------------------------------------------------------------------------

def observe(net, n, kernels=True):
    o = {}
    o["adm"] = quiet(net.get_admittance).tolist()
    o["lap"] = quiet(net.admittance_lapacian).tolist()
    o["R"] = quiet(net.get_R).tolist()
    o["er"] = [[quiet(net.effective_resistance, a, b) for b in range(n)] for a in range(n)]
    o["ad"] = quiet(net.admittive_degree).tolist()
    o["anad"] = quiet(net.average_neighbors_admittive_degree).tolist()
    o["lc"] = quiet(net.local_admittive_clustering).tolist()
    o["gc"] = float(quiet(net.global_admittive_clustering))
    o["ercc"] = [float(quiet(net.effective_resistance_closeness_centrality, a)) for a in range(n)]
    if kernels:
        o["vcfb"] = [float(quiet(net.vertex_current_flow_betweenness, i)) for i in range(n)]
        o["ecfb"] = quiet(net.edge_current_flow_betweenness).tolist()
    # fresh store: diameter first (store is None), then average
    o["diam"] = float(quiet(net.diameter_effective_resistance))
    o["avg"] = float(quiet(net.average_effective_resistance))
    return o


def f32_bound(adm, R):
    """bound on the effect of the float32 copies on one current-flow sum"""
    ma = max(abs(float(x)) for r in adm for x in r)
    mr = max(abs(float(x)) for r in R for x in r)
    n = len(adm)
    return 1e-4 + 8 * F32 * n * ma * mr


def diff_obs(o, m, n, tol=TOL):
    """names of the observables where implementation `o` and exact values `m` differ.
    `tol`: relative accuracy of the float64 pipeline (looser for float32 caller arrays).  The
    pinv pipeline (R, ER, average, diameter) is compared relative to max|R| (no absolute floor:
    networks at extreme scales are checked as tightly as networks at scale 1)."""
    bad = []
    kb = f32_bound(m["adm"], m["R"])

    def mat(name, tol, scale=1.0, floor=1.0):
        for a in range(n):
            for b in range(n):
                if not close(o[name][a][b], m[name][a][b], tol, scale, floor):
                    bad.append((name, (a, b), o[name][a][b], m[name][a][b]))
                    return

    def vec(name, tol, scale=1.0):
        for a in range(n):
            if not close(o[name][a], m[name][a], tol, scale, 0.0):
                bad.append((name, a, o[name][a], m[name][a]))
                return

    rs = max(abs(float(x)) for r in m["R"] for x in r)
    ma = max(abs(float(x)) for r in m["adm"] for x in r)
    atol = 1e-12 if tol == TOL else tol
    mat("adm", atol, ma, 0.0)
    mat("lap", atol, ma, 0.0)
    mat("R", tol, rs, 0.0)
    mat("er", tol, rs, 0.0)
    for name in ("ad", "anad", "lc", "ercc"):
        if name in m:
            vec(name, tol)
    if "gc" in m and not close(o["gc"], m["gc"], tol, 0.0, 0.0):
        bad.append(("gc", None, o["gc"], m["gc"]))
    for name in ("avg", "diam"):
        if name in m and not close(o[name], m[name], tol, rs, 0.0):
            bad.append((name, None, o[name], m[name]))
    if "vcfb" in o and "vcfb" in m:
        for a in range(n):
            if abs(o["vcfb"][a] - float(m["vcfb"][a])) > kb:
                bad.append(("vcfb", a, o["vcfb"][a], m["vcfb"][a]))
                break
        done = False
        for a in range(n):
            for b in range(n):
                if not done and abs(o["ecfb"][a][b] - float(m["ecfb"][a][b])) > kb:
                    bad.append(("ecfb", (a, b), o["ecfb"][a][b], m["ecfb"][a][b]))
                    done = True
    return bad


def parse_net(ans):
    if ans.startswith("undefined") or ans == "bad-request":
        return None
    d = dict(kv.split("=", 1) for kv in ans.split("|"))
    m = {"conn": d["conn"] == "1"}
    for k in ("adm", "lap", "R", "er", "erpot", "ecfb"):
        m[k] = p_mat(d[k])
    for k in ("ercc", "vcfb", "ad", "anad", "lc"):
        m[k] = p_vec(d[k])
    for k in ("avg", "diam", "gc"):
        m[k] = p_fr(d[k])
    return m


# --------------------------------------------------------------------------
# histories
# --------------------------------------------------------------------------

QUERY_NAMES = {
    "A": "average_effective_resistance", "D": "diameter_effective_resistance",
    "E": "effective_resistance", "C": "effective_resistance_closeness_centrality",
    "V": "vertex_current_flow_betweenness", "B": "edge_current_flow_betweenness",
    "G": "admittive_degree", "N": "average_neighbors_admittive_degree",
    "L": "local_admittive_clustering", "K": "global_admittive_clustering",
    "R": "get_R", "M": "get_admittance", "P": "admittance_lapacian", "S": "__str__",
    "UA": "update_admittance", "UR": "update_R"}

UPDATE_HOWS = ["float64", "float64", "float32", "int", "list", "held-inplace", "caller-inplace",
               "held-inplace", "caller-inplace"]


def gen_history(c, rng, length, echo=True):
    """list of ops: ('U', res, how) | (code,) | (code, i) | (code, i, j) with the codes of
    QUERY_NAMES.  `how` says which array object carries the new resistances (see Live.apply)."""
    ops = []
    cur = c.res
    n = c.n

    def off():
        # the new matrix is non-zero on unlinked pairs too (the links do not change)
        return rng.choice(OFFLINK_MODES) if rng.random() < 0.3 else None
    if echo and rng.random() < 0.5 and length >= 3:
        # "echo" history: queries, an update, the same queries again (anything a query stored
        # before the update is asked for after it), possibly twice
        qs = [op for op in gen_history(c, rng, max(1, (length - 1) // 2), echo=False)
              if op[0] not in ("U", "UA", "UR")] or [("D",)]
        ops = list(qs)
        for _ in range(rng.choice([1, 1, 2])):
            up = [op for op in gen_history(c, rng, 12, echo=False) if op[0] == "U"][:1] or \
                [("U", draw_res(n, c.A, rng, "dyadic", off()), "float64")]
            if up[0][2] in ("held-inplace", "caller-inplace") and rng.random() < 0.5:
                up = [("U", draw_res(n, c.A, rng, "dyadic", off()), up[0][2])]
            ops += up + qs
        return ops
    for _ in range(length):
        k = rng.random()
        if k < 0.27:
            r = rng.random()
            mx = max(v for row in cur for v in row)
            mn = min(v for row in cur for v in row if v != 0)
            if r < 0.3:
                f = rng.choice([Fr(2), Fr(1, 2), Fr(3), Fr(10), Fr(1, 4)])
                new = [[v * f for v in r_] for r_ in cur]
            elif r < 0.45:      # extreme but exact rescaling, kept inside 2^-50 .. 2^50
                f = Fr(2) ** rng.choice([-40, -20, -9, 12, 30, 40])
                if mx * f > 2 ** 50 or mn * f < Fr(1, 2 ** 50):
                    f = 1 / f
                if mx * f > 2 ** 50 or mn * f < Fr(1, 2 ** 50):
                    f = Fr(1)
                new = [[v * f for v in r_] for r_ in cur]
            elif r < 0.52:      # the same values again
                new = [list(r_) for r_ in cur]
            else:
                new = draw_res(n, c.A, rng, rng.choice(["unit", "int", "dyadic", "pow2"]), off())
            if mx * 10 > 2 ** 50 or mn < Fr(10, 2 ** 50):
                new = draw_res(n, c.A, rng, "dyadic", off())
            cur = new
            ops.append(("U", new, rng.choice(UPDATE_HOWS)))
        elif k < 0.37:
            ops.append(("A",))
        elif k < 0.52:
            ops.append(("D",))
        elif k < 0.60:
            ops.append(("E", rng.randrange(n), rng.randrange(n)))
        elif k < 0.65:
            ops.append(("C", rng.randrange(n)))
        elif k < 0.72:
            ops.append(("V", rng.randrange(n) if rng.random() < 0.95 else n + rng.randrange(2)))
        elif k < 0.77:
            ops.append(("B", rng.randrange(n), rng.randrange(n)))
        elif k < 0.86:
            ops.append((rng.choice("GNL"), rng.randrange(n)))
        elif k < 0.89:
            ops.append(("K",))
        elif k < 0.95:
            ops.append((rng.choice("RMP"), rng.randrange(n), rng.randrange(n)))
        elif k < 0.97:
            ops.append(("S",))
        else:
            ops.append((rng.choice(["UA", "UR"]),))
    return ops


def enc_op(op):
    if op[0] == "U":
        return "U=" + enc_mat(op[1])
    if len(op) == 1:
        return op[0]
    return op[0] + "=" + ",".join(str(x) for x in op[1:])


def show_op(op):
    if op[0] == "U":
        return ["update_resistances", [[enc_fr(v) for v in r] for r in op[1]], op[2]]
    return [QUERY_NAMES[op[0]]] + list(op[1:])


class Live:
    """a real ResNetwork driven through a history, together with what the *caller* holds: the
    array object it passed last (`arr`) and a private copy of the current values in the dtype
    they were passed in (`cur`), from which the fresh twin is built."""

    def __init__(self, c, RN):
        self.c, self.RN, self.n = c, RN, c.n
        self.arr = c.array()
        self.cur = self.arr.copy()
        self.net = c.build_from(RN, self.arr)
        self.kb = None

    @property
    def lowprec(self):
        return self.cur.dtype == np.float32

    @property
    def mag(self):
        """largest current resistance *of a link* (entries on unlinked pairs carry no current
        and must not loosen the tolerances)"""
        a = np.abs(self.cur.astype(float))
        m = np.array(self.c.A) != 0
        return float(a[m].max()) if m.shape == a.shape and m.any() else float(a.max())

    def twin(self):
        """a freshly constructed network with the current resistances and the same links
        (`adjacency=` is passed explicitly as soon as the matrix is non-zero off the links)"""
        off = self.cur.shape == (self.n, self.n) and \
            bool(np.any((np.asarray(self.cur) != 0) & (np.array(self.c.A) == 0)))
        return self.c.build_from(self.RN, self.cur.copy(), force_adj=off)

    @staticmethod
    def _fits(dtype, new):
        """can an array of `dtype` hold the values `new` exactly"""
        if np.issubdtype(dtype, np.integer):
            return all(v.denominator == 1 and abs(v) < 2 ** 62 for r in new for v in r)
        if dtype == np.float32:
            return all(Fr(float(np.float32(float(v)))) == v for r in new for v in r)
        return dtype == np.float64

    def update(self, new, how):
        net = self.net
        f64 = np.array([[float(v) for v in r] for r in new], dtype=float)
        target = None
        if how == "held-inplace":          # edit the array the network holds, hand it back
            target = net.resistances
        elif how == "caller-inplace":      # edit the array passed last time, pass it again
            target = self.arr
        if target is not None and isinstance(target, np.ndarray) and target.shape == f64.shape \
                and self._fits(target.dtype, new):
            target[...] = f64
            arg = target
        elif how == "float32" and self._fits(np.dtype(np.float32), new):
            arg = f64.astype(np.float32)
        elif how == "int" and self._fits(np.dtype(np.int64), new):
            arg = np.array([[int(v) for v in r] for r in new], dtype=np.int64)
        elif how == "list":
            arg = f64.tolist()
        else:
            arg = f64
        quiet(net.update_resistances, arg)
        if isinstance(arg, np.ndarray):
            self.arr = arg
            self.cur = arg.copy()
        else:
            self.cur = f64.copy()

    def apply(self, op):
        """perform one call on `self.net`; the returned number (or None)"""
        return apply_op(self.net, op, self)


def apply_op(net, op, live=None):
    code = op[0]
    if code == "U":
        live.update(op[1], op[2])
        return None
    if code in ("UA", "UR"):
        quiet(net.update_admittance if code == "UA" else net.update_R)
        return None
    if code == "A":
        return float(quiet(net.average_effective_resistance))
    if code == "D":
        return float(quiet(net.diameter_effective_resistance))
    if code == "E":
        return float(quiet(net.effective_resistance, op[1], op[2]))
    if code == "C":
        return float(quiet(net.effective_resistance_closeness_centrality, op[1]))
    if code == "V":
        try:
            return float(quiet(net.vertex_current_flow_betweenness, op[1]))
        except IndexError:
            return None
    if code == "B":
        return float(quiet(net.edge_current_flow_betweenness)[op[1], op[2]])
    if code == "G":
        return float(quiet(net.admittive_degree)[op[1]])
    if code == "N":
        return float(quiet(net.average_neighbors_admittive_degree)[op[1]])
    if code == "L":
        return float(quiet(net.local_admittive_clustering)[op[1]])
    if code == "K":
        return float(quiet(net.global_admittive_clustering))
    if code == "R":
        return float(quiet(net.get_R)[op[1], op[2]])
    if code == "M":
        return float(quiet(net.get_admittance)[op[1], op[2]])
    if code == "P":
        return float(quiet(net.admittance_lapacian)[op[1], op[2]])
    if code == "S":
        return float(str(net).rsplit("Average resistance: ", 1)[1])
    raise ValueError(op)


def op_close(op, x, q, n, mag, lowprec, kb):
    """is the implementation's value `x` the exact / fresh value `q`, within the accuracy the
    float pipeline can deliver at the current scale (`mag` = largest current resistance)"""
    if (x is None) != (q is None):
        return False
    if x is None:
        return True
    q = float(q)
    if math.isnan(x) or math.isinf(x):
        return False
    tol = 3e-6 if lowprec else TOL
    code = op[0]
    if code in ("A", "D", "E", "R"):          # pinv pipeline: relative to max|R| <~ n * mag
        return abs(x - q) <= tol * n * mag
    if code == "C":                            # (N-1) / sum of ER
        # q == 0 (a model whose sum of ER degenerates: 1/0 = 0 in Lean) is a mismatch, not an error
        return x > 0 and q != 0 and abs((n - 1) / x - (n - 1) / q) <= tol * n * n * mag
    if code in ("V", "B"):                     # float32 copies inside the C sums
        return abs(x - q) <= kb
    if code in ("M", "P"):
        return abs(x - q) <= (tol if lowprec else 1e-12) * max(abs(q), 1.0 / mag)
    if code == "S":
        return abs(x - q) <= (1e-5 if lowprec else 1e-12) * abs(q)
    return abs(x - q) <= tol * abs(q)          # sums / ratios of positive terms


def play(c, RN, ops):
    """run a history on a new object; for every step (value, fresh-twin value, mag, lowprec,
    bound for the float32 betweenness sums at that step)"""
    live = Live(c, RN)
    rows = []
    for op in ops:
        x = live.apply(op)
        if op[0] in ("U", "UA", "UR"):
            rows.append((x, None, live.mag, live.lowprec, None))
        else:
            kb = None
            if op[0] in ("V", "B"):
                kb = f32_bound(quiet(live.net.get_admittance).tolist(),
                               quiet(live.net.get_R).tolist())
            rows.append((x, apply_op(live.twin(), op), live.mag, live.lowprec, kb))
    return live, rows


# --------------------------------------------------------------------------
# the check
# --------------------------------------------------------------------------

def run(ctx):
    from pyunicorn.core import ResNetwork as RN
    from pyunicorn.core._ext import numerics as K
    rng = ctx.rng
    quick = ctx.tier == "quick"
    ctx.rule = ("connected undirected graphs: all on 2-4 nodes"
                + ("" if quick else ", all on 5 nodes x 3 resistance draws")
                + ", path/cycle/star/complete/ladder/wheel/barbell/parallel-bundle on 2-9 nodes, "
                "random spanning tree + extra links on 3-"
                + ("7" if quick else "9") + " nodes; symmetric positive resistances: unit, "
                "integers 1..10, multiples of 1/8, powers of two x {1,3,5}; int64 and float64 "
                "arrays (C / Fortran order / strided views); adjacency given or derived from the "
                "resistances; complex128/complex64 impedance networks; histories with a "
                "reassigned adjacency; weighted stars with a hub of degree 128+; distinct = distinct "
                "(adjacency, resistances); non-trivial = at least 3 nodes and not all "
                "resistances equal")
    ctx.trusted = common.DEFAULT_TRUSTED + [
        "numpy.linalg.pinv is modelled as *a* generalised inverse (L R L = L, and L R = I - J/n on "
        "connected networks): both identities are checked numerically on get_R() in every case, "
        "and the model's own pseudo-inverse is returned only with an exact Moore-Penrose "
        "certificate",
        "float32 rounding of the copies handed to the C sums is bounded, not modelled "
        "(method level); at the kernel boundary the model receives the float32 values exactly",
    ]
    ctx.assumptions = [
        "resistor networks are undirected with symmetric positive resistances (the class "
        "ignores its `directed` argument); complex impedances have positive real part",
    ]
    ctx.proofs()

    cases = gen_cases(ctx, quick)
    # ------------------------------------------------------------------
    # A. implementation vs Lean model vs exact oracle, all observables
    # ------------------------------------------------------------------
    # networks constructed without `adjacency=` go through the model of that constructor branch
    # (`defaultAdj`: links = non-zero pattern of the resistances)
    reqs = [f"netd {c.n} {enc_mat(c.res)}" if c.adj_from_res
            else f"net {c.n} {enc_adj(c.A)} {enc_mat(c.res)}" for c in cases]
    model = pdriver(ctx.pid, reqs)
    bad = []
    nobs = 0
    selfbad = []
    kept = []
    for c, ans in zip(cases, model):
        ctx.count("graph:" + c.tag)
        ctx.count("res:" + c.kind)
        ctx.count(f"n={c.n}")
        ctx.count("construct:" + ("from-resistances" if c.adj_from_res else "adjacency-given"))
        ctx.count("offlink-resistances:" + (c.offlink or "none"))
        ctx.count("layout:" + c.opts.get("layout", "C"))
        nontriv = c.n >= 3 and len({v for r in c.res for v in r if v != 0}) > 1
        ctx.case(c.canon(), nontriv, c.replay() if c.n <= 5 else None)
        m = parse_net(ans)
        if m is None or not m["conn"]:
            selfbad.append((c, "model refuses a connected network: " + ans[:80]))
            continue
        # model self-test: pinv route == potential route (exact)
        if m["er"] != m["erpot"]:
            selfbad.append((c, "model: pinv route and potential route differ"))
        try:
            net = c.build(RN)
            o = observe(net, c.n)
        except Exception as ex:  # noqa
            ctx.fail({"kind": "exception", "where": "observe", "error": type(ex).__name__},
                     f"ResNetwork raised {type(ex).__name__}: {ex}", c.replay())
            continue
        kept.append((c, m, o, net))
        d = diff_obs(o, m, c.n, c.tol)
        nobs += 13
        if d:
            bad.append((c, d))
        oracle_case(ctx, c, o, RN, rng)
    ctx.obligation("model self-test: certified pseudo-inverse route == certified potential "
                   f"route, every connected network accepted ({len(cases)} networks)",
                   "correspondence", not selfbad,
                   "\n".join(f"{w}: A={enc_adj(c.A)} res={enc_mat(c.res)}" for c, w in selfbad[:5]))
    ctx.obligation(f"correspondence: Lean Circuit model == ResNetwork observables "
                   f"({nobs} results on {len(cases)} networks)", "correspondence", not bad,
                   "\n".join(f"{d[0][0]}{d[0][1]} impl={d[0][2]} model={d[0][3]} :: "
                             f"A={enc_adj(c.A)} res={enc_mat(c.res)}" for c, d in bad[:6]))
    ctx.extra["observables_compared"] = nobs

    # ------------------------------------------------------------------
    # B. kernel boundary: exact float32 inputs
    # ------------------------------------------------------------------
    kreqs, kimpl, kmeta = [], [], []
    nprng = np.random.RandomState(rng.randrange(2 ** 31))
    for c, m, o, net in kept:
        if c.n > 7 or (quick and rng.random() < 0.5):
            continue
        a32 = np.ascontiguousarray(np.array(o["adm"], dtype=np.float32))
        r32 = np.ascontiguousarray(np.array(o["R"], dtype=np.float32))
        Is, It = rng.choice([(1, 1), (1, 1), (2, 1), (1, 0), (0.5, 3)])
        kernel_case(K, c.n, Is, It, a32, r32, kreqs, kimpl, kmeta, "circuit")
        ctx.count("kernel:circuit-float32")
    for _ in range(60 if quick else 600):
        n = rng.randrange(2, 7)
        a32 = (nprng.randint(0, 9, (n, n)) / 4).astype(np.float32)
        r32 = (nprng.randint(-16, 17, (n, n)) / 4).astype(np.float32)
        Is, It = rng.choice([(1, 1), (2, 1), (1, 0), (0.5, 3), (0, 1)])
        kernel_case(K, n, Is, It, a32, r32, kreqs, kimpl, kmeta, "random-asymmetric")
        ctx.count("kernel:random-asymmetric-dyadic")
    kans = pdriver(ctx.pid, kreqs)
    kbad = []
    for req, got, ans, meta in zip(kreqs, kimpl, kans, kmeta):
        exact = p_vec(ans) if meta[0] == "vcfb" else [x for r in p_mat(ans) for x in r]
        # the C code subtracts the float32 entries of R in float32 (two rounded subtractions per
        # term); exact on the dyadic stream, bounded on the circuit stream.  ECFB is stored as
        # float32.
        A32, R32 = meta[2], meta[3]
        sub = 0.0 if meta[6] != "circuit" else \
            4 * F32 * float(np.abs(A32).max()) * meta[1] * (abs(meta[4]) + abs(meta[5])) \
            * 2 * float(np.abs(R32).max())
        tol = 1e-12 if meta[0] == "vcfb" else 4 * F32
        if len(exact) != len(got) or any(
                abs(g - float(e)) > tol * max(1.0, abs(float(e))) + sub
                for g, e in zip(got, exact)):
            kbad.append((req, got, ans))
            n = meta[1]
            if meta[0] == "vcfb":
                ref = [direct_vcfb(n, A32, R32, i, meta[4], meta[5]) for i in range(n)]
            else:
                ref = direct_ecfb(n, A32, R32, meta[4], meta[5]).ravel().tolist()
            if any(abs(g - e) > 1e-5 * max(1.0, abs(e)) for g, e in zip(got, ref)):
                ctx.fail({"kind": "kernel", "kernel": meta[0]},
                         f"_{'vertex' if meta[0] == 'vcfb' else 'edge'}_current_flow_betweenness "
                         "differs from the direct evaluation of its defining sum",
                         {"N": n, "Is": meta[4], "It": meta[5], "admittance": A32.tolist(),
                          "R": R32.tolist(), "observed": got, "expected": ref})
    ctx.obligation(f"correspondence: Lean vcfbKernel/ecfbKernel == compiled kernels on exact "
                   f"float32 inputs ({len(kreqs)} kernel calls)", "correspondence", not kbad,
                   "\n".join(f"{r[:200]} :: impl={g} model={a[:200]}" for r, g, a in kbad[:4]))
    ctx.extra["kernel_calls_compared"] = len(kreqs)

    # ------------------------------------------------------------------
    # C. histories of update_resistances / queries
    # ------------------------------------------------------------------
    hcases = []
    pool = [c for c in cases if 3 <= c.n <= 7]
    for _ in range(90 if quick else 900):
        c = rng.choice(pool)
        hcases.append((c, gen_history(c, rng, rng.randrange(2, 9 if quick else 14))))
    # every second history is answered by the machine whose `__init__` / update methods / matrix
    # getters are the bodies regenerated from the current source (requests `histp` / `histpd`,
    # `pyRun`; proved equal to `run`: `pyRun_matches_model`) — the regenerated code itself is
    # compared with the real object, call by call
    P = "p" if bodies_translated() else ""   # stubs in the generated file: the tie is reported
    hreqs = [" ".join(([("hist" + P + "d" if k % 2 else "histd"), str(c.n), enc_mat(c.res)] if c.adj_from_res
                       else [("hist" + P if k % 2 else "hist"), str(c.n), enc_adj(c.A), enc_mat(c.res)])
                      + [enc_op(op) for op in ops])
             for k, (c, ops) in enumerate(hcases)]
    for r in hreqs:
        ctx.count("history-machine:" + r.split(" ", 1)[0])
    hans = pdriver(ctx.pid, hreqs)
    hbad = []
    nsteps = 0
    for (c, ops), ans in zip(hcases, hans):
        ctx.count("history:len=%d" % len(ops))
        ctx.count("history:updates=%d" % sum(op[0] == "U" for op in ops))
        for op in ops:
            ctx.count("history-op:" + (("update:" + op[2]) if op[0] == "U" else QUERY_NAMES[op[0]]))
            if op[0] == "U" and has_offlink(c.A, op[1]):
                ctx.count("history-op:update-with-nonzero-resistances-on-unlinked-pairs")
        ctx.case(("hist", c.canon(), [enc_op(op) + (op[2] if op[0] == "U" else "") for op in ops]),
                 True)
        exact = [p_fr(t) for t in ans.split(",")]
        try:
            live, rows = play(c, RN, ops)
        except Exception as ex:  # noqa
            ctx.fail({"kind": "exception", "where": "history", "error": type(ex).__name__},
                     f"history raised {type(ex).__name__}: {ex}",
                     c.replay(history=[show_op(op) for op in ops]))
            continue
        nsteps += len(ops)
        for k, (op, (x, fv, mag, low, kb), q) in enumerate(zip(ops, rows, exact)):
            if not op_close(op, x, q, c.n, mag, low, kb):
                hbad.append((c, ops, k, x, q))
                break
        # oracle: every returned value equals the value of a fresh object
        for k, (op, (x, fv, mag, low, kb)) in enumerate(zip(ops, rows)):
            if op[0] in ("U", "UA", "UR"):
                continue
            if not op_close(op, x, fv, c.n, mag, low, kb):
                hist = shrink_history(c, RN, ops[:k + 1])
                stale = any(o[0] == "U" for o in hist[:-1])
                hows = sorted({o[2] for o in hist[:-1] if o[0] == "U"})
                ctx.fail({"kind": "history", "query": show_op(op)[0],
                          "after": "update_resistances" if stale else "queries"},
                         f"{show_op(op)[0]} after {'update_resistances' if stale else 'queries'} "
                         f"returns {x}, a fresh ResNetwork with the current resistances "
                         f"returns {fv}" + (f" (array passed: {', '.join(hows)})" if hows else ""),
                         c.replay(history=[show_op(o) for o in hist], observed=x, expected=fv))
                break
    ctx.obligation(f"correspondence: Lean state machine (update_resistances / update_admittance / "
                   f"update_R and 14 queries) == ResNetwork on {len(hcases)} histories, "
                   f"{nsteps} calls", "correspondence", not hbad,
                   "\n".join(f"op#{k} {show_op(ops[k])[0]} impl={x} model={q} :: A={enc_adj(c.A)} "
                             f"dtype={c.dtype} history={[enc_op(o)[:40] for o in ops]}"
                             for c, ops, k, x, q in hbad[:5]))
    ctx.extra["history_calls_compared"] = nsteps
    reassign_stream(ctx, RN, rng, pool, 30 if quick else 300)
    hub_stream(ctx, RN, rng, quick)

    # ------------------------------------------------------------------
    # D. complex impedances (implementation-only oracle)
    # ------------------------------------------------------------------
    complex_stream(ctx, RN, rng, 40 if quick else 400)
    wrapper_stream(ctx, RN, rng)
    disconnected_stream(ctx, rng, 40 if quick else 400)
    stress_stream(ctx, RN, rng, 12 if quick else 120)


def bodies_translated():
    """did translate/gen_C18.py translate every method body (no stub in Generated/StructC18.lean)?
    If not, the broken tie is reported by the proof obligations and the histories are answered by
    the hand-written machine only (the stubs would answer nonsense)."""
    import os
    path = os.path.join(os.path.dirname(os.path.abspath(__file__)), "..", "lean", "Pyunicorn",
                        "Generated", "StructC18.lean")
    try:
        return "def pyBodiesTranslated : Bool := true" in open(path).read()
    except OSError:
        return False


def reassign_stream(ctx, RN, rng, pool, count):
    """histories `queries; net.adjacency = A2 (any size); update_resistances(R2); queries`.
    Lean: `reassign_then_update_fresh` — after the two calls the object answers as
    `ResNetwork(R2, adjacency=A2)`; so the second phase is compared with the model's history on
    (A2, R2) and with a fresh twin.  (Between the two calls the object is inconsistent and nothing
    is asked.)"""
    todo = []
    for _ in range(count):
        c1, c2 = rng.choice(pool), rng.choice(pool)
        ops1 = [op for op in gen_history(c1, rng, rng.randrange(1, 7), echo=False) if op[0] != "U"]
        if rng.random() < 0.5:          # every kind of query once: whatever is stored is filled
            ops1 += [("A",), ("D",), ("V", 0), ("B", 0, 1), ("G", 0), ("N", 0), ("L", 0), ("K",)]
        ops2 = gen_history(c2, rng, rng.randrange(3, 9), echo=False)
        if c2.n > c1.n:                 # nodes that exist only after the enlargement
            ops2 += [("V", c2.n - 1), ("E", 0, c2.n - 1), ("G", c2.n - 1), ("L", c2.n - 1),
                     ("B", c2.n - 1, c2.n - 2)]
        todo.append((c1, ops1, c2, ops2))
    P = "p" if bodies_translated() else ""
    reqs = [" ".join([("hist" + P if k % 2 else "hist"), str(c2.n), enc_adj(c2.A), enc_mat(c2.res)]
                     + [enc_op(op) for op in ops2])
            for k, (c1, ops1, c2, ops2) in enumerate(todo)]
    answers = pdriver(ctx.pid, reqs)
    rbad = []
    nsteps = 0
    for (c1, ops1, c2, ops2), ans in zip(todo, answers):
        size = "same-size" if c1.n == c2.n else ("enlarged" if c2.n > c1.n else "shrunk")
        ctx.count("reassign:" + size)
        ctx.case(("reassign", c1.canon(), c2.canon(), [enc_op(o) for o in ops1 + ops2]), True)
        exact = [p_fr(t) for t in ans.split(",")]
        rep = c1.replay(history=[show_op(o) for o in ops1]
                        + [["adjacency=", c2.A],
                           ["update_resistances", [[enc_fr(v) for v in r] for r in c2.res],
                            str(c2.array().dtype)]]
                        + [show_op(o) for o in ops2])
        try:
            live = Live(c1, RN)
            for op in ops1:
                live.apply(op)
            live.net.adjacency = np.array(c2.A, dtype=np.int8)
            arr = c2.array()
            quiet(live.net.update_resistances, arr)
            live.c, live.n, live.arr, live.cur = c2, c2.n, arr, arr.copy()
            for k, (op, q) in enumerate(zip(ops2, exact)):
                x = live.apply(op)
                nsteps += 1
                if op[0] in ("U", "UA", "UR"):
                    continue
                kb = None
                if op[0] in ("V", "B"):
                    kb = f32_bound(quiet(live.net.get_admittance).tolist(),
                                   quiet(live.net.get_R).tolist())
                if not op_close(op, x, q, c2.n, live.mag, live.lowprec, kb):
                    rbad.append((enc_adj(c1.A), enc_adj(c2.A), show_op(op), x, q))
                fv = apply_op(live.twin(), op)
                if not op_close(op, x, fv, c2.n, live.mag, live.lowprec, kb):
                    ctx.fail({"kind": "history", "query": show_op(op)[0],
                              "after": "adjacency-reassigned+update_resistances"},
                             f"{show_op(op)[0]} after `adjacency = A2` ({size}) and "
                             f"update_resistances(R2) returns {x}, a fresh ResNetwork(R2, "
                             f"adjacency=A2) returns {fv}", dict(rep, observed=x, expected=fv,
                                                                failing_call=show_op(op)))
                    break
        except Exception as ex:  # noqa
            ctx.fail({"kind": "exception", "where": "reassign-history", "error": type(ex).__name__},
                     f"history with a reassigned adjacency ({size}) raised "
                     f"{type(ex).__name__}: {ex}", rep)
    ctx.obligation(f"correspondence: Lean state machine after `reassign; update` "
                   f"(reassign_then_update_fresh) == ResNetwork after `adjacency = A2; "
                   f"update_resistances(R2)` on {len(todo)} histories, {nsteps} calls",
                   "correspondence", not rbad, "\n".join(map(str, rbad[:5])))
    ctx.extra["reassign_calls_compared"] = nsteps


def hub_stream(ctx, RN, rng, quick):
    """oracle only: hubs whose degree leaves int8 (127) — thorough: int16 products (181^2) —
    against numpy evaluations of the definitions (float64 solve of the grounded Laplacian)."""
    sizes = [rng.choice([129, 131, 140])] if quick else [130, 150, 200]
    for n in sizes:
        A = structured(n, "star")
        for _ in range(4):              # a few links among the leaves: triangles at the hub
            i, j = rng.sample(range(1, n), 2)
            A[i][j] = A[j][i] = 1
        res = np.zeros((n, n))
        for i in range(n):
            for j in range(i):
                if A[i][j]:
                    res[i, j] = res[j, i] = rng.choice([0.5, 1.0, 2.0, 4.0])
        dt = rng.choice(["float64", "float32", "int8-adjacency-only"])
        offl = dt != "float64" and rng.random() < 0.5
        if offl:        # dense resistance matrix, the links are those of the adjacency only
            for i in range(n):
                for j in range(i):
                    if not A[i][j]:
                        res[i, j] = res[j, i] = rng.choice([0.25, 0.5, 1.0, 2.0])
        ctx.count("hub:offlink-dense" if offl else "hub:offlink-none")
        arr = res.astype(np.float32) if dt == "float32" else res.copy()
        ctx.count(f"hub:n={n}")
        ctx.count("hub:" + dt)
        ctx.case(("hub", n, res.tobytes().hex()[:64], dt), True, {"hub": "star + 4 links", "n": n})
        rep = {"n": n, "graph": "star with hub 0 plus links " + str(
            [(i, j) for i in range(1, n) for j in range(1, i) if A[i][j]]), "dtype": dt,
            "links_with_resistance": [[i, j, float(res[i, j])] for i in range(n) for j in range(i)
                                      if A[i][j]],
            "construct": "ResNetwork(res)" if dt == "float64"
            else "ResNetwork(res, adjacency=int8 matrix)",
            "resistances_nonzero_on_unlinked_pairs": "all pairs, values in {1/4, 1/2, 1, 2}"
            if offl else None}
        tol = 3e-5 if dt == "float32" else 1e-8
        try:
            net = quiet(RN, arr, adjacency=np.array(A, dtype=np.int8)) \
                if dt != "float64" else quiet(RN, arr)
            Y = np.where(np.array(A) != 0, 1.0 / np.where(res == 0, 1, res), 0.0)
            ad = quiet(net.admittive_degree)
            lc = quiet(net.local_admittive_clustering)
            deg = np.array(A).sum(axis=1)
            tri = np.einsum("ij,ik,jk->i", Y, Y, Y)
            lce = np.where(deg == 1, 0.0, tri / (Y.sum(axis=1) * np.where(deg == 1, 2, deg - 1)))
            L = np.diag(Y.sum(axis=0)) - Y
            G = np.zeros((n, n))
            G[1:, 1:] = np.linalg.inv(L[1:, 1:])
            pairs = [(0, 1), (1, 2), (n - 1, n - 2), (0, n - 1)] + \
                [tuple(rng.sample(range(n), 2)) for _ in range(6)]
            er = [float(quiet(net.effective_resistance, a, b)) for a, b in pairs]
            ere = [float(G[a, a] + G[b, b] - G[a, b] - G[b, a]) for a, b in pairs]
            Rimpl = quiet(net.get_R)
            Ad = Y
            # the pseudo-inverse from the independent solve: centred grounded inverse
            C = np.eye(n) - 1.0 / n
            Rm = C @ G @ C
            nodes = [0, 1, n - 1]
            vc = [float(quiet(net.vertex_current_flow_betweenness, i)) for i in nodes]
            vce = []
            for i in nodes:
                tot = 0.0
                for t in range(n):
                    if t == i:
                        continue
                    ss = [s_ for s_ in range(t) if s_ != i]
                    # |R[i,s]-R[j,s] + R[j,t]-R[i,t]| for all s (rows) and j (columns)
                    M = np.abs(Rm[i, ss][:, None] - Rm[:, ss].T + Rm[:, t][None, :] - Rm[i, t])
                    tot += 0.5 * (M @ Ad[i]).sum()
                vce.append(float(2.0 * tot / (n * (n - 1))))
            kb = f32_bound(Ad.tolist(), Rm.tolist())
        except Exception as ex:  # noqa
            ctx.fail({"kind": "hub", "law": "exception"},
                     f"ResNetwork on a hub network raised {type(ex).__name__}: {ex}", rep)
            continue
        if np.abs(ad - Y.sum(axis=0)).max() > tol * np.abs(Y).max() * n:
            ctx.fail({"kind": "hub", "law": "admittive_degree=sum"},
                     f"admittive_degree() of a hub of degree {n - 1} differs from its defining sum",
                     rep)
        if np.abs(lc - lce).max() > tol * max(np.abs(lce).max(), 1e-12):
            k = int(np.abs(lc - lce).argmax())
            ctx.fail({"kind": "hub", "law": "local_admittive_clustering=sum"},
                     f"local_admittive_clustering()[{k}] = {lc[k]} on a network with a hub of degree "
                     f"{n - 1}, defining sum {lce[k]}", dict(rep, node=k))
        if any(abs(x - e) > max(tol, 1e-7) * 8 for x, e in zip(er, ere)):
            ctx.fail({"kind": "hub", "law": "effective_resistance=solve"},
                     f"effective resistances {er} on a hub network, direct solve {ere}",
                     dict(rep, pairs=pairs))
        if np.abs(Rimpl - Rm).max() > max(tol, 1e-7) * np.abs(Rm).max():
            ctx.fail({"kind": "hub", "law": "get_R=pseudo-inverse"},
                     f"get_R() differs from the pseudo-inverse of the admittance Laplacian by "
                     f"{np.abs(Rimpl - Rm).max()} (largest entry of the pseudo-inverse: "
                     f"{np.abs(Rm).max()}, of get_R(): {np.abs(Rimpl).max()})", rep)
        if any(abs(x - e) > kb for x, e in zip(vc, vce)):
            ctx.fail({"kind": "hub", "law": "vcfb=sum"},
                     f"vertex_current_flow_betweenness of nodes {nodes} = {vc}, defining sums on "
                     f"the independently solved pseudo-inverse {vce}", rep)


def wrapper_stream(ctx, RN, rng):
    """the public factories: SmallTestNetwork() against model and oracle like any other network,
    SmallComplexNetwork() through the complex oracle"""
    try:
        net = quiet(RN.SmallTestNetwork)
        quiet(RN.SmallComplexNetwork)
    except Exception as ex:  # noqa
        ctx.fail({"kind": "wrapper", "factory": "SmallTestNetwork/SmallComplexNetwork",
                  "error": type(ex).__name__},
                 f"the public factories raise {type(ex).__name__}: {ex}",
                 {"call": "ResNetwork.SmallTestNetwork(); ResNetwork.SmallComplexNetwork()"})
        return
    A = [[int(v) for v in r] for r in np.asarray(net.adjacency).tolist()]
    res = [[Fr(int(v)) for v in r] for r in np.asarray(net.resistances).tolist()]
    n = len(A)
    c = Case(n, A, res, "int", "SmallTestNetwork()")
    ctx.count("wrapper:SmallTestNetwork")
    ctx.case(("wrapper", "SmallTestNetwork"), True, {"factory": "ResNetwork.SmallTestNetwork()"})
    m = parse_net(common.driver(ctx.pid, [f"net {n} {enc_adj(A)} {enc_mat(res)}"])[0])
    o = observe(net, n)
    d = diff_obs(o, m, n) if m else [("model refuses", None, None, None)]
    ctx.obligation("correspondence: Lean Circuit model == ResNetwork.SmallTestNetwork() "
                   "(13 observables)", "correspondence", not d, str(d[:3]))
    if d:
        # settled on the real code: the factory against a network constructed from its own data
        twin = c.build(RN)
        o2 = observe(twin, n)
        if any(abs(o[k] - o2[k]) > TOL * max(1.0, abs(o2[k])) for k in ("avg", "diam", "gc")):
            ctx.fail({"kind": "wrapper", "factory": "SmallTestNetwork"},
                     "SmallTestNetwork() differs from ResNetwork(resistances, adjacency) built "
                     "from its own data", c.replay())
    oracle_case(ctx, c, o, RN, rng)
    # histories start from the factory object too
    ops = gen_history(c, rng, 8)
    live = Live(c, RN)
    live.net = quiet(RN.SmallTestNetwork)
    live.arr = live.net.resistances
    live.cur = np.array(live.arr).copy()
    for op in ops:
        try:
            x = live.apply(op)
        except Exception as ex:  # noqa
            ctx.fail({"kind": "exception", "where": "history", "error": type(ex).__name__},
                     f"history on SmallTestNetwork() raised {type(ex).__name__}: {ex}",
                     c.replay(history=[show_op(o_) for o_ in ops]))
            break
        if op[0] in ("U", "UA", "UR"):
            continue
        kb = f32_bound(quiet(live.net.get_admittance).tolist(), quiet(live.net.get_R).tolist())
        fv = apply_op(live.twin(), op)
        if not op_close(op, x, fv, n, live.mag, live.lowprec, kb):
            ctx.fail({"kind": "history", "query": show_op(op)[0], "after": "SmallTestNetwork()"},
                     f"{show_op(op)[0]} in a history on SmallTestNetwork() returns {x}, a fresh "
                     f"ResNetwork with the current resistances returns {fv}",
                     c.replay(history=[show_op(o_) for o_ in ops], observed=x, expected=fv))
            break
    netc = quiet(RN.SmallComplexNetwork)
    Z = np.array(netc.resistances, dtype=complex)
    Ac = [[int(v) for v in r] for r in np.asarray(netc.adjacency).tolist()]
    ctx.count("wrapper:SmallComplexNetwork")
    if not netc.flagComplex or Z.shape != (5, 5):
        ctx.fail({"kind": "wrapper", "factory": "SmallComplexNetwork"},
                 "SmallComplexNetwork() is not a complex 5-node network", {})
    wbad = []
    complex_check(ctx, RN, rng, Ac, Z, "SmallComplexNetwork()",
                  make=lambda: quiet(RN.SmallComplexNetwork),
                  model=common.driver(ctx.pid, [cnet_request(Ac, Z)])[0], cbad=wbad)
    ctx.obligation("correspondence: Lean field model == ResNetwork.SmallComplexNetwork() "
                   "(9 observables)", "correspondence", not wbad, str(wbad[:2]))


def disconnected_stream(ctx, rng, count):
    """the model's connectivity test (hypothesis of the theorems, `bfs_connected_sound`) against
    the harness's own search, on disconnected and connected graphs incl. isolated nodes"""
    reqs, want = [], []
    for _ in range(count):
        n = rng.randrange(2, 8)
        k = rng.randrange(1, n)                       # split point: two node groups
        perm = list(range(n))
        rng.shuffle(perm)
        e = []
        for grp in (perm[:k], perm[k:]):
            for a in range(1, len(grp)):
                if rng.random() < 0.9:
                    e.append((grp[a], grp[rng.randrange(a)]))
            for a, b in itertools.combinations(grp, 2):
                if rng.random() < 0.2:
                    e.append((a, b))
        if rng.random() < 0.3:
            e.append((perm[0], perm[-1]))             # a bridge: possibly connected again
        A = graph_from_edges(n, e)
        res = draw_res(n, A, rng, "int")
        reqs.append(f"net {n} {enc_adj(A)} {enc_mat(res)}")
        want.append(is_connected(n, A))
        ctx.count("connectivity:" + ("connected" if want[-1] else "disconnected"))
        ctx.case(("conn", enc_adj(A)), True)
    ans = common.driver(ctx.pid, reqs)
    bad = []
    for r, a, w in zip(reqs, ans, want):
        got = ("conn=1" in a) and not a.startswith("undefined")
        if got != w or (not w and "conn=0" not in a):
            bad.append((r, a[:60], w))
    ctx.obligation(f"correspondence: the model accepts exactly the connected networks "
                   f"({len(reqs)} graphs, {sum(not w for w in want)} disconnected)",
                   "correspondence", not bad, "\n".join(map(str, bad[:4])))


def kernel_case(K, n, Is, It, a32, r32, kreqs, kimpl, kmeta, tag):
    ea = enc_mat([[Fr(float(x)) for x in r] for r in a32])
    er = enc_mat([[Fr(float(x)) for x in r] for r in r32])
    kreqs.append(f"vcfb {n} {enc_fr(Fr(Is))} {enc_fr(Fr(It))} {ea} {er}")
    kimpl.append([float(K._vertex_current_flow_betweenness(n, Is, It, a32.copy(), r32.copy(), i))
                  for i in range(n)])
    kmeta.append(("vcfb", n, a32, r32, Is, It, tag))
    kreqs.append(f"ecfb {n} {enc_fr(Fr(Is))} {enc_fr(Fr(It))} {ea} {er}")
    kimpl.append(np.asarray(K._edge_current_flow_betweenness(n, Is, It, a32.copy(), r32.copy()),
                            dtype=float).ravel().tolist())
    kmeta.append(("ecfb", n, a32, r32, Is, It, tag))


def shrink_history(c, RN, ops):
    """drop operations before the failing query while it still disagrees with a fresh twin"""
    last = ops[-1]

    def still(pre):
        try:
            live, rows = play(c, RN, list(pre) + [last])
            x, fv, mag, low, kb = rows[-1]
            return not op_close(last, x, fv, c.n, mag, low, kb)
        except Exception:  # noqa
            return False
    return common.shrink_list(ops[:-1], still) + [last]


# --------------------------------------------------------------------------
# oracle on one real network: exact values and circuit laws
# --------------------------------------------------------------------------

def oracle_case(ctx, c, o, RN, rng):
    n = c.n
    ex = oracle_er(c)
    adm = oracle_adm(c)
    rs = max(float(x) for r in ex for x in r)      # largest effective resistance (> 0)
    tol = c.tol

    def fail(law, what, **extra):
        ctx.fail({"kind": "law", "law": law}, what, c.replay(**extra))

    er = o["er"]
    # exact values
    for a in range(n):
        for b in range(n):
            if not close(er[a][b], ex[a][b], tol, rs, 0.0):
                fail("effective_resistance=exact-circuit-solve",
                     f"effective_resistance({a},{b}) = {er[a][b]}, exact circuit solve gives "
                     f"{ex[a][b]} = {float(ex[a][b])}", a=a, b=b, observed=er[a][b],
                     expected=enc_fr(ex[a][b]))
                return
    # closeness, average and diameter against their definitions on the exact values
    for a in range(n):
        cc = Fr(n - 1) / sum(ex[a])
        if not close(o["ercc"][a], cc, 4 * tol, 0.0, 0.0):
            fail("closeness=(N-1)/sum-of-ER",
                 f"effective_resistance_closeness_centrality({a}) = {o['ercc'][a]}, definition on "
                 f"the exact effective resistances gives {float(cc)}", a=a, observed=o["ercc"][a],
                 expected=enc_fr(cc))
            break
    avg = 2 * sum(ex[i][j] for i in range(n) for j in range(i)) / Fr(n * (n - 1))
    if not close(o["avg"], avg, tol, rs, 0.0):
        fail("average=mean-over-pairs", f"average_effective_resistance() = {o['avg']}, mean of "
             f"the exact values over all pairs is {float(avg)}", observed=o["avg"])
    if not close(o["diam"], rs, tol, rs, 0.0):
        fail("diameter=max-over-pairs", f"diameter_effective_resistance() = {o['diam']}, largest "
             f"exact value is {rs}", observed=o["diam"])
    # metric laws on the implementation's own output
    for a in range(n):
        if er[a][a] != 0:
            fail("zero-on-diagonal", f"effective_resistance({a},{a}) = {er[a][a]} != 0", a=a)
        for b in range(n):
            if a != b and not er[a][b] > 0:
                fail("positive", f"effective_resistance({a},{b}) = {er[a][b]} is not positive",
                     a=a, b=b)
            if abs(er[a][b] - er[b][a]) > tol * rs:
                fail("symmetric", f"effective_resistance({a},{b}) = {er[a][b]} but ({b},{a}) = "
                     f"{er[b][a]}", a=a, b=b)
            for k in range(n):
                if er[a][b] > er[a][k] + er[k][b] + tol * rs:
                    fail("triangle", f"ER({a},{b}) = {er[a][b]} > ER({a},{k}) + ER({k},{b}) = "
                         f"{er[a][k] + er[k][b]}", a=a, b=b, k=k)
    # never exceeds the resistance of any connecting path (= the cheapest one)
    D = shortest_paths(c)
    for a in range(n):
        for b in range(n):
            if er[a][b] > float(D[a][b]) + tol * rs:
                fail("path-bound", f"ER({a},{b}) = {er[a][b]} exceeds the path resistance "
                     f"{float(D[a][b])}", a=a, b=b)
    # Foster
    fo = sum(er[i][j] / float(c.res[i][j]) for i in range(n) for j in range(i) if c.A[i][j])
    if abs(fo - (n - 1)) > max(1e-6, 4 * tol) * n:
        fail("foster", f"sum over links of ER*conductance = {fo}, expected N-1 = {n - 1}",
             observed=fo)
    # generalised-inverse identities of get_R() assumed by the theorems
    L = np.array(o["lap"], dtype=float)
    R = np.array(o["R"], dtype=float)
    sc = max(1.0, np.abs(L).max()) * max(1.0, np.abs(R).max())
    if np.abs(L @ R @ L - L).max() > 1e-9 * sc * max(1.0, np.abs(L).max()) or \
            np.abs(L @ R - (np.eye(n) - 1.0 / n)).max() > 1e-9 * sc:
        fail("pinv-identities", "get_R() is not a generalised inverse of the admittance "
             "Laplacian (L R L = L, L R = I - J/N)")
    # series / parallel constructions
    if c.tag == "path":
        tot = sum(c.res[i][i + 1] for i in range(n - 1))
        if not close(er[0][n - 1], tot, tol, rs, 0.0):
            fail("series", f"series chain: ER(0,{n - 1}) = {er[0][n - 1]}, sum of resistances "
                 f"{float(tot)}")
    if c.tag in ("bundle", "bundle+direct"):
        g = sum(1 / (c.res[0][k] + c.res[k][1]) for k in range(2, n))
        if c.A[0][1]:
            g += 1 / c.res[0][1]
        if not close(er[0][1], 1 / g, tol, rs, 0.0):
            fail("parallel", f"parallel branches: ER(0,1) = {er[0][1]}, parallel law gives "
                 f"{float(1 / g)}")
    # defining sums: admittive degree / clustering exactly, betweenness on own R
    deg = [sum(c.A[i]) for i in range(n)]
    for i in range(n):
        ad = sum(adm[i])
        if not close(o["ad"][i], ad, tol, 0.0, 0.0):
            fail("admittive_degree=sum", f"admittive_degree()[{i}] = {o['ad'][i]}, defining sum "
                 f"{float(ad)}", i=i)
        tri = sum(adm[i][j] * adm[i][k] * adm[j][k] for j in range(n) for k in range(n))
        lc = Fr(0) if deg[i] == 1 else tri / (ad * (deg[i] - 1))
        if not close(o["lc"][i], lc, tol, 0.0, 0.0):
            fail("local_admittive_clustering=sum", f"local_admittive_clustering()[{i}] = "
                 f"{o['lc'][i]}, defining sum {float(lc)}", i=i)
    kb = f32_bound(o["adm"], o["R"])
    for i in range(n):
        dv = direct_vcfb(n, o["adm"], o["R"], i)
        if abs(o["vcfb"][i] - dv) > kb:
            fail("vcfb=sum", f"vertex_current_flow_betweenness({i}) = {o['vcfb'][i]}, defining "
                 f"sum on get_R()/get_admittance() gives {dv}", i=i)
    if n <= 6 or rng.random() < 0.3:
        de = direct_ecfb(n, o["adm"], o["R"])
        if np.abs(np.array(o["ecfb"]) - de).max() > kb:
            fail("ecfb=sum", "edge_current_flow_betweenness() differs from its defining sum "
                 f"by {np.abs(np.array(o['ecfb']) - de).max()}")
    # scaling of all resistances by a random factor (moderate, or an extreme but exact power of
    # two): a new object, and update_resistances on the old one after its store was filled
    if rng.random() < 0.5:
        f = rng.choice([Fr(2), Fr(1, 2), Fr(3), Fr(1, 4), Fr(10), Fr(5, 8),
                        Fr(2) ** 20, Fr(2) ** -20, Fr(2) ** 40, Fr(2) ** -40])
        if c.kind == "pow2" and (f > 2 ** 10 or f < Fr(1, 2 ** 10)):
            f = Fr(4)                     # already at an extreme scale: stay inside float32 range
        res2 = [[v * f for v in r] for r in c.res]
        for how in ("new", "update"):
            if how == "new":
                c2 = Case(n, c.A, res2, "dyadic", c.tag, c.adj_from_res, c.dtype, c.opts,
                          offlink=c.offlink)
                net2 = c2.build(RN)
            else:
                net2 = c.build(RN)
                observe(net2, n)          # every query once: whatever is stored is now filled
                quiet(net2.update_resistances, c.array(res2) if c.dtype == "float32"
                      else np.array([[float(v) for v in r] for r in res2]))
            o2 = observe(net2, n)
            ff = float(f)
            ok = all(abs(o2["er"][a][b] - ff * er[a][b]) <= tol * rs * ff
                     for a in range(n) for b in range(n))
            ok &= abs(o2["diam"] - ff * o["diam"]) <= tol * rs * ff
            ok &= abs(o2["avg"] - ff * o["avg"]) <= tol * rs * ff
            ok &= all(abs(o2["vcfb"][i] - o["vcfb"][i]) <= 2 * kb for i in range(n))
            ok &= np.abs(np.array(o2["ecfb"]) - np.array(o["ecfb"])).max() <= 2 * kb
            ok &= all(abs(o2["ad"][i] - o["ad"][i] / ff) <= tol * o["ad"][i] / ff
                      for i in range(n))
            ok &= all(abs(o2["lc"][i] - o["lc"][i] / ff ** 2) <= 2 * tol * abs(o["lc"][i]) / ff ** 2
                      for i in range(n))
            ok &= all(abs(o2["ercc"][i] - o["ercc"][i] / ff) <= 4 * tol * o["ercc"][i] / ff
                      for i in range(n))
            if not ok:
                ctx.fail({"kind": "law", "law": "scaling", "how": how},
                         f"multiplying all resistances by {f} ({how}) does not scale effective "
                         "resistances / diameter / average linearly (betweenness invariant, "
                         "admittive degree and closeness inversely, clustering with the inverse square)",
                         c.replay(factor=enc_fr(f), how=how, er_before=er, er_after=o2["er"],
                                  diameter_before=o["diam"], diameter_after=o2["diam"]))
        ctx.count("law:scaling-checked")
        ctx.count("law:scaling-factor:" + ("extreme-pow2" if f > 100 or f < Fr(1, 100) else "moderate"))


# --------------------------------------------------------------------------
# complex impedances
# --------------------------------------------------------------------------

def exact_er(n, A, res):
    adm = [[(1 / res[i][j]) if A[i][j] else Fr(0) for j in range(n)] for i in range(n)]
    L = [[(sum(adm[i]) if i == j else Fr(0)) - adm[i][j] for j in range(1, n)]
         for i in range(1, n)]
    eye = [[Fr(int(i == j)) for j in range(n - 1)] for i in range(n - 1)]
    G = fr_solve(L, eye)

    def g(a, b):
        return Fr(0) if a == 0 or b == 0 else G[a - 1][b - 1]
    return [[g(a, a) + g(b, b) - g(a, b) - g(b, a) for b in range(n)] for a in range(n)]


def stress_stream(ctx, RN, rng, count):
    """oracle only.  (1) connected networks whose resistances span many orders of magnitude
    (weak bridges, 1 ohm next to 1e8 ohm): effective resistance against the exact rational
    solve to *relative* accuracy, Foster's sum; (2) histories in which the array handed to
    update_resistances is the array the network already holds, edited in place (or the
    caller's original array scaled in place): everything must follow the change."""
    for rep_i in range(count):
        n = rng.randrange(3, 7)
        A = random_connected(n, rng, rng.choice([0.0, 0.3]))
        mags = [Fr(10) ** e for e in (0, 0, 0, 1, 3, 5, 7, 8)]      # ratio <= 5e8: float64-safe
        res = [[Fr(0)] * n for _ in range(n)]
        for i in range(n):
            for j in range(i):
                if A[i][j]:
                    res[i][j] = res[j][i] = rng.choice(mags) * rng.choice([1, 2, 5])
        offl = rng.random() < 0.5
        if offl:        # explicit links; the matrix also holds (very small / very large) values
            for i in range(n):          # on unlinked pairs, which must not conduct
                for j in range(i):
                    if not A[i][j] and rng.random() < 0.7:
                        res[i][j] = res[j][i] = rng.choice(mags) / rng.choice([1, 1000]) \
                            * rng.choice([1, 2, 5])
        ex = exact_er(n, A, res)
        rep = {"n": n, "adjacency": A, "resistances": [[str(v) for v in r] for r in res],
               "construct": "ResNetwork(res, adjacency=A)" if offl else "ResNetwork(res)"}
        ctx.case(("stress", enc_adj(A), str(res)), True,
                 {"stress": "wide resistance range", "n": n} if rep_i == 0 else None)
        ctx.count("stress:wide-range" + (":adjacency-given+offlink-values" if offl else ""))
        try:
            kw = {"adjacency": np.array(A, dtype=np.int8)} if offl else {}
            net = quiet(RN, np.array([[float(v) for v in r] for r in res]), silence_level=3, **kw)
            er = [[float(quiet(net.effective_resistance, a, b)) for b in range(n)] for a in range(n)]
        except Exception as e:  # noqa
            ctx.fail({"kind": "stress", "law": "exception"},
                     f"ResNetwork with a wide resistance range raised {type(e).__name__}: {e}", rep)
            continue
        # float64 pinv: entries are accurate relative to the *largest* effective resistance
        # (condition number of the Laplacian), small ones additionally to 1e-6 relative
        top = max(float(v) for r in ex for v in r)
        bad = [(a, b) for a in range(n) for b in range(n)
               if abs(er[a][b] - float(ex[a][b])) > 1e-5 * top + 1e-6 * float(ex[a][b])]
        if bad:
            a, b = bad[0]
            ctx.fail({"kind": "stress", "law": "effective_resistance=exact-solve"},
                     f"effective_resistance({a},{b}) = {er[a][b]} on a network with a wide range of "
                     f"resistances, the exact circuit solve gives {float(ex[a][b])}",
                     dict(rep, pair=[a, b], observed=er[a][b], expected=str(ex[a][b])))
            continue
        fo = sum(er[i][j] / float(res[i][j]) for i in range(n) for j in range(i) if A[i][j])
        if abs(fo - (n - 1)) > 1e-2 * n:
            ctx.fail({"kind": "stress", "law": "foster"},
                     f"Foster sum = {fo} on a wide-range network, expected {n - 1}", rep)
    for rep_i in range(count):
        n = rng.randrange(3, 7)
        A = random_connected(n, rng, rng.choice([0.0, 0.3, 0.6]))
        R = np.zeros((n, n))
        for i in range(n):
            for j in range(i):
                if A[i][j]:
                    R[i, j] = R[j, i] = rng.choice([0.5, 1.0, 2.0, 4.0, 8.0])
        mode = rng.choice(["edit-held-array", "scale-caller-array"])
        ctx.case(("alias", enc_adj(A), R.tobytes().hex(), mode), True,
                 {"history": mode, "n": n} if rep_i == 0 else None)
        ctx.count("stress:alias:" + mode)
        try:
            r = R.copy()
            net = quiet(RN, r, silence_level=3)
            quiet(net.diameter_effective_resistance)
            quiet(net.average_effective_resistance)
            if mode == "edit-held-array":
                held = net.resistances
                i, j = next((i, j) for i in range(n) for j in range(i) if A[i][j])
                held[i, j] = held[j, i] = held[i, j] * 10 + 1
                quiet(net.update_resistances, held)
                cur = np.array(held, dtype=float)
            else:
                r *= 3
                quiet(net.update_resistances, r)
                cur = r.copy()
            twin = quiet(RN, cur.copy(), silence_level=3)
            obs = [[float(quiet(net.effective_resistance, a, b)) for b in range(n)] for a in range(n)]
            exp = [[float(quiet(twin.effective_resistance, a, b)) for b in range(n)] for a in range(n)]
            extra = [(float(quiet(getattr(net, m))), float(quiet(getattr(twin, m))))
                     for m in ("diameter_effective_resistance", "average_effective_resistance")]
            adm = (np.asarray(quiet(net.get_admittance), dtype=float),
                   np.asarray(quiet(twin.get_admittance), dtype=float))
        except Exception as e:  # noqa
            ctx.count("stress:alias-raises:" + type(e).__name__)
            continue
        if not np.allclose(obs, exp, rtol=1e-7, atol=1e-9) or \
                any(abs(a - b) > 1e-7 * max(1, abs(b)) for a, b in extra) or \
                not np.allclose(adm[0], adm[1], rtol=1e-9):
            ctx.fail({"kind": "stress", "law": "follows-update", "history": mode},
                     f"after `{mode}` + update_resistances the network does not follow the new "
                     f"resistances (effective resistance / diameter / admittance differ from a fresh object)",
                     {"n": n, "adjacency": A, "resistances": R.tolist(), "history": mode,
                      "observed": obs, "fresh": exp})


def cnet_request(A, Z):
    Z = np.asarray(Z).astype(complex)
    n = len(A)
    re = [[Fr(float(Z[i, j].real)) for j in range(n)] for i in range(n)]
    im = [[Fr(float(Z[i, j].imag)) for j in range(n)] for i in range(n)]
    return f"cnet {n} {enc_adj(A)} {enc_mat(re)} {enc_mat(im)}"


def parse_cnet(ans):
    """answer of the driver's `cnet` request -> dict of complex numpy values (None if refused)"""
    if ans.startswith("undefined") or ans == "bad-request":
        return None
    d = dict(kv.split("=", 1) for kv in ans.split("|"))
    out = {}
    for k, v in d.items():
        re, im = v.split("&")
        if ";" in re or k in ("adm", "lap", "R", "er"):
            a, b = p_mat(re), p_mat(im)
            out[k] = np.array([[complex(float(x), float(y)) for x, y in zip(r1, r2)]
                               for r1, r2 in zip(a, b)])
        elif k in ("avg", "gc"):
            out[k] = complex(float(Fr(re)), float(Fr(im)))
        else:
            out[k] = np.array([complex(float(x), float(y)) for x, y in zip(p_vec(re), p_vec(im))])
    return out


def complex_stream(ctx, RN, rng, count):
    todo = []
    for _ in range(count):
        n = rng.randrange(2, 7)
        kind = rng.choice(["path", "bundle+direct", "random", "random", "cycle"])
        if kind == "random":
            A = random_connected(n, rng, rng.choice([0.0, 0.3, 0.6]))
        else:
            A = structured(max(n, 3) if kind != "path" else n, kind)
            n = len(A)
        Z = np.zeros((n, n), dtype=complex)
        for i in range(n):
            for j in range(i):
                if A[i][j]:
                    Z[i, j] = Z[j, i] = complex(rng.randrange(1, 17) / 2, rng.randrange(-16, 17) / 2)
        if rng.random() < 0.3:         # impedance matrix non-zero on unlinked pairs / diagonal
            mode = rng.choice(["dense", "some", "diag"])
            for i in range(n):
                for j in range(i):
                    if not A[i][j] and (mode == "dense" or (mode == "some" and rng.random() < 0.5)):
                        Z[i, j] = Z[j, i] = complex(rng.randrange(1, 17) / 8,
                                                    rng.randrange(-16, 17) / 8)
                if mode == "diag":
                    Z[i, i] = complex(rng.randrange(1, 9) / 2, rng.randrange(-8, 9) / 2)
            ctx.count("complex-offlink:" + mode)
        if rng.random() < 0.25:        # extreme but exact common scale
            Z = Z * 2.0 ** rng.choice([-40, -20, 20, 40])
        zdt = rng.choice([complex, complex, np.complex64])
        todo.append((A, Z.astype(zdt), kind))
    answers = pdriver(ctx.pid, [cnet_request(A, Z) for A, Z, _ in todo])
    cbad = []
    for (A, Z, kind), ans in zip(todo, answers):
        complex_check(ctx, RN, rng, A, Z, kind, model=ans, cbad=cbad)
    ctx.obligation(f"correspondence: Lean field model at the Gaussian rationals (Model/CircuitK) == "
                   f"complex ResNetwork: admittance, Laplacian, R, effective impedance, average, "
                   f"closeness, admittive degree, local / global clustering ({len(todo)} networks, "
                   f"complex128 and complex64)", "correspondence", not cbad,
                   "\n".join(map(str, cbad[:5])))
    ctx.extra["complex_networks_compared"] = len(todo)


def clust_scale(Y, deg):
    """per node: the magnitude against which an error of the admittive clustering is judged —
    sum of the *absolute* triple products over |ad (d-1)|, times the cancellation factor of the
    admittive degree (sum |Y_ij| / |sum Y_ij|); equals |lc_i| when nothing cancels"""
    Y = np.asarray(Y, dtype=complex)
    n = len(Y)
    aY = np.abs(Y)
    tri = np.einsum("ij,ik,jk->i", aY, aY, aY)
    ad = Y.sum(axis=0)
    out = np.zeros(n)
    for i in range(n):
        if deg[i] != 1 and abs(ad[i]) > 0:
            out[i] = tri[i] / (abs(ad[i]) * (deg[i] - 1)) * (aY[:, i].sum() / abs(ad[i]))
    return out


def complex_model_diff(net, n, m, low, deg):
    """names of the observables of a complex network that differ from the exact model values"""
    bad = []

    def cmp(name, x, tol, scale):
        # complex64 caller arrays: `1./resistances[i, j]` is a single-precision division
        tol = max(300 * tol, 3e-6) if low else tol
        x = np.asarray(x, dtype=complex)
        q_ = np.asarray(m[name], dtype=complex)
        if x.shape != q_.shape or not np.all(np.isfinite(x)) or \
                np.abs(x - q_).max() > tol * scale:
            bad.append(name)
    ys = np.abs(m["adm"]).max()
    rs = np.abs(m["R"]).max()
    cmp("adm", quiet(net.get_admittance), 1e-12, ys)
    cmp("lap", quiet(net.admittance_lapacian), 1e-12, ys)
    cmp("R", quiet(net.get_R), 1e-7, rs)
    cmp("er", [[quiet(net.effective_resistance, a, b) for b in range(n)] for a in range(n)],
        1e-7, rs)
    cmp("avg", quiet(net.average_effective_resistance), 1e-7, rs)
    cmp("ercc", [quiet(net.effective_resistance_closeness_centrality, a) for a in range(n)],
        1e-6, np.abs(m["ercc"]).max())
    cmp("ad", quiet(net.admittive_degree), 1e-9, ys)
    cs = max(clust_scale(m["adm"], deg).max(), ys * ys / n)
    cmp("lc", quiet(net.local_admittive_clustering), 1e-9, cs)
    cmp("gc", quiet(net.global_admittive_clustering), 1e-9, cs)
    return bad


def complex_check(ctx, RN, rng, A, Z, kind, make=None, model=None, cbad=None):
    """one complex-impedance network (built by `make()` if given, e.g. a public factory);
    `model`: the Lean field model's answer for it (correspondence, recorded in `cbad`)"""
    for _once in (0,):
        n = len(A)
        low = Z.dtype == np.complex64
        lf = 300.0 if low else 1.0        # complex64 arrays: single-precision admittances
        ctx.count("complex:" + kind)
        ctx.count("complex-dtype:" + str(Z.dtype))
        ctx.case(("complex", enc_adj(A), Z.tolist().__repr__(), str(Z.dtype)), n >= 3)
        rep = {"n": n, "adjacency": A, "impedances": [[str(z) for z in r] for r in Z.tolist()],
               "dtype": str(Z.dtype)}

        def fail(law, what, **extra):
            ctx.fail({"kind": "complex", "law": law}, what, dict(rep, **extra))
        Z0 = Z
        Z = Z.astype(complex)
        try:
            net = make() if make else quiet(RN, Z0.copy(), adjacency=np.array(A, dtype=np.int8))
            er = np.array([[quiet(net.effective_resistance, a, b) for b in range(n)]
                           for a in range(n)])
            ad = quiet(net.admittive_degree)
            lc = quiet(net.local_admittive_clustering)
        except Exception as ex:  # noqa
            fail("exception", f"complex ResNetwork raised {type(ex).__name__}: {ex}")
            continue
        if model is not None:
            m = parse_cnet(model)
            if m is None:
                cbad.append(("model refuses", enc_adj(A), Z.tolist(), model[:60]))
            else:
                d = complex_model_diff(net, n, m, low, np.array(A).sum(axis=1))
                if d:
                    cbad.append((d, enc_adj(A), Z0.tolist(), str(Z0.dtype)))
        Y = np.where(np.array(A) != 0, 1.0 / np.where(Z == 0, 1, Z), 0)
        L = np.diag(Y.sum(axis=1)) - Y
        G = np.zeros((n, n), dtype=complex)
        G[1:, 1:] = np.linalg.inv(L[1:, 1:])
        ex = np.array([[G[a, a] + G[b, b] - G[a, b] - G[b, a] for b in range(n)] for a in range(n)])
        sc = np.abs(ex).max()
        ys = np.abs(Y).max()
        if np.abs(er - ex).max() > 1e-6 * lf * sc:
            a, b = np.unravel_index(np.abs(er - ex).argmax(), er.shape)
            fail("effective_impedance=direct-solve",
                 f"effective_resistance({a},{b}) = {er[a, b]}, direct solve gives {ex[a, b]}")
            continue
        if np.abs(er - er.T).max() > 1e-7 * lf * sc or np.abs(np.diag(er)).max() != 0:
            fail("symmetric/zero", "complex effective resistance not symmetric / not 0 on diagonal")
        fo = sum(er[i, j] * Y[i, j] for i in range(n) for j in range(i) if A[i][j])
        if abs(fo - (n - 1)) > 1e-6 * lf * n:
            fail("foster", f"sum ER*admittance over links = {fo}, expected {n - 1}")
        if kind == "path":
            tot = sum(Z[i, i + 1] for i in range(n - 1))
            if abs(er[0, n - 1] - tot) > 1e-7 * lf * sc:
                fail("series", f"ER(0,{n - 1}) = {er[0, n - 1]}, series law {tot}")
        if kind == "bundle+direct":
            g = 1 / Z[0, 1] + sum(1 / (Z[0, k] + Z[k, 1]) for k in range(2, n))
            if abs(er[0, 1] - 1 / g) > 1e-7 * lf * sc:
                fail("parallel", f"ER(0,1) = {er[0, 1]}, parallel law {1 / g}")
        if np.abs(ad - Y.sum(axis=0)).max() > 1e-9 * lf * ys:
            fail("admittive_degree=sum", "complex admittive degree differs from its defining sum")
        deg = np.array(A).sum(axis=1)
        cscale = clust_scale(Y, deg)
        for i in range(n):
            tri = sum(Y[i, j] * Y[i, k] * Y[j, k] for j in range(n) for k in range(n))
            e = 0 if deg[i] == 1 else tri / (Y[i].sum() * (deg[i] - 1))
            # judged against the sum of absolute terms (complex products cancel), see clust_scale
            if abs(lc[i] - e) > 1e-9 * lf * max(abs(e), ys * ys / n, cscale[i]):
                fail("local_admittive_clustering=sum",
                     f"complex local_admittive_clustering()[{i}] = {lc[i]}, defining sum {e}")
        # scaling by a complex factor through update_resistances, after the store was filled
        f = complex(rng.randrange(1, 5), rng.randrange(-2, 3))
        quiet(net.average_effective_resistance)
        quiet(net.update_resistances, Z * f)
        er2 = np.array([[quiet(net.effective_resistance, a, b) for b in range(n)]
                        for a in range(n)])
        if np.abs(er2 - f * er).max() > 1e-6 * lf * sc * abs(f):
            fail("scaling", f"multiplying all impedances by {f} does not scale the effective "
                 "impedance")
        avg = quiet(net.average_effective_resistance)
        twin = quiet(RN, Z * f, adjacency=np.array(A, dtype=np.int8))
        if abs(avg - quiet(twin.average_effective_resistance)) > 1e-6 * lf * sc * abs(f):
            fail("history", "average_effective_resistance after update_resistances differs "
                 "from a fresh object")
