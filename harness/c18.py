"""C18 — Resistive-network quantities obey circuit laws.

proof  : lean/Pyunicorn/Properties/C18.lean (effective resistance = potential difference for
         every generalised inverse, metric laws, scaling, series / parallel, Foster, kernels =
         defining sums, histories of update_resistances)
tie    : the Lean model (exact Rat) against ResNetwork on the same generated networks
         (tolerance 1e-7; float32 paths: stated bound), against the compiled current-flow
         kernels at the kernel boundary on exact float32 inputs, and on update/query histories
search : exact circuit solve in fractions.Fraction (grounded Laplacian), the circuit laws as
         identities on the implementation's own output, fresh twin objects after every
         update_resistances, complex impedances against a direct linear solve
"""
import contextlib
import io
import itertools
import math
import warnings
from fractions import Fraction as Fr

import numpy as np

from . import common

TOL = 1e-7          # float64 pipeline (pinv)
F32 = 2.0 ** -24    # unit round-off of the float32 copies handed to the C sums


# --------------------------------------------------------------------------
# encoding / parsing
# --------------------------------------------------------------------------

def enc_fr(x):
    x = Fr(x)
    return str(x.numerator) if x.denominator == 1 else f"{x.numerator}/{x.denominator}"


def enc_mat(M):
    return ";".join(",".join(enc_fr(v) for v in row) for row in M) or "-"


def enc_adj(A):
    return ";".join(",".join(str(int(v)) for v in row) for row in A) or "-"


def p_fr(s):
    return None if s == "none" else Fr(s)


def p_vec(s):
    return [] if s == "-" else [p_fr(t) for t in s.split(",")]


def p_mat(s):
    return [] if s == "-" else [p_vec(r) for r in s.split(";")]


def close(x, q, tol=TOL, scale=1.0):
    """implementation float x against exact value q"""
    if q is None:
        return False
    try:
        x = float(x)
    except (TypeError, ValueError):
        return False
    if math.isnan(x) or math.isinf(x):
        return False
    return abs(x - float(q)) <= tol * max(1.0, abs(float(q)), scale)


def quiet(f, *a, **k):
    with contextlib.redirect_stdout(io.StringIO()), warnings.catch_warnings():
        warnings.simplefilter("ignore")
        return f(*a, **k)


# --------------------------------------------------------------------------
# generators: connected graphs, positive resistances
# --------------------------------------------------------------------------

def is_connected(n, A):
    seen, todo = {0}, [0]
    while todo:
        i = todo.pop()
        for j in range(n):
            if A[i][j] and j not in seen:
                seen.add(j)
                todo.append(j)
    return len(seen) == n


def graph_from_edges(n, edges):
    A = [[0] * n for _ in range(n)]
    for i, j in edges:
        A[i][j] = A[j][i] = 1
    return A


def all_connected(n):
    pairs = list(itertools.combinations(range(n), 2))
    for bits in itertools.product([0, 1], repeat=len(pairs)):
        A = graph_from_edges(n, [p for p, b in zip(pairs, bits) if b])
        if is_connected(n, A):
            yield A


def structured(n, kind):
    e = []
    if kind == "path":
        e = [(i, i + 1) for i in range(n - 1)]
    elif kind == "cycle":
        e = [(i, (i + 1) % n) for i in range(n)] if n >= 3 else [(0, 1)]
    elif kind == "star":
        e = [(0, i) for i in range(1, n)]
    elif kind == "complete":
        e = list(itertools.combinations(range(n), 2))
    elif kind == "ladder":            # two rails + rungs (n even)
        h = n // 2
        e = [(i, i + 1) for i in range(h - 1)] + [(h + i, h + i + 1) for i in range(h - 1)] \
            + [(i, h + i) for i in range(h)]
        if n % 2:
            e.append((n - 2, n - 1))
    elif kind == "wheel":
        e = [(0, i) for i in range(1, n)] + [(i, i + 1) for i in range(1, n - 1)] + \
            ([(n - 1, 1)] if n > 3 else [])
    elif kind == "barbell":
        h = n // 2
        e = list(itertools.combinations(range(h), 2)) + \
            list(itertools.combinations(range(h, n), 2)) + [(h - 1, h)]
    elif kind == "bundle":            # parallel two-edge branches between 0 and 1
        e = [(0, k) for k in range(2, n)] + [(k, 1) for k in range(2, n)]
    elif kind == "bundle+direct":
        e = [(0, 1)] + [(0, k) for k in range(2, n)] + [(k, 1) for k in range(2, n)]
    return graph_from_edges(n, sorted(set(tuple(sorted(x)) for x in e if x[0] != x[1])))


def random_connected(n, rng, p):
    perm = list(range(n))
    rng.shuffle(perm)
    e = [(perm[i], perm[rng.randrange(i)]) for i in range(1, n)]   # random spanning tree
    for i, j in itertools.combinations(range(n), 2):
        if rng.random() < p:
            e.append((i, j))
    return graph_from_edges(n, e)


def draw_res(n, A, rng, kind):
    """symmetric positive resistances on the links; exactly representable as doubles"""
    R = [[Fr(0)] * n for _ in range(n)]
    for i in range(n):
        for j in range(i):
            if A[i][j]:
                if kind == "unit":
                    r = Fr(1)
                elif kind == "int":
                    r = Fr(rng.randrange(1, 11))
                elif kind == "dyadic":
                    r = Fr(rng.randrange(1, 81), 8)
                else:  # wide
                    r = Fr(2) ** rng.randrange(-4, 8) * rng.choice([1, 3, 5])
                R[i][j] = R[j][i] = r
    return R


def to_np(res, kind):
    if kind in ("unit", "int") and all(v.denominator == 1 for r in res for v in r):
        return np.array([[int(v) for v in r] for r in res], dtype=np.int64)
    return np.array([[float(v) for v in r] for r in res], dtype=float)


class Case:
    def __init__(self, n, A, res, kind, tag, adj_from_res=False):
        self.n, self.A, self.res, self.kind, self.tag = n, A, res, kind, tag
        self.adj_from_res = adj_from_res

    def build(self, RN, res=None):
        res = self.res if res is None else res
        arr = to_np(res, self.kind)
        if self.adj_from_res:
            return quiet(RN, arr)
        return quiet(RN, arr, adjacency=np.array(self.A, dtype=np.int8))

    def replay(self, **extra):
        d = {"n": self.n, "adjacency": self.A,
             "resistances": [[enc_fr(v) for v in r] for r in self.res],
             "construct": "ResNetwork(res)" if self.adj_from_res
             else "ResNetwork(res, adjacency=A)"}
        d.update(extra)
        return d

    def canon(self):
        return (self.n, enc_adj(self.A), enc_mat(self.res))


def gen_cases(ctx, quick):
    rng = ctx.rng
    out = []

    def add(n, A, tag, kinds=None):
        kind = rng.choice(kinds or ["unit", "int", "int", "dyadic", "dyadic", "wide"])
        c = Case(n, A, draw_res(n, A, rng, kind), kind, tag, adj_from_res=rng.random() < 0.3)
        out.append(c)

    for n in (2, 3, 4):
        for A in all_connected(n):
            add(n, A, f"all-connected-n{n}")
    if not quick:
        for A in all_connected(5):
            for _ in range(3):
                add(5, A, "all-connected-n5")
    for n in range(2, 10):
        for kind in ("path", "cycle", "star", "complete", "ladder", "wheel", "barbell",
                     "bundle", "bundle+direct"):
            if kind in ("ladder", "barbell") and n < 4:
                continue
            if kind in ("bundle", "wheel") and n < 3:
                continue
            if quick and n > 7 and kind in ("complete", "wheel"):
                continue
            A = structured(n, kind)
            if is_connected(n, A):
                add(n, A, kind)
    for _ in range(110 if quick else 2500):
        n = rng.randrange(3, 8 if quick else 10)
        add(n, random_connected(n, rng, rng.choice([0.0, 0.15, 0.3, 0.6])), "random")
    return out


# --------------------------------------------------------------------------
# exact oracle (independent of the Lean model): grounded Laplacian in Fractions
# --------------------------------------------------------------------------

def fr_solve(M, B):
    """solve M X = B (square M, list of lists of Fraction) by Gauss–Jordan"""
    n = len(M)
    m = len(B[0])
    a = [list(M[i]) + list(B[i]) for i in range(n)]
    for k in range(n):
        p = next(i for i in range(k, n) if a[i][k] != 0)
        a[k], a[p] = a[p], a[k]
        piv = a[k][k]
        a[k] = [x / piv for x in a[k]]
        for i in range(n):
            if i != k and a[i][k] != 0:
                f = a[i][k]
                a[i] = [x - f * y for x, y in zip(a[i], a[k])]
    return [row[n:n + m] for row in a]


def oracle_adm(c, res=None):
    res = c.res if res is None else res
    n = c.n
    return [[(1 / res[i][j]) if c.A[i][j] else Fr(0) for j in range(n)] for i in range(n)]


def oracle_er(c, res=None):
    """all-pairs effective resistance: ground node 0, G = (L without row/col 0)^-1,
    R_eff(a,b) = G[a,a] + G[b,b] - 2 G[a,b] (entries with index 0 are 0)."""
    n = c.n
    adm = oracle_adm(c, res)
    if n == 1:
        return [[Fr(0)]]
    L = [[(sum(adm[i]) if i == j else Fr(0)) - adm[i][j] for j in range(1, n)]
         for i in range(1, n)]
    eye = [[Fr(int(i == j)) for j in range(n - 1)] for i in range(n - 1)]
    G = fr_solve(L, eye)

    def g(a, b):
        return Fr(0) if a == 0 or b == 0 else G[a - 1][b - 1]
    return [[g(a, a) + g(b, b) - g(a, b) - g(b, a) for b in range(n)] for a in range(n)]


def shortest_paths(c, res=None):
    res = c.res if res is None else res
    n = c.n
    D = [[(Fr(0) if i == j else (res[i][j] if c.A[i][j] else None)) for j in range(n)]
         for i in range(n)]
    for k in range(n):
        for i in range(n):
            for j in range(n):
                if D[i][k] is not None and D[k][j] is not None and \
                        (D[i][j] is None or D[i][k] + D[k][j] < D[i][j]):
                    D[i][j] = D[i][k] + D[k][j]
    return D


def direct_vcfb(n, adm, R, i, Is=1.0, It=1.0):
    """defining sum in float64 on the implementation's own admittance / R"""
    tot = 0.0
    for t in range(n):
        for s in range(t):
            if i in (s, t):
                continue
            tot += 0.5 * sum(adm[i][j] * abs(Is * (R[i][s] - R[j][s]) + It * (R[j][t] - R[i][t]))
                             for j in range(n))
    return 2.0 * tot / (n * (n - 1))


def direct_ecfb(n, adm, R, Is=1.0, It=1.0):
    E = np.zeros((n, n))
    for i in range(n):
        for j in range(n):
            E[i, j] = 2.0 * sum(adm[i][j] * abs(Is * (R[i][s] - R[j][s]) + It * (R[j][t] - R[i][t]))
                                for t in range(n) for s in range(t)) / (n * (n - 1))
    return E


# --------------------------------------------------------------------------
# observables of the implementation
# --------------------------------------------------------------------------

def observe(net, n, kernels=True):
    o = {}
    o["adm"] = quiet(net.get_admittance).tolist()
    o["lap"] = quiet(net.admittance_lapacian).tolist()
    o["R"] = quiet(net.get_R).tolist()
    o["er"] = [[quiet(net.effective_resistance, a, b) for b in range(n)] for a in range(n)]
    o["ad"] = quiet(net.admittive_degree).tolist()
    o["anad"] = quiet(net.average_neighbors_admittive_degree).tolist()
    o["lc"] = quiet(net.local_admittive_clustering).tolist()
    o["gc"] = float(quiet(net.global_admittive_clustering))
    o["ercc"] = [float(quiet(net.effective_resistance_closeness_centrality, a)) for a in range(n)]
    if kernels:
        o["vcfb"] = [float(quiet(net.vertex_current_flow_betweenness, i)) for i in range(n)]
        o["ecfb"] = quiet(net.edge_current_flow_betweenness).tolist()
    # fresh store: diameter first (store is None), then average
    o["diam"] = float(quiet(net.diameter_effective_resistance))
    o["avg"] = float(quiet(net.average_effective_resistance))
    return o


def f32_bound(adm, R):
    """bound on the effect of the float32 copies on one current-flow sum"""
    ma = max(abs(float(x)) for r in adm for x in r)
    mr = max(abs(float(x)) for r in R for x in r)
    n = len(adm)
    return 1e-4 + 8 * F32 * n * ma * mr


def diff_obs(o, m, n):
    """names of the observables where implementation `o` and exact values `m` differ"""
    bad = []
    kb = f32_bound(m["adm"], m["R"])

    def mat(name, tol=TOL, scale=1.0):
        for a in range(n):
            for b in range(n):
                if not close(o[name][a][b], m[name][a][b], tol, scale):
                    bad.append((name, (a, b), o[name][a][b], m[name][a][b]))
                    return

    def vec(name, tol=TOL, scale=1.0):
        for a in range(n):
            if not close(o[name][a], m[name][a], tol, scale):
                bad.append((name, a, o[name][a], m[name][a]))
                return

    rs = max(abs(float(x)) for r in m["R"] for x in r)
    mat("adm", 1e-12)
    mat("lap", 1e-12)
    mat("R", TOL, rs)
    mat("er", TOL, rs)
    for name in ("ad", "anad", "lc", "ercc"):
        if name in m:
            vec(name)
    for name in ("gc", "avg", "diam"):
        if name in m and not close(o[name], m[name], TOL, rs if name != "gc" else 1.0):
            bad.append((name, None, o[name], m[name]))
    if "vcfb" in o and "vcfb" in m:
        for a in range(n):
            if abs(o["vcfb"][a] - float(m["vcfb"][a])) > kb:
                bad.append(("vcfb", a, o["vcfb"][a], m["vcfb"][a]))
                break
        done = False
        for a in range(n):
            for b in range(n):
                if not done and abs(o["ecfb"][a][b] - float(m["ecfb"][a][b])) > kb:
                    bad.append(("ecfb", (a, b), o["ecfb"][a][b], m["ecfb"][a][b]))
                    done = True
    return bad


def parse_net(ans):
    if ans.startswith("undefined") or ans == "bad-request":
        return None
    d = dict(kv.split("=", 1) for kv in ans.split("|"))
    m = {"conn": d["conn"] == "1"}
    for k in ("adm", "lap", "R", "er", "erpot", "ecfb"):
        m[k] = p_mat(d[k])
    for k in ("ercc", "vcfb", "ad", "anad", "lc"):
        m[k] = p_vec(d[k])
    for k in ("avg", "diam", "gc"):
        m[k] = p_fr(d[k])
    return m


# --------------------------------------------------------------------------
# histories
# --------------------------------------------------------------------------

def gen_history(c, rng, length):
    """list of ops: ('U', res) | ('A',) | ('D',) | ('E', a, b) | ('C', a)"""
    ops = []
    cur = c.res
    for _ in range(length):
        k = rng.random()
        if k < 0.3:
            if rng.random() < 0.4:
                f = rng.choice([Fr(2), Fr(1, 2), Fr(3), Fr(10), Fr(1, 4)])
                new = [[v * f for v in r] for r in cur]
            else:
                new = draw_res(c.n, c.A, rng, rng.choice(["unit", "int", "dyadic"]))
            cur = new
            ops.append(("U", new))
        elif k < 0.5:
            ops.append(("A",))
        elif k < 0.75:
            ops.append(("D",))
        elif k < 0.9:
            ops.append(("E", rng.randrange(c.n), rng.randrange(c.n)))
        else:
            ops.append(("C", rng.randrange(c.n)))
    return ops


def enc_op(op):
    if op[0] == "U":
        return "U=" + enc_mat(op[1])
    if op[0] == "E":
        return f"E={op[1]},{op[2]}"
    if op[0] == "C":
        return f"C={op[1]}"
    return op[0]


def show_op(op):
    return ["update_resistances", [[enc_fr(v) for v in r] for r in op[1]]] if op[0] == "U" else \
        {"A": ["average_effective_resistance"], "D": ["diameter_effective_resistance"],
         "E": ["effective_resistance"] + list(op[1:]),
         "C": ["effective_resistance_closeness_centrality"] + list(op[1:])}[op[0]]


def apply_op(net, op):
    if op[0] == "U":
        # the documented call: a resistance matrix (float array)
        quiet(net.update_resistances, np.array([[float(v) for v in r] for r in op[1]]))
        return None
    if op[0] == "A":
        return float(quiet(net.average_effective_resistance))
    if op[0] == "D":
        return float(quiet(net.diameter_effective_resistance))
    if op[0] == "E":
        return float(quiet(net.effective_resistance, op[1], op[2]))
    return float(quiet(net.effective_resistance_closeness_centrality, op[1]))


def fresh_value(c, RN, res, op):
    """the same query on a freshly constructed object with the current resistances"""
    twin = c.build(RN, res)
    return apply_op(twin, op)


# --------------------------------------------------------------------------
# the check
# --------------------------------------------------------------------------

def run(ctx):
    from pyunicorn.core import ResNetwork as RN
    from pyunicorn.core._ext import numerics as K
    rng = ctx.rng
    quick = ctx.tier == "quick"
    ctx.rule = ("connected undirected graphs: all on 2-4 nodes"
                + ("" if quick else ", all on 5 nodes x 3 resistance draws")
                + ", path/cycle/star/complete/ladder/wheel/barbell/parallel-bundle on 2-9 nodes, "
                "random spanning tree + extra links on 3-"
                + ("7" if quick else "9") + " nodes; symmetric positive resistances: unit, "
                "integers 1..10, multiples of 1/8, powers of two x {1,3,5}; int64 and float64 "
                "arrays; adjacency given or derived from the resistances; distinct = distinct "
                "(adjacency, resistances); non-trivial = at least 3 nodes and not all "
                "resistances equal")
    ctx.trusted = common.DEFAULT_TRUSTED + [
        "numpy.linalg.pinv is modelled as *a* generalised inverse (L R L = L, and L R = I - J/n on "
        "connected networks): both identities are checked numerically on get_R() in every case, "
        "and the model's own pseudo-inverse is returned only with an exact Moore-Penrose "
        "certificate",
        "float32 rounding of the copies handed to the C sums is bounded, not modelled "
        "(method level); at the kernel boundary the model receives the float32 values exactly",
    ]
    ctx.assumptions = [
        "resistor networks are undirected with symmetric positive resistances (the class "
        "ignores its `directed` argument); complex impedances have positive real part",
    ]
    ctx.proofs()

    cases = gen_cases(ctx, quick)
    # ------------------------------------------------------------------
    # A. implementation vs Lean model vs exact oracle, all observables
    # ------------------------------------------------------------------
    reqs = [f"net {c.n} {enc_adj(c.A)} {enc_mat(c.res)}" for c in cases]
    model = common.driver(ctx.pid, reqs)
    bad = []
    nobs = 0
    selfbad = []
    kept = []
    for c, ans in zip(cases, model):
        ctx.count("graph:" + c.tag)
        ctx.count("res:" + c.kind)
        ctx.count(f"n={c.n}")
        ctx.count("construct:" + ("from-resistances" if c.adj_from_res else "adjacency-given"))
        nontriv = c.n >= 3 and len({v for r in c.res for v in r if v != 0}) > 1
        ctx.case(c.canon(), nontriv, c.replay() if c.n <= 5 else None)
        m = parse_net(ans)
        if m is None or not m["conn"]:
            selfbad.append((c, "model refuses a connected network: " + ans[:80]))
            continue
        # model self-test: pinv route == potential route (exact)
        if m["er"] != m["erpot"]:
            selfbad.append((c, "model: pinv route and potential route differ"))
        try:
            net = c.build(RN)
            o = observe(net, c.n)
        except Exception as ex:  # noqa
            ctx.fail({"kind": "exception", "where": "observe", "error": type(ex).__name__},
                     f"ResNetwork raised {type(ex).__name__}: {ex}", c.replay())
            continue
        kept.append((c, m, o, net))
        d = diff_obs(o, m, c.n)
        nobs += 13
        if d:
            bad.append((c, d))
        oracle_case(ctx, c, o, RN, rng)
    ctx.obligation("model self-test: certified pseudo-inverse route == certified potential "
                   f"route, every connected network accepted ({len(cases)} networks)",
                   "correspondence", not selfbad,
                   "\n".join(f"{w}: A={enc_adj(c.A)} res={enc_mat(c.res)}" for c, w in selfbad[:5]))
    ctx.obligation(f"correspondence: Lean Circuit model == ResNetwork observables "
                   f"({nobs} results on {len(cases)} networks)", "correspondence", not bad,
                   "\n".join(f"{d[0][0]}{d[0][1]} impl={d[0][2]} model={d[0][3]} :: "
                             f"A={enc_adj(c.A)} res={enc_mat(c.res)}" for c, d in bad[:6]))
    ctx.extra["observables_compared"] = nobs

    # ------------------------------------------------------------------
    # B. kernel boundary: exact float32 inputs
    # ------------------------------------------------------------------
    kreqs, kimpl, kmeta = [], [], []
    nprng = np.random.RandomState(rng.randrange(2 ** 31))
    for c, m, o, net in kept:
        if c.n > 7 or (quick and rng.random() < 0.5):
            continue
        a32 = np.ascontiguousarray(np.array(o["adm"], dtype=np.float32))
        r32 = np.ascontiguousarray(np.array(o["R"], dtype=np.float32))
        Is, It = rng.choice([(1, 1), (1, 1), (2, 1), (1, 0), (0.5, 3)])
        kernel_case(K, c.n, Is, It, a32, r32, kreqs, kimpl, kmeta, "circuit")
        ctx.count("kernel:circuit-float32")
    for _ in range(60 if quick else 600):
        n = rng.randrange(2, 7)
        a32 = (nprng.randint(0, 9, (n, n)) / 4).astype(np.float32)
        r32 = (nprng.randint(-16, 17, (n, n)) / 4).astype(np.float32)
        Is, It = rng.choice([(1, 1), (2, 1), (1, 0), (0.5, 3), (0, 1)])
        kernel_case(K, n, Is, It, a32, r32, kreqs, kimpl, kmeta, "random-asymmetric")
        ctx.count("kernel:random-asymmetric-dyadic")
    kans = common.driver(ctx.pid, kreqs)
    kbad = []
    for req, got, ans, meta in zip(kreqs, kimpl, kans, kmeta):
        exact = p_vec(ans) if meta[0] == "vcfb" else [x for r in p_mat(ans) for x in r]
        # the C code subtracts the float32 entries of R in float32 (two rounded subtractions per
        # term); exact on the dyadic stream, bounded on the circuit stream.  ECFB is stored as
        # float32.
        A32, R32 = meta[2], meta[3]
        sub = 0.0 if meta[6] != "circuit" else \
            4 * F32 * float(np.abs(A32).max()) * meta[1] * (abs(meta[4]) + abs(meta[5])) \
            * 2 * float(np.abs(R32).max())
        tol = 1e-12 if meta[0] == "vcfb" else 4 * F32
        if len(exact) != len(got) or any(
                abs(g - float(e)) > tol * max(1.0, abs(float(e))) + sub
                for g, e in zip(got, exact)):
            kbad.append((req, got, ans))
            n = meta[1]
            if meta[0] == "vcfb":
                ref = [direct_vcfb(n, A32, R32, i, meta[4], meta[5]) for i in range(n)]
            else:
                ref = direct_ecfb(n, A32, R32, meta[4], meta[5]).ravel().tolist()
            if any(abs(g - e) > 1e-5 * max(1.0, abs(e)) for g, e in zip(got, ref)):
                ctx.fail({"kind": "kernel", "kernel": meta[0]},
                         f"_{'vertex' if meta[0] == 'vcfb' else 'edge'}_current_flow_betweenness "
                         "differs from the direct evaluation of its defining sum",
                         {"N": n, "Is": meta[4], "It": meta[5], "admittance": A32.tolist(),
                          "R": R32.tolist(), "observed": got, "expected": ref})
    ctx.obligation(f"correspondence: Lean vcfbKernel/ecfbKernel == compiled kernels on exact "
                   f"float32 inputs ({len(kreqs)} kernel calls)", "correspondence", not kbad,
                   "\n".join(f"{r[:200]} :: impl={g} model={a[:200]}" for r, g, a in kbad[:4]))
    ctx.extra["kernel_calls_compared"] = len(kreqs)

    # ------------------------------------------------------------------
    # C. histories of update_resistances / queries
    # ------------------------------------------------------------------
    hcases = []
    pool = [c for c in cases if 3 <= c.n <= 7]
    for _ in range(80 if quick else 800):
        c = rng.choice(pool)
        hcases.append((c, gen_history(c, rng, rng.randrange(2, 7 if quick else 12))))
    hreqs = [" ".join(["hist", str(c.n), enc_adj(c.A), enc_mat(c.res)] + [enc_op(op) for op in ops])
             for c, ops in hcases]
    hans = common.driver(ctx.pid, hreqs)
    hbad = []
    for (c, ops), ans in zip(hcases, hans):
        ctx.count("history:len=%d" % len(ops))
        ctx.count("history:updates=%d" % sum(op[0] == "U" for op in ops))
        ctx.case(("hist", c.canon(), [enc_op(op) for op in ops]), True)
        exact = [p_fr(t) for t in ans.split(",")]
        try:
            net = c.build(RN)
            outs = [apply_op(net, op) for op in ops]
        except Exception as ex:  # noqa
            ctx.fail({"kind": "exception", "where": "history", "error": type(ex).__name__},
                     f"history raised {type(ex).__name__}: {ex}",
                     c.replay(history=[show_op(op) for op in ops]))
            continue
        mism = [k for k, (x, q) in enumerate(zip(outs, exact))
                if (x is None) != (q is None) or (x is not None and not close(x, q, TOL, 100.0))]
        if mism:
            hbad.append((c, ops, mism[0], outs[mism[0]], exact[mism[0]]))
        # oracle: every returned value equals the value of a fresh object
        cur = c.res
        for k, op in enumerate(ops):
            if op[0] == "U":
                cur = op[1]
                continue
            fv = fresh_value(c, RN, cur, op)
            if not (abs(outs[k] - fv) <= TOL * max(1.0, abs(fv))):
                hist = shrink_history(c, RN, ops[:k + 1])
                stale = any(o[0] == "U" for o in hist[:-1])
                ctx.fail({"kind": "history", "query": show_op(op)[0],
                          "after": "update_resistances" if stale else "queries"},
                         f"{show_op(op)[0]} after {'update_resistances' if stale else 'queries'} "
                         f"returns {outs[k]}, a fresh ResNetwork with the current resistances "
                         f"returns {fv}",
                         c.replay(history=[show_op(o) for o in hist], observed=outs[k],
                                  expected=fv))
                break
    ctx.obligation(f"correspondence: Lean state machine (update/average/diameter/effRes/ercc) == "
                   f"ResNetwork on {len(hcases)} histories", "correspondence", not hbad,
                   "\n".join(f"op#{k} {show_op(ops[k])[0]} impl={x} model={q} :: A={enc_adj(c.A)} "
                             f"history={[enc_op(o)[:40] for o in ops]}"
                             for c, ops, k, x, q in hbad[:5]))

    # ------------------------------------------------------------------
    # D. complex impedances (implementation-only oracle)
    # ------------------------------------------------------------------
    complex_stream(ctx, RN, rng, 40 if quick else 400)
    stress_stream(ctx, RN, rng, 12 if quick else 120)


def kernel_case(K, n, Is, It, a32, r32, kreqs, kimpl, kmeta, tag):
    ea = enc_mat([[Fr(float(x)) for x in r] for r in a32])
    er = enc_mat([[Fr(float(x)) for x in r] for r in r32])
    kreqs.append(f"vcfb {n} {enc_fr(Fr(Is))} {enc_fr(Fr(It))} {ea} {er}")
    kimpl.append([float(K._vertex_current_flow_betweenness(n, Is, It, a32.copy(), r32.copy(), i))
                  for i in range(n)])
    kmeta.append(("vcfb", n, a32, r32, Is, It, tag))
    kreqs.append(f"ecfb {n} {enc_fr(Fr(Is))} {enc_fr(Fr(It))} {ea} {er}")
    kimpl.append(np.asarray(K._edge_current_flow_betweenness(n, Is, It, a32.copy(), r32.copy()),
                            dtype=float).ravel().tolist())
    kmeta.append(("ecfb", n, a32, r32, Is, It, tag))


def shrink_history(c, RN, ops):
    """drop operations before the failing query while it still disagrees with a fresh twin"""
    last = ops[-1]

    def still(pre):
        try:
            net = c.build(RN)
            cur = c.res
            for op in pre:
                apply_op(net, op)
                if op[0] == "U":
                    cur = op[1]
            x = apply_op(net, last)
            fv = fresh_value(c, RN, cur, last)
            return not (abs(x - fv) <= TOL * max(1.0, abs(fv)))
        except Exception:  # noqa
            return False
    return common.shrink_list(ops[:-1], still) + [last]


# --------------------------------------------------------------------------
# oracle on one real network: exact values and circuit laws
# --------------------------------------------------------------------------

def oracle_case(ctx, c, o, RN, rng):
    n = c.n
    ex = oracle_er(c)
    adm = oracle_adm(c)
    rs = max(1.0, max(float(x) for r in ex for x in r))

    def fail(law, what, **extra):
        ctx.fail({"kind": "law", "law": law}, what, c.replay(**extra))

    er = o["er"]
    # exact values
    for a in range(n):
        for b in range(n):
            if not close(er[a][b], ex[a][b], TOL, rs):
                fail("effective_resistance=exact-circuit-solve",
                     f"effective_resistance({a},{b}) = {er[a][b]}, exact circuit solve gives "
                     f"{ex[a][b]} = {float(ex[a][b])}", a=a, b=b, observed=er[a][b],
                     expected=enc_fr(ex[a][b]))
                return
    # metric laws on the implementation's own output
    for a in range(n):
        if er[a][a] != 0:
            fail("zero-on-diagonal", f"effective_resistance({a},{a}) = {er[a][a]} != 0", a=a)
        for b in range(n):
            if a != b and not er[a][b] > 0:
                fail("positive", f"effective_resistance({a},{b}) = {er[a][b]} is not positive",
                     a=a, b=b)
            if abs(er[a][b] - er[b][a]) > TOL * rs:
                fail("symmetric", f"effective_resistance({a},{b}) = {er[a][b]} but ({b},{a}) = "
                     f"{er[b][a]}", a=a, b=b)
            for k in range(n):
                if er[a][b] > er[a][k] + er[k][b] + TOL * rs:
                    fail("triangle", f"ER({a},{b}) = {er[a][b]} > ER({a},{k}) + ER({k},{b}) = "
                         f"{er[a][k] + er[k][b]}", a=a, b=b, k=k)
    # never exceeds the resistance of any connecting path (= the cheapest one)
    D = shortest_paths(c)
    for a in range(n):
        for b in range(n):
            if er[a][b] > float(D[a][b]) + TOL * rs:
                fail("path-bound", f"ER({a},{b}) = {er[a][b]} exceeds the path resistance "
                     f"{float(D[a][b])}", a=a, b=b)
    # Foster
    fo = sum(er[i][j] / float(c.res[i][j]) for i in range(n) for j in range(i) if c.A[i][j])
    if abs(fo - (n - 1)) > 1e-6 * n:
        fail("foster", f"sum over links of ER*conductance = {fo}, expected N-1 = {n - 1}",
             observed=fo)
    # generalised-inverse identities of get_R() assumed by the theorems
    L = np.array(o["lap"], dtype=float)
    R = np.array(o["R"], dtype=float)
    sc = max(1.0, np.abs(L).max()) * max(1.0, np.abs(R).max())
    if np.abs(L @ R @ L - L).max() > 1e-9 * sc * max(1.0, np.abs(L).max()) or \
            np.abs(L @ R - (np.eye(n) - 1.0 / n)).max() > 1e-9 * sc:
        fail("pinv-identities", "get_R() is not a generalised inverse of the admittance "
             "Laplacian (L R L = L, L R = I - J/N)")
    # series / parallel constructions
    if c.tag == "path":
        tot = sum(c.res[i][i + 1] for i in range(n - 1))
        if not close(er[0][n - 1], tot, TOL, rs):
            fail("series", f"series chain: ER(0,{n - 1}) = {er[0][n - 1]}, sum of resistances "
                 f"{float(tot)}")
    if c.tag in ("bundle", "bundle+direct"):
        g = sum(1 / (c.res[0][k] + c.res[k][1]) for k in range(2, n))
        if c.A[0][1]:
            g += 1 / c.res[0][1]
        if not close(er[0][1], 1 / g, TOL, rs):
            fail("parallel", f"parallel branches: ER(0,1) = {er[0][1]}, parallel law gives "
                 f"{float(1 / g)}")
    # defining sums: admittive degree / clustering exactly, betweenness on own R
    deg = [sum(c.A[i]) for i in range(n)]
    for i in range(n):
        ad = sum(adm[i])
        if not close(o["ad"][i], ad):
            fail("admittive_degree=sum", f"admittive_degree()[{i}] = {o['ad'][i]}, defining sum "
                 f"{float(ad)}", i=i)
        tri = sum(adm[i][j] * adm[i][k] * adm[j][k] for j in range(n) for k in range(n))
        lc = Fr(0) if deg[i] == 1 else tri / (ad * (deg[i] - 1))
        if not close(o["lc"][i], lc):
            fail("local_admittive_clustering=sum", f"local_admittive_clustering()[{i}] = "
                 f"{o['lc'][i]}, defining sum {float(lc)}", i=i)
    kb = f32_bound(o["adm"], o["R"])
    for i in range(n):
        dv = direct_vcfb(n, o["adm"], o["R"], i)
        if abs(o["vcfb"][i] - dv) > kb:
            fail("vcfb=sum", f"vertex_current_flow_betweenness({i}) = {o['vcfb'][i]}, defining "
                 f"sum on get_R()/get_admittance() gives {dv}", i=i)
    if n <= 6 or rng.random() < 0.3:
        de = direct_ecfb(n, o["adm"], o["R"])
        if np.abs(np.array(o["ecfb"]) - de).max() > kb:
            fail("ecfb=sum", "edge_current_flow_betweenness() differs from its defining sum "
                 f"by {np.abs(np.array(o['ecfb']) - de).max()}")
    # scaling of all resistances by a random factor: new object and update of the old one
    if rng.random() < 0.5:
        f = rng.choice([Fr(2), Fr(1, 2), Fr(3), Fr(1, 4), Fr(10), Fr(5, 8)])
        res2 = [[v * f for v in r] for r in c.res]
        for how in ("new", "update"):
            if how == "new":
                c2 = Case(n, c.A, res2, "dyadic", c.tag, c.adj_from_res)
                net2 = c2.build(RN)
            else:
                net2 = c.build(RN)
                quiet(net2.average_effective_resistance)
                quiet(net2.update_resistances, np.array([[float(v) for v in r] for r in res2]))
            o2 = observe(net2, n)
            ff = float(f)
            ok = all(abs(o2["er"][a][b] - ff * er[a][b]) <= TOL * rs * max(1.0, ff)
                     for a in range(n) for b in range(n))
            ok &= abs(o2["diam"] - ff * o["diam"]) <= TOL * rs * max(1.0, ff)
            ok &= abs(o2["avg"] - ff * o["avg"]) <= TOL * rs * max(1.0, ff)
            ok &= all(abs(o2["vcfb"][i] - o["vcfb"][i]) <= 2 * kb for i in range(n))
            ok &= all(abs(o2["ad"][i] - o["ad"][i] / ff) <= TOL * max(1.0, o["ad"][i] / ff)
                      for i in range(n))
            if not ok:
                ctx.fail({"kind": "law", "law": "scaling", "how": how},
                         f"multiplying all resistances by {f} ({how}) does not scale effective "
                         "resistances / diameter / average linearly (betweenness invariant, "
                         "admittive degree inversely)",
                         c.replay(factor=enc_fr(f), how=how, er_before=er, er_after=o2["er"],
                                  diameter_before=o["diam"], diameter_after=o2["diam"]))
        ctx.count("law:scaling-checked")


# --------------------------------------------------------------------------
# complex impedances
# --------------------------------------------------------------------------

def exact_er(n, A, res):
    adm = [[(1 / res[i][j]) if A[i][j] else Fr(0) for j in range(n)] for i in range(n)]
    L = [[(sum(adm[i]) if i == j else Fr(0)) - adm[i][j] for j in range(1, n)]
         for i in range(1, n)]
    eye = [[Fr(int(i == j)) for j in range(n - 1)] for i in range(n - 1)]
    G = fr_solve(L, eye)

    def g(a, b):
        return Fr(0) if a == 0 or b == 0 else G[a - 1][b - 1]
    return [[g(a, a) + g(b, b) - g(a, b) - g(b, a) for b in range(n)] for a in range(n)]


def stress_stream(ctx, RN, rng, count):
    """oracle only.  (1) connected networks whose resistances span many orders of magnitude
    (weak bridges, 1 ohm next to 1e8 ohm): effective resistance against the exact rational
    solve to *relative* accuracy, Foster's sum; (2) histories in which the array handed to
    update_resistances is the array the network already holds, edited in place (or the
    caller's original array scaled in place): everything must follow the change."""
    for rep_i in range(count):
        n = rng.randrange(3, 7)
        A = random_connected(n, rng, rng.choice([0.0, 0.3]))
        mags = [Fr(10) ** e for e in (0, 0, 0, 1, 3, 5, 7, 8)]      # ratio <= 5e8: float64-safe
        res = [[Fr(0)] * n for _ in range(n)]
        for i in range(n):
            for j in range(i):
                if A[i][j]:
                    res[i][j] = res[j][i] = rng.choice(mags) * rng.choice([1, 2, 5])
        ex = exact_er(n, A, res)
        rep = {"n": n, "adjacency": A, "resistances": [[str(v) for v in r] for r in res]}
        ctx.case(("stress", enc_adj(A), str(res)), True,
                 {"stress": "wide resistance range", "n": n} if rep_i == 0 else None)
        ctx.count("stress:wide-range")
        try:
            net = quiet(RN, np.array([[float(v) for v in r] for r in res]), silence_level=3)
            er = [[float(quiet(net.effective_resistance, a, b)) for b in range(n)] for a in range(n)]
        except Exception as e:  # noqa
            ctx.fail({"kind": "stress", "law": "exception"},
                     f"ResNetwork with a wide resistance range raised {type(e).__name__}: {e}", rep)
            continue
        # float64 pinv: entries are accurate relative to the *largest* effective resistance
        # (condition number of the Laplacian), small ones additionally to 1e-6 relative
        top = max(float(v) for r in ex for v in r)
        bad = [(a, b) for a in range(n) for b in range(n)
               if abs(er[a][b] - float(ex[a][b])) > 1e-5 * top + 1e-6 * float(ex[a][b])]
        if bad:
            a, b = bad[0]
            ctx.fail({"kind": "stress", "law": "effective_resistance=exact-solve"},
                     f"effective_resistance({a},{b}) = {er[a][b]} on a network with a wide range of "
                     f"resistances, the exact circuit solve gives {float(ex[a][b])}",
                     dict(rep, pair=[a, b], observed=er[a][b], expected=str(ex[a][b])))
            continue
        fo = sum(er[i][j] / float(res[i][j]) for i in range(n) for j in range(i) if A[i][j])
        if abs(fo - (n - 1)) > 1e-2 * n:
            ctx.fail({"kind": "stress", "law": "foster"},
                     f"Foster sum = {fo} on a wide-range network, expected {n - 1}", rep)
    for rep_i in range(count):
        n = rng.randrange(3, 7)
        A = random_connected(n, rng, rng.choice([0.0, 0.3, 0.6]))
        R = np.zeros((n, n))
        for i in range(n):
            for j in range(i):
                if A[i][j]:
                    R[i, j] = R[j, i] = rng.choice([0.5, 1.0, 2.0, 4.0, 8.0])
        mode = rng.choice(["edit-held-array", "scale-caller-array"])
        ctx.case(("alias", enc_adj(A), R.tobytes().hex(), mode), True,
                 {"history": mode, "n": n} if rep_i == 0 else None)
        ctx.count("stress:alias:" + mode)
        try:
            r = R.copy()
            net = quiet(RN, r, silence_level=3)
            quiet(net.diameter_effective_resistance)
            quiet(net.average_effective_resistance)
            if mode == "edit-held-array":
                held = net.resistances
                i, j = next((i, j) for i in range(n) for j in range(i) if A[i][j])
                held[i, j] = held[j, i] = held[i, j] * 10 + 1
                quiet(net.update_resistances, held)
                cur = np.array(held, dtype=float)
            else:
                r *= 3
                quiet(net.update_resistances, r)
                cur = r.copy()
            twin = quiet(RN, cur.copy(), silence_level=3)
            obs = [[float(quiet(net.effective_resistance, a, b)) for b in range(n)] for a in range(n)]
            exp = [[float(quiet(twin.effective_resistance, a, b)) for b in range(n)] for a in range(n)]
            extra = [(float(quiet(getattr(net, m))), float(quiet(getattr(twin, m))))
                     for m in ("diameter_effective_resistance", "average_effective_resistance")]
            adm = (np.asarray(quiet(net.get_admittance), dtype=float),
                   np.asarray(quiet(twin.get_admittance), dtype=float))
        except Exception as e:  # noqa
            ctx.count("stress:alias-raises:" + type(e).__name__)
            continue
        if not np.allclose(obs, exp, rtol=1e-7, atol=1e-9) or \
                any(abs(a - b) > 1e-7 * max(1, abs(b)) for a, b in extra) or \
                not np.allclose(adm[0], adm[1], rtol=1e-9):
            ctx.fail({"kind": "stress", "law": "follows-update", "history": mode},
                     f"after `{mode}` + update_resistances the network does not follow the new "
                     f"resistances (effective resistance / diameter / admittance differ from a fresh object)",
                     {"n": n, "adjacency": A, "resistances": R.tolist(), "history": mode,
                      "observed": obs, "fresh": exp})


def complex_stream(ctx, RN, rng, count):
    for _ in range(count):
        n = rng.randrange(2, 7)
        kind = rng.choice(["path", "bundle+direct", "random", "random", "cycle"])
        if kind == "random":
            A = random_connected(n, rng, rng.choice([0.0, 0.3, 0.6]))
        else:
            A = structured(max(n, 3) if kind != "path" else n, kind)
            n = len(A)
        Z = np.zeros((n, n), dtype=complex)
        for i in range(n):
            for j in range(i):
                if A[i][j]:
                    Z[i, j] = Z[j, i] = complex(rng.randrange(1, 17) / 2, rng.randrange(-16, 17) / 2)
        ctx.count("complex:" + kind)
        ctx.case(("complex", enc_adj(A), Z.tolist().__repr__()), n >= 3)
        rep = {"n": n, "adjacency": A, "impedances": [[str(z) for z in r] for r in Z.tolist()]}

        def fail(law, what, **extra):
            ctx.fail({"kind": "complex", "law": law}, what, dict(rep, **extra))
        try:
            net = quiet(RN, Z.copy(), adjacency=np.array(A, dtype=np.int8))
            er = np.array([[quiet(net.effective_resistance, a, b) for b in range(n)]
                           for a in range(n)])
            ad = quiet(net.admittive_degree)
            lc = quiet(net.local_admittive_clustering)
        except Exception as ex:  # noqa
            fail("exception", f"complex ResNetwork raised {type(ex).__name__}: {ex}")
            continue
        Y = np.where(np.array(A) != 0, 1.0 / np.where(Z == 0, 1, Z), 0)
        L = np.diag(Y.sum(axis=1)) - Y
        G = np.zeros((n, n), dtype=complex)
        G[1:, 1:] = np.linalg.inv(L[1:, 1:])
        ex = np.array([[G[a, a] + G[b, b] - G[a, b] - G[b, a] for b in range(n)] for a in range(n)])
        sc = max(1.0, np.abs(ex).max())
        if np.abs(er - ex).max() > 1e-6 * sc:
            a, b = np.unravel_index(np.abs(er - ex).argmax(), er.shape)
            fail("effective_impedance=direct-solve",
                 f"effective_resistance({a},{b}) = {er[a, b]}, direct solve gives {ex[a, b]}")
            continue
        if np.abs(er - er.T).max() > 1e-7 * sc or np.abs(np.diag(er)).max() != 0:
            fail("symmetric/zero", "complex effective resistance not symmetric / not 0 on diagonal")
        fo = sum(er[i, j] * Y[i, j] for i in range(n) for j in range(i) if A[i][j])
        if abs(fo - (n - 1)) > 1e-6 * n:
            fail("foster", f"sum ER*admittance over links = {fo}, expected {n - 1}")
        if kind == "path":
            tot = sum(Z[i, i + 1] for i in range(n - 1))
            if abs(er[0, n - 1] - tot) > 1e-7 * sc:
                fail("series", f"ER(0,{n - 1}) = {er[0, n - 1]}, series law {tot}")
        if kind == "bundle+direct":
            g = 1 / Z[0, 1] + sum(1 / (Z[0, k] + Z[k, 1]) for k in range(2, n))
            if abs(er[0, 1] - 1 / g) > 1e-7 * sc:
                fail("parallel", f"ER(0,1) = {er[0, 1]}, parallel law {1 / g}")
        if np.abs(ad - Y.sum(axis=0)).max() > 1e-9 * max(1.0, np.abs(Y).max()):
            fail("admittive_degree=sum", "complex admittive degree differs from its defining sum")
        deg = np.array(A).sum(axis=1)
        for i in range(n):
            tri = sum(Y[i, j] * Y[i, k] * Y[j, k] for j in range(n) for k in range(n))
            e = 0 if deg[i] == 1 else tri / (Y[i].sum() * (deg[i] - 1))
            if abs(lc[i] - e) > 1e-9 * max(1.0, abs(e)):
                fail("local_admittive_clustering=sum",
                     f"complex local_admittive_clustering()[{i}] = {lc[i]}, defining sum {e}")
        # scaling by a complex factor through update_resistances, after the store was filled
        f = complex(rng.randrange(1, 5), rng.randrange(-2, 3))
        quiet(net.average_effective_resistance)
        quiet(net.update_resistances, Z * f)
        er2 = np.array([[quiet(net.effective_resistance, a, b) for b in range(n)]
                        for a in range(n)])
        if np.abs(er2 - f * er).max() > 1e-6 * sc * abs(f):
            fail("scaling", f"multiplying all impedances by {f} does not scale the effective "
                 "impedance")
        avg = quiet(net.average_effective_resistance)
        twin = quiet(RN, Z * f, adjacency=np.array(A, dtype=np.int8))
        if abs(avg - quiet(twin.average_effective_resistance)) > 1e-6 * sc * abs(f):
            fail("history", "average_effective_resistance after update_resistances differs "
                 "from a fresh object")
