"""C06, round 4 — every public method that returns a value is a query, whatever it writes.

* `all_queries`      query discovery that does NOT exclude the methods C01's table classifies as
                     mutators because they store a link attribute (distance / correlation / lag /
                     strength / inv_correlation weighted measures ...)
* `order_oracle`     the same queries asked in opposite orders on two fresh twins of one object:
                     every value must agree (a first-writer-wins slot shared by two methods shows up
                     in one of the two orders); disagreements are diagnosed against single-question
                     fresh twins down to an ordered pair (q1, q2)
* `attr_oracle`      the attribute-setting measures of the translator's slot tables
                     (translate/attrs_C06.py): single-question references on fresh twins, then for
                     every q1 a fresh twin asked q1 followed by all others; correspondence with the
                     Lean model `arun` (which answers differ from fresh; which slot holds which
                     generating expression afterwards — the expressions are evaluated on a fresh twin)
* `int_length_oracle` link-weighted path measures on networks with small integer link lengths
                     (distances equal to N occur), all ordered pairs against fresh references
* `coverage`         obligation: public value-returning methods never used as a query
"""
import os
import shutil
import tempfile

import numpy as np

from . import common
from .c01 import (same, quiet, brief, query_variants, SKIP_QUERIES, skip_now, public_queries,
                  NOT_QUERIES, CONNECTED_ONLY)


def all_queries(cls):
    """cached methods + public methods callable without arguments; a method that stores a link
    attribute and returns a value is a query like any other (empty mutator table)"""
    cand = set(n for n in dir(cls) if hasattr(getattr(cls, n, None), "cache_info")) | \
        public_queries(cls, {})
    return sorted(m for m in cand if m not in SKIP_QUERIES)


ARG_RECIPES = {"node_list": [[0, 2, 4], [1, 3]], "node_list1": [[0, 2, 4], [1, 3]],
               "node_list2": [[1, 3, 5], [0, 4]]}


def arg_queries(cls, argsets):
    """public methods with *required* parameters, called with recipes keyed by parameter name
    (node lists of InteractingNetworks and of everything derived from it); optional parameters
    named in `argsets` give one more variant each"""
    import inspect
    out = []
    for name in dir(cls):
        if name.startswith("_") or name in NOT_QUERIES or name in SKIP_QUERIES or \
                name.startswith(MUTATOR_PREFIXES + CTOR_PREFIXES) or \
                any(t in name.lower() for t in RANDOM_TOKENS):
            continue
        fn = inspect.getattr_static(cls, name)
        if isinstance(fn, (staticmethod, classmethod, property)) or not callable(getattr(cls, name)):
            continue
        try:
            params = list(inspect.signature(getattr(cls, name)).parameters.values())[1:]
        except (TypeError, ValueError):
            continue
        req = [p for p in params if p.default is inspect.Parameter.empty
               and p.kind in (p.POSITIONAL_OR_KEYWORD, p.POSITIONAL_ONLY)]
        if not req or any(p.name not in ARG_RECIPES for p in req):
            continue
        for k in range(2):
            kw = {p.name: ARG_RECIPES[p.name][k] for p in req}
            out.append((name, kw))
            if k == 0:
                for p in params:
                    for v in argsets.get(p.name, []) if p not in req else []:
                        out.append((name, dict(kw, **{p.name: v})))
    return out


class Scratch:
    """MutualInfoClimateNetwork stores its matrix in a file of the working directory and loads
    it again in the next constructor call: fresh twins are built in an empty directory"""
    def __enter__(self):
        self.old = os.getcwd()
        self.tmp = tempfile.mkdtemp(prefix="c06cwd")
        os.chdir(self.tmp)
        return self

    def clean(self):
        for f in os.listdir("."):
            try:
                os.remove(f)
            except OSError:
                pass

    def __exit__(self, *a):
        os.chdir(self.old)
        shutil.rmtree(self.tmp, ignore_errors=True)


def call(o, m, kw):
    return quiet(getattr(o, m), **kw)


def attr_names(o):
    try:
        return list(o.graph.es.attributes())
    except Exception:  # noqa
        return []


def fresh_value(spec, pristine, scratch, m, kw):
    scratch.clean()
    t = quiet(spec["twin"], pristine)
    return call(t, m, kw)


def reproducible(spec, pristine, scratch, m, kw, ref):
    """two fresh objects asked the same single question agree (else the measure is not a function
    of the inputs here: ARPACK start vectors, degenerate eigenspaces)"""
    try:
        return same(fresh_value(spec, pristine, scratch, m, kw), ref)
    except Exception:  # noqa
        return False


def diagnose(ctx, cname, spec, pristine, scratch, hist, q2, observed, kind, extra=None):
    """`hist` (list of (m, kw)) followed by q2 gave `observed`; find what a fresh object answers
    and the shortest reproducing prefix: a single earlier query if one suffices"""
    m2, kw2 = q2
    try:
        ref = fresh_value(spec, pristine, scratch, m2, kw2)
    except Exception:  # noqa
        return False
    if same(observed, ref) or not reproducible(spec, pristine, scratch, m2, kw2, ref):
        return False
    culprit = None
    for m1, kw1 in hist:
        try:
            scratch.clean()
            t = quiet(spec["twin"], pristine)
            call(t, m1, kw1)
            v = call(t, m2, kw2)
        except Exception:  # noqa
            continue
        if not same(v, ref):
            culprit = (m1, kw1, v)
            break
    if culprit:
        m1, kw1, v = culprit
        ctx.fail({"kind": kind, "class": cname, "q1": m1, "q2": m2},
                 f"{cname}: {m2}({kw2}) asked after {m1}({kw1}) on one object differs from what a "
                 f"fresh object answers (the answer depends on the queries made before)",
                 dict({"class": cname, "q1": m1, "q1_args": kw1, "q2": m2, "q2_args": kw2,
                       "after_q1": brief(v), "fresh": brief(ref)}, **(extra or {})))
    else:
        ctx.fail({"kind": kind, "class": cname, "q2": m2, "history": len(hist)},
                 f"{cname}: {m2}({kw2}) after {len(hist)} other queries differs from what a fresh "
                 f"object answers",
                 dict({"class": cname, "history": [f"{m}({kw})" for m, kw in hist], "q2": m2,
                       "q2_args": kw2, "observed": brief(observed), "fresh": brief(ref)},
                      **(extra or {})))
    return True


def order_oracle(ctx, cname, spec, used, quick):
    """all usable queries in one order on twin A and in the opposite order on twin B"""
    rng = ctx.rng
    cls = spec["cls"]
    with Scratch() as scratch:
        pristine = quiet(spec["make"], rng)
        queries = [(m, kw) for m in all_queries(cls) for kw in query_variants(cls, m, spec["argsets"])]
        if pristine.__dict__.get("N", getattr(pristine, "N", 0)) >= 6:
            queries += arg_queries(cls, spec["argsets"] or {"link_attribute": ["w"]}
                                   if hasattr(pristine, "graph") and "w" in attr_names(pristine)
                                   else spec["argsets"])
        try:
            scratch.clean()
            a = quiet(spec["twin"], pristine)
            scratch.clean()
            b = quiet(spec["twin"], pristine)
        except Exception as ex:  # noqa
            ctx.count(f"{cname}:order:twin-raises:{type(ex).__name__}")
            return
        order = [q for q in queries if not skip_now(pristine, q[0])]
        rng.shuffle(order)
        va, vb, done_a, done_b = {}, {}, [], []
        for i, (m, kw) in enumerate(order):
            try:
                va[i] = call(a, m, kw)
                done_a.append(i)
            except Exception:  # noqa
                pass
        for i in reversed(range(len(order))):
            m, kw = order[i]
            try:
                vb[i] = call(b, m, kw)
                done_b.append(i)
            except Exception:  # noqa
                pass
        nfail = 0
        for i, (m, kw) in enumerate(order):
            if i not in va or i not in vb:
                ctx.count(f"{cname}:order:query-raises")
                continue
            used.setdefault(cname, set()).add(m)
            if any(k in ARG_RECIPES for k in kw):
                ctx.count(f"{cname}:order:node-list-queries")
            ctx.case(("order", cname, m, str(kw)), True,
                     {"class": cname, "query": m, "orders": "forward/backward"})
            if same(va[i], vb[i]) or nfail >= 3:
                continue
            # which of the two differs from a fresh single-question object?
            ha = [order[j] for j in done_a if j < i]
            hb = [order[j] for j in done_b if j > i]
            hit = diagnose(ctx, cname, spec, pristine, scratch, ha, (m, kw), va[i], "order-dependence")
            hit = diagnose(ctx, cname, spec, pristine, scratch, hb, (m, kw), vb[i],
                           "order-dependence") or hit
            if hit:
                nfail += 1
            else:
                ctx.count(f"{cname}:order:unreproducible-measure")
        ctx.count(f"{cname}:order-rounds")


def eval_gens(eff, cname, twin, gens_needed):
    """values of the generating expressions of the class's slot table on a fresh object"""
    vals = {}
    for g in gens_needed:
        try:
            vals[g] = np.asarray(quiet(eval, eff["attr_gens"][g], {"np": np, "abs": abs, "self": twin}),
                                 dtype=float)
        except Exception:  # noqa
            vals[g] = None
    return vals


def on_links(M, E):
    """entries of an N x N matrix at the stored links `E` = (rows, cols, N): `set_link_attribute`
    reads exactly `values[e.tuple]` for every edge e (one triangle of an undirected network)"""
    M = np.asarray(M, dtype=float)
    return M[E[0], E[1]] if M.shape == (E[2], E[2]) else None


def attr_oracle(ctx, eff, specs, used, quick):
    rng = ctx.rng
    reqs, impl = [], []
    n_classes = 0
    for cname, mk in specs.items():
        spec = mk()
        cls = spec["cls"]
        table = eff["attr_tables"].get(cls.__name__)
        if not table or spec.get("only_summary"):
            continue
        n_classes += 1
        W = [m for m in sorted(table["methods"]) if hasattr(cls, m)]
        gens_needed = sorted({s[2] for v in table["methods"].values() for s in v["steps"]
                              if s[0] in ("store", "ensure")} |
                             {g for v in table["methods"].values() for s in v["steps"]
                              if s[0] == "once" for _, g in s[2]})
        for rnd in range(1 if quick else 4):
            with Scratch() as scratch:
                pristine = quiet(spec["make"], rng)
                base_attrs = set(attr_names(pristine))
                # single-question references
                ref, usable, failing = {}, [], []
                for m in W:
                    try:
                        ref[m] = fresh_value(spec, pristine, scratch, m, {})
                        if reproducible(spec, pristine, scratch, m, {}, ref[m]):
                            usable.append(m)
                        else:
                            ctx.count(f"{cname}:attr:unreproducible")
                    except Exception as ex:  # noqa
                        ctx.count(f"{cname}:attr:query-raises:{type(ex).__name__}")
                        failing.append((m, type(ex).__name__))
                # a measure that cannot answer on a fresh object but can after another query
                # depends on the history just as well (it reads a slot it does not make sure of)
                for m, exn in failing:
                    for q1 in usable:
                        scratch.clean()
                        t = quiet(spec["twin"], pristine)
                        try:
                            call(t, q1, {})
                            v = call(t, m, {})
                        except Exception:  # noqa
                            continue
                        ctx.fail({"kind": "answers-only-after", "class": cname, "q1": q1, "q2": m},
                                 f"{cname}: {m}() raises {exn} on a fresh object but answers after "
                                 f"{q1}() (it depends on an attribute another query leaves behind)",
                                 {"class": cname, "q1": q1, "q2": m, "fresh": "raises " + exn,
                                  "after_q1": brief(v)})
                        break
                # generating expressions on a fresh object; classes of equal value on the links
                scratch.clean()
                ev = quiet(spec["twin"], pristine)
                el = np.array(ev.graph.get_edgelist(), dtype=int).reshape(-1, 2)
                A = (el[:, 0], el[:, 1], ev.N)
                vals = eval_gens(eff, cname, ev, gens_needed)
                ngen = len(eff["attr_gens"])
                rep = list(range(ngen))
                for g in gens_needed:
                    if vals[g] is None or on_links(vals[g], A) is None:
                        rep[g] = 999
                        ctx.count(f"{cname}:attr:gen-not-evaluable")
                        continue
                    for h in gens_needed:
                        if h < g and rep[h] != 999 and np.allclose(
                                on_links(vals[h], A), on_links(vals[g], A), rtol=1e-6, atol=1e-9,
                                equal_nan=True):
                            rep[g] = rep[h]
                            break
                for q1 in usable:
                    chain = [q1] + rng.sample([m for m in usable if m != q1], len(usable) - 1)
                    scratch.clean()
                    t = quiet(spec["twin"], pristine)
                    flags, slots, seen = [], [], set(base_attrs)
                    hist = []
                    for m in chain:
                        try:
                            v = call(t, m, {})
                        except Exception:  # noqa
                            flags.append("E")
                            continue
                        used.setdefault(cname, set()).add(m)
                        ctx.case(("attr-chain", cname, q1, m), True,
                                 {"class": cname, "q1": q1, "q2": m})
                        differs = not same(v, ref[m])
                        flags.append("1" if differs else "0")
                        if differs:
                            diagnose(ctx, cname, spec, pristine, scratch,
                                     [(h, {}) for h in hist], (m, {}), v, "attribute-slot-interference")
                        hist.append(m)
                        for a in attr_names(t):
                            if a not in seen:
                                seen.add(a)
                                slots.append(a)
                    # which generating expression does every new slot hold?
                    out = []
                    for s in slots:
                        L = on_links(quiet(t.link_attribute, s), A)
                        g_hit = 999
                        for g in gens_needed:
                            if rep[g] != 999 and L is not None and np.allclose(
                                    L, on_links(vals[g], A), rtol=1e-6, atol=1e-9, equal_nan=True):
                                g_hit = rep[g]
                                break
                        out.append(f"{s}={g_hit}")
                    reqs.append(f"arun {cls.__name__} {','.join(chain)} {','.join(map(str, rep))} "
                                f"{1 if len(el) else 0}")
                    ctx.count(f"{cname}:attr-chains:" + ("with-links" if len(el) else "link-less"))
                    impl.append(",".join(flags) + " | " + (";".join(out) or "-"))
                    ctx.count(f"{cname}:attr-chains")
    if reqs:
        ctx.correspond(f"slot model over the translator's link-attribute tables predicts, per query "
                       f"chain on a real object, which answers differ from a fresh object and which "
                       f"generating expression every attribute left behind holds ({n_classes} classes)",
                       reqs, impl)
    ok = common.driver("C06", ["aok", "aoffenders"])
    ctx.correspond("generated link-attribute tables pass the decidable check in the compiled model",
                   ["aok", "aoffenders"], ["1", "-"])
    return ok


def int_length_oracle(ctx, used, quick):
    """link lengths that are small integers: genuine finite distances equal to N, to N - 1, ...
    exist, so code that recognises its own temporary marker by *value* is exposed"""
    from pyunicorn.core import Network
    rng = ctx.rng
    Q = [("path_lengths", {"link_attribute": "len"}), ("average_path_length", {"link_attribute": "len"}),
         ("closeness", {"link_attribute": "len"}), ("global_efficiency", {"link_attribute": "len"}),
         ("local_vulnerability", {"link_attribute": "len"}), ("path_lengths", {}),
         ("average_path_length", {}), ("closeness", {}), ("global_efficiency", {}),
         ("diameter", {})]
    for rep in range(6 if quick else 40):
        n = rng.choice([5, 6, 7, 8])
        A = np.zeros((n, n), dtype=int)
        W = np.zeros((n, n))
        split = rng.random() < 0.3          # two components: infinite entries next to finite ones
        for i in range(n):
            j = (i + 1) % n
            if split and i in (n // 2 - 1, n - 1):
                continue
            A[i, j] = A[j, i] = 1
        for _ in range(rng.randrange(0, 3)):
            i, j = rng.sample(range(n), 2)
            if not split or (i < n // 2) == (j < n // 2):
                A[i, j] = A[j, i] = 1
        for i in range(n):
            for j in range(i + 1, n):
                if A[i, j]:
                    W[i, j] = W[j, i] = float(rng.choice([1, 2, 2, 3, 4, 5]))
        hit_n = None

        def mk():
            net = Network(adjacency=A.copy(), directed=False, silence_level=3)
            net.set_link_attribute("len", W.copy())
            return net
        ref = {}
        for k, (m, kw) in enumerate(Q):
            try:
                ref[k] = call(mk(), m, kw)
            except Exception:  # noqa
                pass
        if 0 in ref:
            hit_n = bool(np.any(np.asarray(ref[0]) == n))
        ctx.count("int-lengths:distance-equal-N" if hit_n else "int-lengths:no-distance-equal-N")
        spec = {"twin": lambda _p: mk()}
        for k1, (m1, kw1) in enumerate(Q):
            if k1 not in ref:
                continue
            net = mk()
            try:
                call(net, m1, kw1)
            except Exception:  # noqa
                continue
            hist = [(m1, kw1)]
            for k2, (m2, kw2) in enumerate(Q):
                if k2 not in ref:
                    continue
                used.setdefault("Network", set()).update((m1, m2))
                ctx.case(("int-lengths", rep, k1, k2), True,
                         {"class": "Network", "q1": m1, "q2": m2, "lengths": "small integers"})
                v = call(net, m2, kw2)
                if not same(v, ref[k2]):
                    diagnose(ctx, "Network", spec, None, NoScratch, hist, (m2, kw2), v,
                             "interference", extra={"adjacency": A.tolist(), "lengths": W.tolist(),
                                                    "link_attribute": "len"})
                    break
                hist.append((m2, kw2))


class NoScratch:
    @staticmethod
    def clean():
        pass


RANDOM_TOKENS = ("shuffled", "surrogate", "random", "bootstrap")
MUTATOR_PREFIXES = ("set_", "update_", "randomly_", "del_")
CTOR_PREFIXES = ("Load", "Small", "From", "Model", "Erdos", "Barabasi", "Configuration", "Watts",
                 "Regular")


def coverage(ctx, eff, specs, used, raised):
    """every public value-returning method of every class spec is either used as a query (q1 and
    q2 of the ordered-pair tests) or listed here with the reason why it is not"""
    report, unexplained = {}, []
    n_all = n_used = 0
    for cname, mk in specs.items():
        spec = mk()
        cls = spec["cls"]
        vm = eff["value_methods"].get(cls.__name__, {})
        cats = {}
        for m, required in sorted(vm.items()):
            n_all += 1
            if m in used.get(cname, ()):
                n_used += 1
                continue
            if spec.get("only_summary"):
                why = "class driven through its summary only (node-list arguments)"
            elif required > 0:
                why = "needs arguments"
            elif m.startswith(MUTATOR_PREFIXES):
                why = "mutator by name (set_/update_/randomly_/del_)"
            elif m.startswith(CTOR_PREFIXES):
                why = "constructor-like"
            elif any(t in m.lower() for t in RANDOM_TOKENS) or m in SKIP_QUERIES:
                why = "randomised by documentation"
            elif m in NOT_QUERIES:
                why = "returns a new object / writes a file / prints (excluded by name)"
            elif not hasattr(cls, m) or not callable(getattr(cls, m, None)):
                why = "not a method of the runtime class"
            elif m in raised.get(cname, ()):
                why = "raises on every object of the spec"
            elif m in CONNECTED_ONLY:
                why = "spectral measure: a function of the graph on connected graphs only " \
                      "(no connected object drawn in this run)"
            else:
                why = None
                unexplained.append(f"{cname}.{m}")
            if why:
                cats.setdefault(why, []).append(m)
        report[cname] = {k: sorted(v) for k, v in cats.items()}
    ctx.extra["value_methods_never_queried"] = report
    summary = {}
    for c in report.values():
        for k, v in c.items():
            summary[k] = summary.get(k, 0) + len(v)
    ctx.obligation(f"every public value-returning method callable without arguments is used as a "
                   f"query ({n_used} of {n_all} (class, method) pairs used; never used, by reason: "
                   f"{summary}; full lists in the evidence)", "coverage", not unexplained,
                   ", ".join(unexplained[:40]))
